#!/bin/sh
# builds the driver and pre-warms the Go build cache; offline, from files on disk only
set -e
export GOFLAGS=-mod=mod GOPROXY=off GOSUMDB=off GOTOOLCHAIN=local
cd /verif/engine
mkdir -p /verif/bin
go build -o /verif/bin/vcheck ./cmd/vcheck
go test -count=1 ./vrt >/dev/null
echo "setup ok"
