package vrt

import (
	"fmt"
	"sort"
	"sync"
)

// Locker mirrors sync.Locker.
type Locker = sync.Locker

// Mutex mirrors sync.Mutex.  Managed threads use the model state; everybody else
// the real mutex.
type Mutex struct {
	real  sync.Mutex
	epoch uint64
	held  bool
	owner int
}

func (m *Mutex) sync() {
	if m.epoch != s.epoch {
		m.epoch = s.epoch
		m.held = false
	}
}

func (m *Mutex) Lock() {
	t := me()
	if t == nil {
		m.real.Lock()
		return
	}
	if t.killed {
		t.die()
		return
	}
	m.sync()
	if t.quiet > 0 && !m.held {
		m.held, m.owner = true, t.id
		s.acc(t, addr(m), true)
		return
	}
	s.point(t, &pend{kind: opLock, mu: m})
	m.held, m.owner = true, t.id
	s.acc(t, addr(m), true)
}

func (m *Mutex) TryLock() bool {
	t := me()
	if t == nil {
		return m.real.TryLock()
	}
	if t.killed {
		return false
	}
	m.sync()
	pt(t, "trylock")
	s.acc(t, addr(m), true)
	if m.held {
		return false
	}
	m.held, m.owner = true, t.id
	return true
}

func (m *Mutex) Unlock() {
	t := me()
	if t == nil {
		m.real.Unlock()
		return
	}
	if t.killed {
		m.held = false
		return
	}
	m.sync()
	if !m.held {
		panic(fatalError("sync: unlock of unlocked mutex"))
	}
	m.held = false
	s.acc(t, addr(m), true)
	pt(t, "unlock")
}

type fatalError string

func (e fatalError) Error() string { return string(e) }

// RWMutex mirrors sync.RWMutex (without writer preference: see DESIGN §2.2).
type RWMutex struct {
	real    sync.RWMutex
	epoch   uint64
	wheld   bool
	readers int
}

func (m *RWMutex) sync() {
	if m.epoch != s.epoch {
		m.epoch = s.epoch
		m.wheld, m.readers = false, 0
	}
}

func (m *RWMutex) Lock() {
	t := me()
	if t == nil {
		m.real.Lock()
		return
	}
	if t.killed {
		t.die()
		return
	}
	m.sync()
	if t.quiet > 0 && !m.wheld && m.readers == 0 {
		m.wheld = true
		s.vcAcquire(t, addr(m)+1)
		s.acc(t, addr(m), true)
		return
	}
	s.point(t, &pend{kind: opRLock, rw: m, what: "wlock"})
	m.wheld = true
	s.vcAcquire(t, addr(m)+1)
	s.acc(t, addr(m), true)
}

func (m *RWMutex) Unlock() {
	t := me()
	if t == nil {
		m.real.Unlock()
		return
	}
	if t.killed {
		m.wheld = false
		return
	}
	m.sync()
	if !m.wheld {
		panic(fatalError("sync: Unlock of unlocked RWMutex"))
	}
	m.wheld = false
	s.acc(t, addr(m), true)
	pt(t, "unlock")
}

func (m *RWMutex) RLock() {
	t := me()
	if t == nil {
		m.real.RLock()
		return
	}
	if t.killed {
		t.die()
		return
	}
	m.sync()
	if t.quiet > 0 && !m.wheld {
		m.readers++
		s.accHash(t, addr(m), true)
		s.vcAcquire(t, addr(m))
		return
	}
	s.point(t, &pend{kind: opRLock, rw: m, what: "rlock"})
	m.readers++
	// a reader is ordered after the last writer only, never after other readers
	s.accHash(t, addr(m), true)
	s.vcAcquire(t, addr(m))
}

func (m *RWMutex) RUnlock() {
	t := me()
	if t == nil {
		m.real.RUnlock()
		return
	}
	if t.killed {
		if m.readers > 0 {
			m.readers--
		}
		return
	}
	m.sync()
	if m.readers <= 0 {
		panic(fatalError("sync: RUnlock of unlocked RWMutex"))
	}
	m.readers--
	s.accHash(t, addr(m), true)
	s.vcReleaseJoin(t, addr(m)+1)
	pt(t, "runlock")
}

func (m *RWMutex) TryLock() bool {
	t := me()
	if t == nil {
		return m.real.TryLock()
	}
	m.sync()
	pt(t, "trylock")
	s.vcAcquire(t, addr(m)+1)
	s.acc(t, addr(m), true)
	if m.wheld || m.readers > 0 {
		return false
	}
	m.wheld = true
	return true
}

func (m *RWMutex) TryRLock() bool {
	t := me()
	if t == nil {
		return m.real.TryRLock()
	}
	m.sync()
	pt(t, "tryrlock")
	s.accHash(t, addr(m), true)
	s.vcAcquire(t, addr(m))
	if m.wheld {
		return false
	}
	m.readers++
	return true
}

type rlocker RWMutex

func (r *rlocker) Lock()   { (*RWMutex)(r).RLock() }
func (r *rlocker) Unlock() { (*RWMutex)(r).RUnlock() }

func (m *RWMutex) RLocker() Locker { return (*rlocker)(m) }

// WaitGroup mirrors sync.WaitGroup.
type WaitGroup struct {
	real  sync.WaitGroup
	epoch uint64
	n     int
}

func (w *WaitGroup) sync() {
	if w.epoch != s.epoch {
		w.epoch = s.epoch
		w.n = 0
	}
}

func (w *WaitGroup) Add(d int) {
	t := me()
	if t == nil {
		w.real.Add(d)
		return
	}
	if t.killed {
		w.n += d
		return
	}
	w.sync()
	w.n += d
	s.acc(t, addr(w), true)
	if w.n < 0 {
		panic(fatalError("sync: negative WaitGroup counter"))
	}
	pt(t, "wg.add")
}

func (w *WaitGroup) Done() { w.Add(-1) }

func (w *WaitGroup) Wait() {
	t := me()
	if t == nil {
		w.real.Wait()
		return
	}
	if t.killed {
		t.die()
		return
	}
	w.sync()
	s.point(t, &pend{kind: opWGWait, wg: w})
	s.acc(t, addr(w), false)
}

// Once mirrors sync.Once.
type Once struct {
	real     sync.Once
	runEpoch uint64
	done     bool
	running  bool
}

func (o *Once) Do(f func()) {
	t := me()
	if t == nil {
		o.real.Do(func() {
			defer func() { o.done = true }()
			f()
		})
		return
	}
	if t.killed {
		t.die()
		if !o.done {
			o.done = true
			f()
		}
		return
	}
	if o.runEpoch != s.epoch {
		o.runEpoch = s.epoch
		o.running = false
	}
	if o.done {
		pt(t, "once")
		s.acc(t, addr(o), false)
		return
	}
	s.point(t, &pend{kind: opOnce, once: o})
	if t.killed {
		return
	}
	if o.done {
		s.acc(t, addr(o), false)
		return
	}
	s.acc(t, addr(o), true)
	o.running = true
	defer func() {
		o.done = true
		o.running = false
		o.real.Do(func() {})
		s.acc(t, addr(o), true)
	}()
	f()
}

// Cond mirrors sync.Cond.
type Cond struct {
	L       Locker
	real    *sync.Cond
	waiters []*condWaiter
	epoch   uint64
}

type condWaiter struct {
	signalled bool
	t         *thread
}

func NewCond(l Locker) *Cond { return &Cond{L: l} }

func (c *Cond) realCond() *sync.Cond {
	if c.real == nil {
		c.real = sync.NewCond(c.L)
	}
	return c.real
}

func (c *Cond) sync() {
	if c.epoch != s.epoch {
		c.epoch = s.epoch
		c.waiters = nil
	}
}

func (c *Cond) Wait() {
	t := me()
	if t == nil {
		c.realCond().Wait()
		return
	}
	if t.killed {
		t.die()
		return
	}
	c.sync()
	w := &condWaiter{t: t}
	c.waiters = append(c.waiters, w)
	s.acc(t, addr(c), true)
	c.L.Unlock()
	s.point(t, &pend{kind: opCondWait, cond: w})
	s.acc(t, addr(c), true)
	c.L.Lock()
}

func (c *Cond) Signal() {
	t := me()
	if t == nil {
		c.realCond().Signal()
		return
	}
	if t.killed {
		return
	}
	c.sync()
	pt(t, "signal")
	s.acc(t, addr(c), true)
	for len(c.waiters) > 0 {
		w := c.waiters[0]
		c.waiters = c.waiters[1:]
		if !w.t.done {
			w.signalled = true
			return
		}
	}
}

func (c *Cond) Broadcast() {
	t := me()
	if t == nil {
		c.realCond().Broadcast()
		return
	}
	if t.killed {
		return
	}
	c.sync()
	pt(t, "broadcast")
	s.acc(t, addr(c), true)
	for _, w := range c.waiters {
		w.signalled = true
	}
	c.waiters = nil
}

// Map mirrors sync.Map with a deterministic Range order.
type Map struct {
	m sync.Map
}

func (m *Map) acc(w bool) {
	if t := me(); t != nil && !t.killed {
		pt(t, "sync.Map")
		s.acc(t, addr(m), w)
	}
}

func (m *Map) Load(k any) (any, bool)           { m.acc(false); return m.m.Load(k) }
func (m *Map) Store(k, v any)                   { m.acc(true); m.m.Store(k, v) }
func (m *Map) LoadOrStore(k, v any) (any, bool) { m.acc(true); return m.m.LoadOrStore(k, v) }
func (m *Map) LoadAndDelete(k any) (any, bool)  { m.acc(true); return m.m.LoadAndDelete(k) }
func (m *Map) Delete(k any)                     { m.acc(true); m.m.Delete(k) }
func (m *Map) Swap(k, v any) (any, bool)        { m.acc(true); return m.m.Swap(k, v) }
func (m *Map) CompareAndSwap(k, o, n any) bool  { m.acc(true); return m.m.CompareAndSwap(k, o, n) }
func (m *Map) CompareAndDelete(k, o any) bool   { m.acc(true); return m.m.CompareAndDelete(k, o) }
func (m *Map) Range(f func(k, v any) bool) {
	m.acc(false)
	type kv struct {
		k, v any
		s    string
	}
	var all []kv
	m.m.Range(func(k, v any) bool {
		all = append(all, kv{k, v, fmt.Sprintf("%T:%v", k, k)})
		return true
	})
	sort.SliceStable(all, func(i, j int) bool { return all[i].s < all[j].s })
	for _, e := range all {
		if !f(e.k, e.v) {
			return
		}
	}
}

// Pool mirrors sync.Pool with a deterministic LIFO free list.
type Pool struct {
	New   func() any
	mu    sync.Mutex
	items []any
}

func (p *Pool) Get() any {
	if t := me(); t != nil && !t.killed {
		s.acc(t, addr(p), true)
	}
	p.mu.Lock()
	if n := len(p.items); n > 0 {
		x := p.items[n-1]
		p.items = p.items[:n-1]
		p.mu.Unlock()
		return x
	}
	p.mu.Unlock()
	if p.New != nil {
		return p.New()
	}
	return nil
}

func (p *Pool) Put(x any) {
	if x == nil {
		return
	}
	if t := me(); t != nil && !t.killed {
		s.acc(t, addr(p), true)
	}
	p.mu.Lock()
	if len(p.items) < 64 {
		p.items = append(p.items, x)
	}
	p.mu.Unlock()
}
