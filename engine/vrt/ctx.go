package vrt

import (
	"context"
	"time"
)

type vctxKeyT struct{}

var vctxKey vctxKeyT

// vctx is a cancellable context whose Done channel is closed through the scheduler
// and whose deadline is a virtual timer.
type vctx struct {
	parent   context.Context
	done     chan struct{}
	err      error
	children map[*vctx]struct{}
	after    map[int]func()
	afterSeq int
	deadline time.Time
	hasDL    bool
	timer    *Timer
	pv       *vctx
}

func (c *vctx) Deadline() (time.Time, bool) {
	if c.hasDL {
		return c.deadline, true
	}
	return c.parent.Deadline()
}
func (c *vctx) Done() <-chan struct{} { return c.done }
func (c *vctx) Err() error {
	if t := me(); t != nil && !t.killed {
		pt(t, "ctx.Err")
		s.acc(t, chanID(c.done), false)
	}
	return c.err
}
func (c *vctx) Value(k any) any {
	if k == &vctxKey {
		return c
	}
	return c.parent.Value(k)
}

// AfterFunc lets stdlib contexts derived from a vctx register for cancellation
// without starting an unmanaged goroutine (context.afterFuncer).
func (c *vctx) AfterFunc(f func()) func() bool {
	if c.err != nil {
		f()
		return func() bool { return false }
	}
	c.afterSeq++
	id := c.afterSeq
	if c.after == nil {
		c.after = map[int]func(){}
	}
	c.after[id] = f
	return func() bool {
		if _, ok := c.after[id]; ok {
			delete(c.after, id)
			return true
		}
		return false
	}
}

func (c *vctx) cancel(err error, removeFromParent bool) {
	if c.err != nil {
		return
	}
	c.err = err
	Close(c.done)
	if c.timer != nil {
		c.timer.vt.active = false
	}
	// deterministic order is irrelevant for children: all are cancelled atomically
	for ch := range c.children {
		ch.cancel(err, false)
	}
	c.children = nil
	ids := make([]int, 0, len(c.after))
	for id := range c.after {
		ids = append(ids, id)
	}
	for i := 1; i < len(ids); i++ {
		for j := i; j > 0 && ids[j] < ids[j-1]; j-- {
			ids[j], ids[j-1] = ids[j-1], ids[j]
		}
	}
	for _, id := range ids {
		f := c.after[id]
		delete(c.after, id)
		f()
	}
	if removeFromParent && c.pv != nil && c.pv.children != nil {
		delete(c.pv.children, c)
	}
}

func newVctx(parent context.Context) *vctx {
	c := &vctx{parent: parent, done: make(chan struct{})}
	if pv, ok := parent.Value(&vctxKey).(*vctx); ok {
		if t := me(); t != nil {
			s.acc(t, chanID(pv.done), true)
		}
		if pv.err != nil {
			c.cancelQuiet(pv.err)
		} else {
			if pv.children == nil {
				pv.children = map[*vctx]struct{}{}
			}
			pv.children[c] = struct{}{}
			c.pv = pv
		}
	} else if parent.Done() != nil {
		// foreign cancellable parent
		if err := parent.Err(); err != nil {
			c.cancelQuiet(err)
		} else {
			context.AfterFunc(parent, func() { c.cancel(parent.Err(), false) })
		}
	}
	return c
}

func (c *vctx) cancelQuiet(err error) {
	c.err = err
	close(c.done)
	if s.closed != nil && me() != nil {
		s.closed[chanID(c.done)] = true
	}
}

func WithCancel(parent context.Context) (context.Context, context.CancelFunc) {
	if me() == nil {
		return context.WithCancel(parent)
	}
	c := newVctx(parent)
	return c, func() { c.cancel(context.Canceled, true) }
}

func WithDeadline(parent context.Context, d time.Time) (context.Context, context.CancelFunc) {
	if me() == nil {
		// outside a run the virtual clock does not move: translate to a real timeout
		return context.WithTimeout(parent, d.Sub(Now()))
	}
	if cur, ok := parent.Deadline(); ok && cur.Before(d) {
		return WithCancel(parent)
	}
	c := newVctx(parent)
	c.deadline, c.hasDL = d, true
	dur := Until(d)
	if c.err == nil {
		if dur <= 0 {
			c.cancel(context.DeadlineExceeded, true)
		} else {
			c.timer = AfterFunc(dur, func() { c.cancel(context.DeadlineExceeded, true) })
		}
	}
	return c, func() { c.cancel(context.Canceled, true) }
}

func WithTimeout(parent context.Context, d time.Duration) (context.Context, context.CancelFunc) {
	if me() == nil {
		return context.WithTimeout(parent, d)
	}
	return WithDeadline(parent, Now().Add(d))
}
