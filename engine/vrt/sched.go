// Package vrt is the verification runtime: a cooperative, controlled scheduler with
// virtual time that stands in for go/chan/select/sync/atomic/time/context/rand in
// source-instrumented copies of gotid/god (see /verif/DESIGN.md §2).
//
// Exactly one managed thread runs at a time.  Every instrumented operation is a
// scheduling *point*: the thread publishes its pending operation, the scheduler picks
// one enabled thread (recording the choice when there is more than one option) and
// hands control over.  Goroutines the scheduler does not own fall through to the
// real primitives.
package vrt

import (
	"fmt"
	"os"
	"runtime"
	"sort"
	"strconv"
	"strings"
	"sync"
	"sync/atomic"
	"time"
)

type opKind uint8

const (
	opStart opKind = iota
	opYield        // plain scheduling point, always enabled
	opSpin         // runtime.Gosched(): enabled only after some other thread moved
	opLock
	opRLock
	opWGWait
	opOnce
	opCondWait
	opChan   // one or more channel cases (send/recv/select)
	opSleep  // until virtual deadline
	opSettle // enabled when nobody else is
	opJoin   // wait for a thread to finish
	opBlock  // blocked on a harness predicate
)

// pend is the operation a parked thread wants to perform next.
type pend struct {
	kind      opKind
	mu        *Mutex
	rw        *RWMutex
	wg        *WaitGroup
	once      *Once
	cond      *condWaiter
	cases     []chanCase
	hasDef    bool
	committed int // index of the case a partner completed for us, -1 if none
	until     time.Duration
	join      *thread
	pred      func() bool
	spinMark  uint64
	spinSnap  map[*thread]uint64
	what      string
	parkEpoch uint64 // s.parkEpoch when the operation was published (see maybeParked)
}

type thread struct {
	id      int
	gid     int64
	g       uintptr
	wake    chan struct{}
	exited  chan struct{}
	pend    *pend
	done    bool
	killed  bool
	quiet   int
	site    string
	parent  int
	started bool
	panicV  any
	moves   uint64
	h       uint64 // happens-before hash of the thread's history
	spawns  uint64
	vc      vclock // vector clock (data-race detection)
	// unwinding: the thread was killed at teardown and is running its deferred functions;
	// tracked operations are then no-ops, so that clean-up code (unlock, delete from a
	// process-wide table, Done) runs to its end instead of being cut off half-way
	unwinding bool
	graceOps  int
}

// die is called by every tracked operation of a thread that was killed at teardown.  The
// thread is not cut off on the spot: it runs on with every tracked operation a no-op (it is
// the only thread running), so that the function and the deferred clean-up it was in the
// middle of (unlock, delete from a process-wide table, Done) finish; after a small budget
// of further operations it is ended with Goexit (loops, long tails).
func (t *thread) die() {
	t.unwinding = true
	t.graceOps++
	if t.graceOps > 200 {
		runtime.Goexit()
	}
}

// ThreadInfo describes a thread that was still alive at quiescence.
type ThreadInfo struct {
	ID      int
	Site    string
	Blocked string
	Parent  int
}

type choice struct {
	n      int
	chosen int
	// cost[i] = deviation cost of taking alternative i (cost[0] is always 0)
	cost []int8
	kind byte // 's' schedule, 'e' environment
}

type sched struct {
	active   atomic.Bool
	teardown bool
	epoch    uint64
	threads  []*thread
	byGid    sync.Map // int64 -> *thread
	cur      *thread
	now      time.Duration
	timers   []*vtimer
	timerSeq uint64
	// parkEpoch advances whenever every thread pending so far is certainly parked for real:
	// virtual time moved (everybody was blocked) or a Settle completed (quiescence).
	parkEpoch uint64
	moves     uint64
	progress  uint64 // points reached by non-spinning operations

	prefix  []int
	trace   []choice
	steps   int
	horizon int
	doneCh  chan struct{}
	ended   bool

	autoAdvance   bool
	noMaybeParked bool
	envCost       int8
	run           *Run
	closed        map[uintptr]bool
	closedRefs    []any // keeps closed channels alive so that their addresses (the keys of closed) are not reused within the execution
	abortMsg      string
	diverged      string
	randHook      func() (int64, bool)
	clockStep     time.Duration
	mapOrderOn    bool

	hbOn     bool
	prune    bool
	objH     map[uintptr]uint64
	objX     uint64
	visited  map[stateKey]int16
	costUsed int
	pruned   bool
	nPruned  int

	lastPartner *thread
	spawnVC     vclock // extra clock for the next spawned thread (timer callbacks)
}

var s = &sched{}

// getg returns the address of the calling goroutine's runtime g (assembly); it is a
// unique identity for as long as the goroutine lives.
func getg() uintptr

func gid() int64 { return int64(getg()) }

// me returns the managed thread of the calling goroutine or nil.
func me() *thread {
	if !s.active.Load() {
		return nil
	}
	g := getg()
	if c := s.cur; c != nil && c.g == g {
		return c
	}
	if v, ok := s.byGid.Load(int64(g)); ok {
		return v.(*thread)
	}
	return nil
}

func callerSite(skip int) string {
	pcs := make([]uintptr, 12)
	n := runtime.Callers(skip+1, pcs)
	fr := runtime.CallersFrames(pcs[:n])
	for {
		f, more := fr.Next()
		if !strings.HasPrefix(f.Function, "github.com/gotid/god.") && !strings.Contains(f.Function, "/vrt.") && !strings.HasPrefix(f.Function, "vrt.") && f.Function != "" {
			fn := f.Function
			if i := strings.LastIndex(fn, "/"); i >= 0 {
				fn = fn[i+1:]
			}
			return fn
		}
		if !more {
			break
		}
	}
	return "?"
}

// spawn creates a managed thread that will run fn once scheduled.
func (s *sched) spawn(fn func(), site string, parent int) *thread {
	t := &thread{id: len(s.threads), wake: make(chan struct{}, 1), exited: make(chan struct{}), site: site, parent: parent}
	t.pend = &pend{kind: opStart, committed: -1, what: "start"}
	if parent >= 0 && parent < len(s.threads) {
		pt := s.threads[parent]
		pt.spawns++
		t.h = mix(mix(pt.h, 0xC0FFEE), pt.spawns)
		pt.h = mix(pt.h, 0x5BA3+pt.spawns)
		if race.on {
			t.vc = vclone(pt.vc)
			pt.tick()
		}
	} else {
		s.timerSeq++
		t.h = mix(mix(s.objH[kClock], 0x71AE), uint64(len(s.threads)))
	}
	if race.on {
		if s.spawnVC != nil {
			t.vc = vjoin(t.vc, s.spawnVC)
			s.spawnVC = nil
		}
		t.tick()
	}
	s.threads = append(s.threads, t)
	reg := make(chan struct{})
	go func() {
		t.gid = gid()
		t.g = uintptr(t.gid)
		s.byGid.Store(t.gid, t)
		close(reg)
		defer s.threadExit(t)
		<-t.wake
		if t.killed {
			return
		}
		t.started = true
		t.pend = nil
		defer func() {
			if e := recover(); e != nil {
				if _, ok := e.(abortSignal); ok {
					return
				}
				if t.killed {
					return // a dying thread running on with no-op operations: whatever it trips over is not an observation
				}
				t.panicV = e
				if s.run != nil {
					buf := make([]byte, 4096)
					n := runtime.Stack(buf, false)
					s.run.noteUncaught(t, e, string(buf[:n]))
				}
			}
		}()
		fn()
	}()
	<-reg
	return t
}

type abortSignal struct{}

func (s *sched) threadExit(t *thread) {
	t.done = true
	t.h = mix(t.h, 0xE817)
	t.pend = nil
	s.byGid.Delete(t.gid)
	defer close(t.exited)
	if s.teardown || t.killed {
		return
	}
	if s.ended {
		return
	}
	s.moves++
	next := s.choose(nil)
	if next == nil {
		s.endExecution()
		return
	}
	s.cur = next
	next.wake <- struct{}{}
}

func (s *sched) endExecution() {
	if s.ended {
		return
	}
	s.ended = true
	s.doneCh <- struct{}{}
}

// park blocks the calling thread until it is woken; handles kill.
func (s *sched) park(t *thread) {
	<-t.wake
	if t.killed {
		t.die()
	}
}

// point publishes p as t's pending operation and yields to the scheduler; it returns
// when t has been chosen to run and p is enabled.
func (s *sched) point(t *thread, p *pend) {
	if t.killed {
		t.die()
		return
	}
	if s.ended {
		// execution is over (abort/horizon); park until teardown
		t.pend = p
		s.park(t)
		if t.killed {
			t.pend = nil
			return
		}
	}
	s.steps++
	if s.steps > s.horizon {
		s.abort("horizon: more than " + strconv.Itoa(s.horizon) + " scheduling points (livelock or non-quiescing execution)")
		t.pend = p
		s.park(t)
		if t.killed {
			t.pend = nil
			return
		}
	}
	p.committed = -1
	p.parkEpoch = s.parkEpoch
	if p.kind == opSpin {
		// fair yield: remember how far every other thread has got
		p.spinSnap = make(map[*thread]uint64, len(s.threads))
		for _, u := range s.threads {
			if u != t && !u.done {
				p.spinSnap[u] = u.moves
			}
		}
	}
	t.pend = p
	s.moves++
	t.moves++
	if s.hbOn {
		// every point advances the thread's history, so two consecutive choice points
		// of one thread never share a key
		t.h = mix(t.h, 0x9017+uint64(p.kind))
	}
	next := s.choose(t)
	if next == nil {
		s.endExecution()
		s.park(t) // returns only when the thread is killed at teardown
		t.pend = nil
		return
	}
	if next != t {
		s.cur = next
		next.wake <- struct{}{}
		s.park(t)
	}
	t.pend = nil
}

func (s *sched) abort(msg string) {
	if s.abortMsg == "" {
		s.abortMsg = msg
	}
	s.endExecution()
}

func (s *sched) enabled(t *thread, settlePass bool) bool {
	p := t.pend
	if p == nil || t.done {
		return false
	}
	switch p.kind {
	case opStart, opYield:
		return true
	case opSpin:
		// a yielding thread runs again only after every other thread that could run
		// (and is not itself spinning) has moved; if none can, spinners run (livelock
		// shows up as the horizon)
		for _, u := range s.threads {
			if u == t || u.done || u.pend == nil || u.pend.kind == opSpin || u.pend.kind == opSettle {
				continue
			}
			if s.enabled(u, false) && u.moves <= p.spinSnap[u] {
				return false
			}
		}
		return true
	case opLock:
		return !p.mu.held
	case opRLock:
		if p.what == "wlock" {
			return !p.rw.wheld && p.rw.readers == 0
		}
		return !p.rw.wheld
	case opWGWait:
		return p.wg.n <= 0
	case opOnce:
		return !p.once.running
	case opCondWait:
		return p.cond.signalled
	case opChan:
		if p.committed >= 0 {
			return true
		}
		for i, c := range p.cases {
			if c != nil && c.ready(t, i) {
				return true
			}
		}
		return p.hasDef
	case opSleep:
		return s.now >= p.until
	case opJoin:
		return p.join.done
	case opBlock:
		return p.pred()
	case opSettle:
		return settlePass
	}
	return false
}

func (s *sched) anyLive() bool {
	for _, t := range s.threads {
		if !t.done {
			return true
		}
	}
	return false
}

func (s *sched) onlySpinners() bool {
	// a spinning thread is enabled when every other live thread is also spinning or blocked
	for _, t := range s.threads {
		if t.done || t.pend == nil {
			continue
		}
		if t.pend.kind != opSpin && s.enabledNoSpin(t) {
			return false
		}
	}
	return true
}

func (s *sched) enabledNoSpin(t *thread) bool {
	if t.pend.kind == opSpin || t.pend.kind == opSettle {
		return false
	}
	return s.enabled(t, false)
}

// choose picks the next thread to run.  cur is the thread that just reached a point
// (nil when it exited).  Returns nil when nothing is enabled (quiescence).
func (s *sched) choose(cur *thread) *thread {
	for {
		var cands []*thread
		curEnabled := false
		if cur != nil && s.enabled(cur, false) {
			cands = append(cands, cur)
			curEnabled = true
		}
		for _, t := range s.threads {
			if t != cur && s.enabled(t, false) {
				cands = append(cands, t)
			}
		}
		if len(cands) == 0 {
			// settle pass
			for _, t := range s.threads {
				if !t.done && t.pend != nil && t.pend.kind == opSettle {
					cands = append(cands, t)
				}
			}
			if len(cands) > 0 {
				// lowest id settles first; deterministic, no choice
				s.parkEpoch++
				return cands[0]
			}
			if s.autoAdvance && len(s.threads) > 0 && !s.threads[0].done {
				s.steps++
				if s.steps > s.horizon {
					s.abort("horizon: auto-advance never quiesces")
					return nil
				}
				if s.fireNextTimer() {
					continue
				}
			}
			return nil
		}
		if len(cands) == 1 {
			return cands[0]
		}
		cost := make([]int8, len(cands))
		if curEnabled && !(cur.pend.kind == opSpin) {
			for i := 1; i < len(cost); i++ {
				cost[i] = 1
			}
		}
		idx, ok := s.nextChoice(len(cands), cost, 's', cur)
		if !ok {
			return nil
		}
		return cands[idx]
	}
}

// nextChoice returns the alternative to take at a choice point with n options.
// ok=false means the execution was pruned (state already visited) and has ended.
func (s *sched) nextChoice(n int, cost []int8, kind byte, cur *thread) (int, bool) {
	pos := len(s.trace)
	c := 0
	if pos < len(s.prefix) {
		c = s.prefix[pos]
		if c >= n {
			s.diverged = fmt.Sprintf("replay divergence at choice %d: prefix wants alternative %d but only %d options", pos, c, n)
			c = 0
		}
	} else if s.prune {
		k := stateKey{g: s.globalKey(), kind: kind, n: n}
		if cur != nil {
			k.cur = cur.h
			if cost[len(cost)-1] == 0 {
				k.cur = mix(k.cur, 0xF4EE)
			}
		}
		if old, ok := s.visited[k]; ok && int(old) <= s.costUsed {
			s.pruned = true
			s.nPruned++
			s.endExecution()
			return 0, false
		}
		s.visited[k] = int16(s.costUsed)
	}
	s.costUsed += int(cost[c])
	s.trace = append(s.trace, choice{n: n, chosen: c, cost: cost, kind: kind})
	return c, true
}

// envChoice is a choice made by the environment (select ready set, random draw, map
// order, harness menu).  Alternative 0 is the default answer.
func (s *sched) envChoice(n int, altCost int8) int {
	if n <= 1 {
		return 0
	}
	cost := make([]int8, n)
	for i := 1; i < n; i++ {
		cost[i] = altCost
	}
	t := s.cur
	idx, ok := s.nextChoice(n, cost, 'e', t)
	if !ok {
		s.park(me())
	}
	if t != nil && s.hbOn {
		t.h = mix(t.h, 0xE0+uint64(idx))
	}
	return idx
}

func describe(p *pend) string {
	if p == nil {
		return "running"
	}
	switch p.kind {
	case opStart:
		return "not started"
	case opLock:
		return "Mutex.Lock"
	case opRLock:
		return "RWMutex." + p.what
	case opWGWait:
		return "WaitGroup.Wait"
	case opOnce:
		return "Once.Do"
	case opCondWait:
		return "Cond.Wait"
	case opChan:
		var parts []string
		for _, c := range p.cases {
			if c == nil {
				parts = append(parts, "nil")
				continue
			}
			parts = append(parts, c.describe())
		}
		if len(parts) == 1 {
			return parts[0]
		}
		return "select{" + strings.Join(parts, ",") + "}"
	case opSleep:
		return "sleep"
	case opJoin:
		return "join"
	case opSettle:
		return "settle"
	case opBlock:
		return "block:" + p.what
	case opSpin:
		return "spin"
	}
	return p.what
}

// ---------------------------------------------------------------------------
// one execution

type execResult struct {
	trace    []choice
	steps    int
	abortMsg string
	diverged string
	leaked   []ThreadInfo
	pruned   bool
}

var watchdog = 120 * time.Second

func (s *sched) runOnce(r *Run, body func(*Run), prefix []int) execResult {
	s.epoch++
	s.threads = s.threads[:0]
	s.cur = nil
	setNow(0)
	s.timers = nil
	s.timerSeq = 0
	s.moves = 0
	s.progress = 0
	s.prefix = prefix
	s.trace = nil
	s.steps = 0
	s.doneCh = make(chan struct{}, 1)
	s.ended = false
	s.teardown = false
	s.run = r
	s.closed = map[uintptr]bool{}
	s.closedRefs = nil
	s.abortMsg = ""
	s.diverged = ""
	s.randHook = nil
	s.clockStep = 0
	s.mapOrderOn = false
	s.objH = map[uintptr]uint64{}
	s.objX = 0
	s.costUsed = 0
	s.pruned = false
	s.spawnVC = nil
	raceResetExecution()
	resetRand()
	s.active.Store(true)

	t0 := s.spawn(func() { body(r) }, "driver", -1)
	s.cur = t0
	t0.wake <- struct{}{}
	select {
	case <-s.doneCh:
	case <-time.After(watchdog):
		buf := make([]byte, 1<<20)
		n := runtime.Stack(buf, true)
		fmt.Fprintf(os.Stderr, "vrt: watchdog: execution did not finish in %v (a managed thread is blocked in a real primitive?)\nchoices=%v\n%s\n", watchdog, s.choices(), buf[:n])
		os.Exit(3)
	}
	res := execResult{trace: s.trace, steps: s.steps, abortMsg: s.abortMsg, diverged: s.diverged, pruned: s.pruned}
	for _, t := range s.threads {
		if !t.done && t.id != 0 {
			res.leaked = append(res.leaked, ThreadInfo{ID: t.id, Site: t.site, Blocked: describe(t.pend), Parent: t.parent})
		} else if !t.done && t.id == 0 {
			res.leaked = append(res.leaked, ThreadInfo{ID: 0, Site: "driver", Blocked: describe(t.pend), Parent: -1})
		}
	}
	r.leaked = res.leaked
	// end-of-execution oracles run in the controller goroutine: nothing else runs
	s.active.Store(false)
	for _, f := range r.atEnd {
		if s.pruned {
			break
		}
		func() {
			defer func() {
				if e := recover(); e != nil {
					r.Failf("panic in AtEnd oracle: %v", e)
				}
			}()
			f()
		}()
	}
	// teardown: release every parked thread with Goexit, one at a time
	s.cur = nil
	s.teardown = true
	s.active.Store(true)
	for i := 0; i < len(s.threads); i++ { // threads may spawn during teardown? no: Go() refuses
		t := s.threads[i]
		if t.done {
			<-t.exited
			continue
		}
		t.killed = true
		t.wake <- struct{}{}
		select {
		case <-t.exited:
		case <-time.After(watchdog):
			buf := make([]byte, 1<<20)
			n := runtime.Stack(buf, true)
			fmt.Fprintf(os.Stderr, "vrt: watchdog: thread %d (%s) did not exit at teardown\n%s\n", t.id, t.site, buf[:n])
			os.Exit(3)
		}
	}
	s.active.Store(false)
	s.teardown = false
	s.run = nil
	for _, f := range r.cleanup {
		f()
	}
	return res
}

func (s *sched) choices() []int {
	out := make([]int, len(s.trace))
	for i, c := range s.trace {
		out[i] = c.chosen
	}
	return out
}

// ---------------------------------------------------------------------------
// public thread API

// Go starts fn as a managed thread (rewritten `go` statements land here).
func Go(fn func()) {
	t := me()
	if t == nil {
		go fn()
		return
	}
	if t.killed || s.teardown {
		return
	}
	s.spawn(fn, callerSite(2), t.id)
}

// Yield is a plain scheduling point.
func Yield() {
	if t := me(); t != nil {
		if t.quiet > 0 {
			return
		}
		s.point(t, &pend{kind: opYield, what: "yield"})
	}
}

// Gosched replaces runtime.Gosched in spin loops: the caller is not rescheduled
// until another thread has moved (fair), unless only spinners remain.
func Gosched() {
	if t := me(); t != nil {
		s.point(t, &pend{kind: opSpin, what: "spin"})
		return
	}
	runtime.Gosched()
}

func pt(t *thread, what string) {
	if t.quiet > 0 {
		return
	}
	s.point(t, &pend{kind: opYield, what: what})
}

// Quiet suppresses plain scheduling points in the calling thread until the returned
// function is called (blocking operations still block).
func Quiet() func() {
	t := me()
	if t == nil {
		return func() {}
	}
	t.quiet++
	return func() { t.quiet-- }
}

// Settle blocks the caller until no other thread is enabled.
func Settle() {
	t := me()
	if t == nil {
		return
	}
	s.point(t, &pend{kind: opSettle, what: "settle"})
	s.vcJoinAll(t)
	if s.hbOn {
		t.h = mix(t.h, s.globalKey())
	}
}

// BlockUntil parks the caller until pred() is true (evaluated at scheduling points).
func BlockUntil(what string, pred func() bool) {
	t := me()
	if t == nil {
		for !pred() {
			time.Sleep(time.Millisecond)
		}
		return
	}
	s.point(t, &pend{kind: opBlock, pred: pred, what: what})
	s.vcJoinAll(t)
	if s.hbOn {
		t.h = mix(t.h, s.globalKey())
	}
}

// Choose is a harness-level environment choice among n alternatives (0 = default).
func Choose(n int) int {
	t := me()
	if t == nil {
		return 0
	}
	return s.envChoice(n, 0)
}

// ChooseCost is Choose where a non-default answer costs `cost` deviations.
func ChooseCost(n int, cost int) int {
	t := me()
	if t == nil {
		return 0
	}
	return s.envChoice(n, int8(cost))
}

// Managed reports whether the caller is a managed thread inside a run.
func Managed() bool { return me() != nil }

// ThreadID returns the managed thread id of the caller (-1 if unmanaged).
func ThreadID() int {
	if t := me(); t != nil {
		return t.id
	}
	return -1
}

func sortedThreadInfos(in []ThreadInfo) []ThreadInfo {
	out := append([]ThreadInfo(nil), in...)
	sort.Slice(out, func(i, j int) bool { return out[i].ID < out[j].ID })
	return out
}
