package vrt

import (
	"sort"
	"unsafe"
)

// Happens-before state hashing (DESIGN §2.3, "HB caching").
//
// Every executed operation e of thread t on object o gets the hash
// h(e) = mix(h(previous event of t), h(previous write event on o), kind); writes make
// h(e) the object's hash.  Swapping adjacent operations of different threads on
// different objects (or two reads) leaves every hash unchanged, so two schedules that
// are equal as Mazurkiewicz traces reach the same key.  The explorer prunes an
// execution that reaches, at a new choice point, a key already visited with at least as
// much deviation budget left.  Sound only if every inter-thread communication goes
// through tracked operations (vrt primitives or vrt.Note); harnesses opt in.

const (
	kClock = uintptr(1)
	kRand  = uintptr(2)
	kObs   = uintptr(3)
)

func mix(a, b uint64) uint64 {
	x := a*0x9E3779B97F4A7C15 ^ (b + 0x7F4A7C15F39CC060 + (a << 6) + (a >> 2))
	x ^= x >> 31
	x *= 0xBF58476D1CE4E5B9
	x ^= x >> 29
	return x
}

func (s *sched) acc(t *thread, key uintptr, write bool) {
	s.vcSync(t, key, write)
	s.accHash(t, key, write)
}

// accHash is the state-hash part of acc (no vector-clock transfer).
func (s *sched) accHash(t *thread, key uintptr, write bool) {
	if !s.hbOn || t == nil {
		return
	}
	oh := s.objH[key]
	k := uint64(0x51)
	if write {
		k = 0x77
	}
	t.h = mix(mix(t.h, oh), k)
	if write {
		s.objX ^= mix(oh, 0xA1) ^ mix(t.h, 0xA1)
		s.objH[key] = t.h
	}
}

// accSched records a write performed by the scheduler itself (timer fire).
func (s *sched) accSched(key uintptr, salt uint64) {
	if race.on {
		// over-approximation: what the clock object and the running thread have seen
		// happens before whatever synchronises on key next
		o := vjoin(vclone(race.objVC[key]), race.objVC[kClock])
		if s.cur != nil {
			o = vjoin(o, s.cur.vc)
		}
		race.objVC[key] = o
	}
	if !s.hbOn {
		return
	}
	oh := s.objH[key]
	nh := mix(mix(oh, s.objH[kClock]), salt)
	s.objX ^= mix(oh, 0xA1) ^ mix(nh, 0xA1)
	s.objH[key] = nh
}

func (s *sched) globalKey() uint64 {
	hs := make([]uint64, 0, len(s.threads))
	for _, t := range s.threads {
		h := t.h
		if t.done {
			h = mix(h, 0xDEAD)
		}
		hs = append(hs, h)
	}
	sort.Slice(hs, func(i, j int) bool { return hs[i] < hs[j] })
	g := s.objX
	for _, h := range hs {
		g = mix(g, h)
	}
	return g
}

type stateKey struct {
	g    uint64
	cur  uint64
	kind byte
	n    int
}

// Note records, without a scheduling point, that the calling thread accessed the
// harness-level shared object identified by key (any pointer or string).  Harness
// state that several threads update must be noted, or HB pruning would merge schedules
// that differ in it.
func Note(key any) {
	t := me()
	if t == nil || !s.hbOn {
		return
	}
	s.acc(t, noteKey(key), true)
}

func noteKey(key any) uintptr {
	switch k := key.(type) {
	case string:
		h := uint64(1469598103934665603)
		for i := 0; i < len(k); i++ {
			h = (h ^ uint64(k[i])) * 1099511628211
		}
		return uintptr(h | 1<<62)
	case uintptr:
		return k
	case unsafe.Pointer:
		return uintptr(k)
	}
	return kObs
}

// Obs is the conventional Note for harness observation variables.
func Obs() { Note("obs") }

func addr[T any](p *T) uintptr { return uintptr(unsafe.Pointer(p)) }
