package vrt

import (
	"os"
	"path/filepath"
)

// File-system operations of the code under test are scheduling points: the order in which
// goroutines create, rename, list and remove files is part of the explored behaviour
// (background compression against clean-up, rotation against a reader of the directory).
// The operations themselves are the real ones.

func fsPoint(what string) {
	if t := me(); t != nil && !t.killed {
		pt(t, what)
	}
}

func OsCreate(name string) (*os.File, error) { fsPoint("os.Create"); return os.Create(name) }
func OsOpen(name string) (*os.File, error)   { fsPoint("os.Open"); return os.Open(name) }
func OsOpenFile(name string, flag int, perm os.FileMode) (*os.File, error) {
	fsPoint("os.OpenFile")
	return os.OpenFile(name, flag, perm)
}
func OsRemove(name string) error    { fsPoint("os.Remove"); return os.Remove(name) }
func OsRemoveAll(name string) error { fsPoint("os.RemoveAll"); return os.RemoveAll(name) }
func OsRename(oldpath, newpath string) error {
	fsPoint("os.Rename")
	return os.Rename(oldpath, newpath)
}
func OsStat(name string) (os.FileInfo, error) {
	fsPoint("os.Stat")
	return os.Stat(name)
}
func FilepathGlob(pattern string) ([]string, error) {
	fsPoint("filepath.Glob")
	return filepath.Glob(pattern)
}
