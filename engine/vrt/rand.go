package vrt

import (
	"math/rand"
	"sync"
)

// Source is a deterministic rand.Source; a harness may take over the draws with
// SetRandHook.
type Source struct {
	mu sync.Mutex
	x  uint64
}

var globalRand = rand.New(&Source{x: 0x9E3779B97F4A7C15})

func resetRand() { globalRand = rand.New(&Source{x: 0x9E3779B97F4A7C15}) }

func RandNewSource(seed int64) rand.Source { return &Source{x: 0x9E3779B97F4A7C15} }

// SetRandHook installs f for the current execution: every Int63 drawn from a vrt
// source first asks f; ok=false falls back to the deterministic generator.
func SetRandHook(f func() (int64, bool)) { s.randHook = f }

func (r *Source) Seed(seed int64) { r.x = 0x9E3779B97F4A7C15 }
func (r *Source) Int63() int64 {
	if s.hbOn {
		if t := me(); t != nil {
			s.acc(t, kRand, true)
		}
	}
	if me() != nil && s.randHook != nil {
		if v, ok := s.randHook(); ok {
			return v & (1<<63 - 1)
		}
	}
	r.mu.Lock()
	defer r.mu.Unlock()
	// splitmix64
	r.x += 0x9E3779B97F4A7C15
	z := r.x
	z = (z ^ (z >> 30)) * 0xBF58476D1CE4E5B9
	z = (z ^ (z >> 27)) * 0x94D049BB133111EB
	z = z ^ (z >> 31)
	return int64(z >> 1)
}

// FloatDraw returns the Int63 value that makes (*rand.Rand).Float64 return f.
func FloatDraw(f float64) int64 { return int64(f * (1 << 63)) } // Float64 = Int63/2^63

// IntnDraw returns the Int63 value that makes (*rand.Rand).Intn(n) return k (k<n).
func IntnDraw(k int) int64 { return int64(k) << 32 }

func RandSeed(seed int64)                    {}
func RandInt() int                           { return globalRand.Int() }
func RandIntn(n int) int                     { return globalRand.Intn(n) }
func RandInt31() int32                       { return globalRand.Int31() }
func RandInt31n(n int32) int32               { return globalRand.Int31n(n) }
func RandInt63() int64                       { return globalRand.Int63() }
func RandInt63n(n int64) int64               { return globalRand.Int63n(n) }
func RandUint32() uint32                     { return globalRand.Uint32() }
func RandUint64() uint64                     { return globalRand.Uint64() }
func RandFloat64() float64                   { return globalRand.Float64() }
func RandFloat32() float32                   { return globalRand.Float32() }
func RandPerm(n int) []int                   { return globalRand.Perm(n) }
func RandShuffle(n int, swap func(i, j int)) { globalRand.Shuffle(n, swap) }
func RandRead(p []byte) (int, error)         { return globalRand.Read(p) }
