package vrt

import (
	"fmt"
	"sort"
	"unsafe"
)

// Data-race detection and race-directed scheduling points.
//
// Scheduling points at synchronisation operations are sufficient only if the program is
// free of data races.  The instrumenter therefore announces plain (unsynchronised) memory
// accesses of the code under test — field, element, pointer-target, package-variable and
// captured-variable reads and writes — through RaceR / RaceW, and splits read-modify-write
// statements (x.f++, x.f += v, x.f = x.f + v) so that the write is announced between the
// load and the store.  The runtime keeps vector clocks for threads and synchronisation
// objects (every tracked operation acquires; every tracked write also releases) and a
// shadow cell per accessed address.  Two accesses to one address by different threads, at
// least one a write and not both atomic, that are not ordered by happens-before are a
// data race.  A race is not reported as a violation: instead both access sites become
// scheduling points and the scenario is explored again, so that the interleavings the race
// permits (lost updates, torn check-then-act) are actually executed and judged by the
// property's own oracle.  The sites and the number of re-explorations are reported.

type vclock []uint32

func (a vclock) get(i int) uint32 {
	if i < len(a) {
		return a[i]
	}
	return 0
}

func vjoin(a, b vclock) vclock {
	if len(b) > len(a) {
		n := make(vclock, len(b))
		copy(n, a)
		a = n
	}
	for i, v := range b {
		if v > a[i] {
			a[i] = v
		}
	}
	return a
}

func vclone(a vclock) vclock {
	n := make(vclock, len(a))
	copy(n, a)
	return n
}

func (t *thread) epoch() uint32 { return t.vc.get(t.id) }

func (t *thread) tick() {
	if t.id >= len(t.vc) {
		n := make(vclock, t.id+1)
		copy(n, t.vc)
		t.vc = n
	}
	t.vc[t.id]++
}

const (
	accPlainR = iota
	accPlainW
	accAtomicR
	accAtomicW
)

type accEntry struct {
	tid  int
	clk  uint32
	kind uint8
	site string
}

type shadowCell struct {
	keep unsafe.Pointer
	acc  []accEntry
}

type raceState struct {
	on      bool
	objVC   map[uintptr]vclock
	shadow  map[uintptr]*shadowCell
	sites   map[string]bool // frozen for the current exploration pass: these are scheduling points
	pending map[string]bool // discovered during the pass
	pairs   map[string]bool // "siteA <-> siteB (what)" for the report
}

var race = &raceState{}

// raceResetExecution clears per-execution state.
func raceResetExecution() {
	race.objVC = map[uintptr]vclock{}
	race.shadow = map[uintptr]*shadowCell{}
}

// raceBeginScenario starts a scenario with no racy sites known.
func raceBeginScenario(on bool) {
	race.on = on
	race.sites = map[string]bool{}
	race.pending = map[string]bool{}
	race.pairs = map[string]bool{}
}

// racePromote makes the sites discovered in the last pass scheduling points; it reports
// whether there were any new ones.
func racePromote() bool {
	added := false
	for k := range race.pending {
		if !race.sites[k] {
			race.sites[k] = true
			added = true
		}
	}
	race.pending = map[string]bool{}
	return added
}

func raceReport() (sites []string, pairs []string) {
	for k := range race.sites {
		sites = append(sites, k)
	}
	for k := range race.pairs {
		pairs = append(pairs, k)
	}
	sort.Strings(sites)
	sort.Strings(pairs)
	return
}

// vcSync: thread t performs a tracked operation on the synchronisation object key.
func (s *sched) vcSync(t *thread, key uintptr, write bool) {
	if !race.on || t == nil {
		return
	}
	if o, ok := race.objVC[key]; ok {
		t.vc = vjoin(t.vc, o)
	}
	if write {
		race.objVC[key] = vclone(t.vc)
		t.tick()
	}
}

func (s *sched) vcAcquire(t *thread, key uintptr) {
	if !race.on || t == nil {
		return
	}
	if o, ok := race.objVC[key]; ok {
		t.vc = vjoin(t.vc, o)
	}
}

// vcReleaseJoin adds t's clock to the object's (several releasers, e.g. readers of a
// RWMutex, none of which orders the others).
func (s *sched) vcReleaseJoin(t *thread, key uintptr) {
	if !race.on || t == nil {
		return
	}
	race.objVC[key] = vjoin(vclone(race.objVC[key]), t.vc)
	t.tick()
}

func (s *sched) vcRelease(t *thread, key uintptr) {
	if !race.on || t == nil {
		return
	}
	race.objVC[key] = vclone(t.vc)
	t.tick()
}

// vcJoinAll: t has observed quiescence (Settle / AdvanceSettle): everything every other
// thread did so far happens before what t does next.
func (s *sched) vcJoinAll(t *thread) {
	if !race.on || t == nil {
		return
	}
	for _, u := range s.threads {
		if u != t {
			t.vc = vjoin(t.vc, u.vc)
		}
	}
}

func conflicts(a, b uint8) bool {
	aw := a == accPlainW || a == accAtomicW
	bw := b == accPlainW || b == accAtomicW
	if !aw && !bw {
		return false
	}
	aAtomic := a == accAtomicR || a == accAtomicW
	bAtomic := b == accAtomicR || b == accAtomicW
	return !(aAtomic && bAtomic)
}

var accNames = [...]string{"read", "write", "atomic read", "atomic write"}

func raceAccess(key uintptr, p unsafe.Pointer, kind uint8, site string) {
	if !race.on || key == 0 {
		return
	}
	t := me()
	if t == nil || t.killed {
		return
	}
	if race.sites[site] {
		if t.quiet == 0 {
			s.point(t, &pend{kind: opYield, what: "racy access"})
		}
		// the order of racy accesses is part of the state (happens-before hashing
		// otherwise only sees synchronisation operations)
		s.accHash(t, key, kind == accPlainW || kind == accAtomicW)
	}
	c := race.shadow[key]
	if c == nil {
		c = &shadowCell{keep: p}
		race.shadow[key] = c
	}
	ep := t.epoch()
	found := -1
	for i := range c.acc {
		e := &c.acc[i]
		if e.tid == t.id {
			if e.kind == kind {
				found = i
			}
			continue
		}
		if conflicts(kind, e.kind) && e.clk > t.vc.get(e.tid) {
			// unordered conflicting accesses: a data race
			a, b := site, e.site
			if a > b {
				a, b = b, a
			}
			race.pairs[fmt.Sprintf("%s <-> %s", a, b)] = true
			if site != "" && !race.sites[site] {
				race.pending[site] = true
			}
			if e.site != "" && !race.sites[e.site] {
				race.pending[e.site] = true
			}
		}
	}
	if found >= 0 {
		c.acc[found].clk, c.acc[found].site = ep, site
	} else {
		c.acc = append(c.acc, accEntry{t.id, ep, kind, site})
	}
}

// RaceR announces a plain read of *p at the given source position.
func RaceR[T any](p *T, site string) {
	if race.on {
		if unsafe.Sizeof(*p) == 0 {
			return
		}
		raceAccess(uintptr(unsafe.Pointer(p)), unsafe.Pointer(p), accPlainR, site)
	}
}

// RaceW announces a plain write of *p at the given source position.
func RaceW[T any](p *T, site string) {
	if race.on {
		if unsafe.Sizeof(*p) == 0 {
			return
		}
		raceAccess(uintptr(unsafe.Pointer(p)), unsafe.Pointer(p), accPlainW, site)
	}
}

// raceAtomic is called by the atomic wrappers.
func raceAtomic(key uintptr, write bool) {
	if !race.on {
		return
	}
	k := uint8(accAtomicR)
	if write {
		k = accAtomicW
	}
	raceAccess(key, nil, k, "")
}
