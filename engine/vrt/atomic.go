package vrt

import (
	"sync/atomic"
	"unsafe"
)

func apt() {
	if t := me(); t != nil && !t.killed && t.quiet == 0 {
		s.point(t, &pend{kind: opYield, what: "atomic"})
	}
}

func AddInt32(p *int32, d int32) int32                 { apt(); return atomic.AddInt32(p, d) }
func AddInt64(p *int64, d int64) int64                 { apt(); return atomic.AddInt64(p, d) }
func AddUint32(p *uint32, d uint32) uint32             { apt(); return atomic.AddUint32(p, d) }
func AddUint64(p *uint64, d uint64) uint64             { apt(); return atomic.AddUint64(p, d) }
func AddUintptr(p *uintptr, d uintptr) uintptr         { apt(); return atomic.AddUintptr(p, d) }
func LoadInt32(p *int32) int32                         { apt(); return atomic.LoadInt32(p) }
func LoadInt64(p *int64) int64                         { apt(); return atomic.LoadInt64(p) }
func LoadUint32(p *uint32) uint32                      { apt(); return atomic.LoadUint32(p) }
func LoadUint64(p *uint64) uint64                      { apt(); return atomic.LoadUint64(p) }
func LoadUintptr(p *uintptr) uintptr                   { apt(); return atomic.LoadUintptr(p) }
func LoadPointer(p *unsafe.Pointer) unsafe.Pointer     { apt(); return atomic.LoadPointer(p) }
func StoreInt32(p *int32, v int32)                     { apt(); atomic.StoreInt32(p, v) }
func StoreInt64(p *int64, v int64)                     { apt(); atomic.StoreInt64(p, v) }
func StoreUint32(p *uint32, v uint32)                  { apt(); atomic.StoreUint32(p, v) }
func StoreUint64(p *uint64, v uint64)                  { apt(); atomic.StoreUint64(p, v) }
func StoreUintptr(p *uintptr, v uintptr)               { apt(); atomic.StoreUintptr(p, v) }
func StorePointer(p *unsafe.Pointer, v unsafe.Pointer) { apt(); atomic.StorePointer(p, v) }
func SwapInt32(p *int32, v int32) int32                { apt(); return atomic.SwapInt32(p, v) }
func SwapInt64(p *int64, v int64) int64                { apt(); return atomic.SwapInt64(p, v) }
func SwapUint32(p *uint32, v uint32) uint32            { apt(); return atomic.SwapUint32(p, v) }
func SwapUint64(p *uint64, v uint64) uint64            { apt(); return atomic.SwapUint64(p, v) }
func SwapUintptr(p *uintptr, v uintptr) uintptr        { apt(); return atomic.SwapUintptr(p, v) }
func SwapPointer(p *unsafe.Pointer, v unsafe.Pointer) unsafe.Pointer {
	apt()
	return atomic.SwapPointer(p, v)
}
func CompareAndSwapInt32(p *int32, o, n int32) bool {
	apt()
	return atomic.CompareAndSwapInt32(p, o, n)
}
func CompareAndSwapInt64(p *int64, o, n int64) bool {
	apt()
	return atomic.CompareAndSwapInt64(p, o, n)
}
func CompareAndSwapUint32(p *uint32, o, n uint32) bool {
	apt()
	return atomic.CompareAndSwapUint32(p, o, n)
}
func CompareAndSwapUint64(p *uint64, o, n uint64) bool {
	apt()
	return atomic.CompareAndSwapUint64(p, o, n)
}
func CompareAndSwapUintptr(p *uintptr, o, n uintptr) bool {
	apt()
	return atomic.CompareAndSwapUintptr(p, o, n)
}
func CompareAndSwapPointer(p *unsafe.Pointer, o, n unsafe.Pointer) bool {
	apt()
	return atomic.CompareAndSwapPointer(p, o, n)
}

// Value mirrors atomic.Value.
type Value struct{ v atomic.Value }

func (v *Value) Load() any                    { apt(); return v.v.Load() }
func (v *Value) Store(x any)                  { apt(); v.v.Store(x) }
func (v *Value) Swap(x any) any               { apt(); return v.v.Swap(x) }
func (v *Value) CompareAndSwap(o, n any) bool { apt(); return v.v.CompareAndSwap(o, n) }

type Bool struct{ v atomic.Bool }

func (b *Bool) Load() bool                    { apt(); return b.v.Load() }
func (b *Bool) Store(x bool)                  { apt(); b.v.Store(x) }
func (b *Bool) Swap(x bool) bool              { apt(); return b.v.Swap(x) }
func (b *Bool) CompareAndSwap(o, n bool) bool { apt(); return b.v.CompareAndSwap(o, n) }

type Int32 struct{ v atomic.Int32 }

func (b *Int32) Load() int32                    { apt(); return b.v.Load() }
func (b *Int32) Store(x int32)                  { apt(); b.v.Store(x) }
func (b *Int32) Swap(x int32) int32             { apt(); return b.v.Swap(x) }
func (b *Int32) Add(x int32) int32              { apt(); return b.v.Add(x) }
func (b *Int32) CompareAndSwap(o, n int32) bool { apt(); return b.v.CompareAndSwap(o, n) }

type Int64 struct{ v atomic.Int64 }

func (b *Int64) Load() int64                    { apt(); return b.v.Load() }
func (b *Int64) Store(x int64)                  { apt(); b.v.Store(x) }
func (b *Int64) Swap(x int64) int64             { apt(); return b.v.Swap(x) }
func (b *Int64) Add(x int64) int64              { apt(); return b.v.Add(x) }
func (b *Int64) CompareAndSwap(o, n int64) bool { apt(); return b.v.CompareAndSwap(o, n) }

type Uint32 struct{ v atomic.Uint32 }

func (b *Uint32) Load() uint32                    { apt(); return b.v.Load() }
func (b *Uint32) Store(x uint32)                  { apt(); b.v.Store(x) }
func (b *Uint32) Swap(x uint32) uint32            { apt(); return b.v.Swap(x) }
func (b *Uint32) Add(x uint32) uint32             { apt(); return b.v.Add(x) }
func (b *Uint32) CompareAndSwap(o, n uint32) bool { apt(); return b.v.CompareAndSwap(o, n) }

type Uint64 struct{ v atomic.Uint64 }

func (b *Uint64) Load() uint64                    { apt(); return b.v.Load() }
func (b *Uint64) Store(x uint64)                  { apt(); b.v.Store(x) }
func (b *Uint64) Swap(x uint64) uint64            { apt(); return b.v.Swap(x) }
func (b *Uint64) Add(x uint64) uint64             { apt(); return b.v.Add(x) }
func (b *Uint64) CompareAndSwap(o, n uint64) bool { apt(); return b.v.CompareAndSwap(o, n) }

type Pointer[T any] struct{ v atomic.Pointer[T] }

func (b *Pointer[T]) Load() *T                    { apt(); return b.v.Load() }
func (b *Pointer[T]) Store(x *T)                  { apt(); b.v.Store(x) }
func (b *Pointer[T]) Swap(x *T) *T                { apt(); return b.v.Swap(x) }
func (b *Pointer[T]) CompareAndSwap(o, n *T) bool { apt(); return b.v.CompareAndSwap(o, n) }
