package vrt

import (
	"sync/atomic"
	"unsafe"
)

func apt(key uintptr, write bool) {
	t := me()
	if t != nil && t.killed {
		t.die()
		return
	}
	if t != nil {
		if t.quiet == 0 {
			s.point(t, &pend{kind: opYield, what: "atomic"})
		}
		// acquire first, then judge the access, then release: an atomic access is
		// ordered after every earlier atomic write of the same variable
		s.vcAcquire(t, key)
		raceAtomic(key, write)
		if write {
			s.vcRelease(t, key)
		}
		s.accHash(t, key, write)
	}
}

func AddInt32(p *int32, d int32) int32  { apt(addr(p), true); return atomic.AddInt32(p, d) }
func LoadInt32(p *int32) int32          { apt(addr(p), false); return atomic.LoadInt32(p) }
func StoreInt32(p *int32, v int32)      { apt(addr(p), true); atomic.StoreInt32(p, v) }
func SwapInt32(p *int32, v int32) int32 { apt(addr(p), true); return atomic.SwapInt32(p, v) }
func CompareAndSwapInt32(p *int32, o, n int32) bool {
	apt(addr(p), true)
	return atomic.CompareAndSwapInt32(p, o, n)
}
func AddInt64(p *int64, d int64) int64  { apt(addr(p), true); return atomic.AddInt64(p, d) }
func LoadInt64(p *int64) int64          { apt(addr(p), false); return atomic.LoadInt64(p) }
func StoreInt64(p *int64, v int64)      { apt(addr(p), true); atomic.StoreInt64(p, v) }
func SwapInt64(p *int64, v int64) int64 { apt(addr(p), true); return atomic.SwapInt64(p, v) }
func CompareAndSwapInt64(p *int64, o, n int64) bool {
	apt(addr(p), true)
	return atomic.CompareAndSwapInt64(p, o, n)
}
func AddUint32(p *uint32, d uint32) uint32  { apt(addr(p), true); return atomic.AddUint32(p, d) }
func LoadUint32(p *uint32) uint32           { apt(addr(p), false); return atomic.LoadUint32(p) }
func StoreUint32(p *uint32, v uint32)       { apt(addr(p), true); atomic.StoreUint32(p, v) }
func SwapUint32(p *uint32, v uint32) uint32 { apt(addr(p), true); return atomic.SwapUint32(p, v) }
func CompareAndSwapUint32(p *uint32, o, n uint32) bool {
	apt(addr(p), true)
	return atomic.CompareAndSwapUint32(p, o, n)
}
func AddUint64(p *uint64, d uint64) uint64  { apt(addr(p), true); return atomic.AddUint64(p, d) }
func LoadUint64(p *uint64) uint64           { apt(addr(p), false); return atomic.LoadUint64(p) }
func StoreUint64(p *uint64, v uint64)       { apt(addr(p), true); atomic.StoreUint64(p, v) }
func SwapUint64(p *uint64, v uint64) uint64 { apt(addr(p), true); return atomic.SwapUint64(p, v) }
func CompareAndSwapUint64(p *uint64, o, n uint64) bool {
	apt(addr(p), true)
	return atomic.CompareAndSwapUint64(p, o, n)
}
func AddUintptr(p *uintptr, d uintptr) uintptr  { apt(addr(p), true); return atomic.AddUintptr(p, d) }
func LoadUintptr(p *uintptr) uintptr            { apt(addr(p), false); return atomic.LoadUintptr(p) }
func StoreUintptr(p *uintptr, v uintptr)        { apt(addr(p), true); atomic.StoreUintptr(p, v) }
func SwapUintptr(p *uintptr, v uintptr) uintptr { apt(addr(p), true); return atomic.SwapUintptr(p, v) }
func CompareAndSwapUintptr(p *uintptr, o, n uintptr) bool {
	apt(addr(p), true)
	return atomic.CompareAndSwapUintptr(p, o, n)
}
func LoadPointer(p *unsafe.Pointer) unsafe.Pointer     { apt(addr(p), false); return atomic.LoadPointer(p) }
func StorePointer(p *unsafe.Pointer, v unsafe.Pointer) { apt(addr(p), true); atomic.StorePointer(p, v) }
func SwapPointer(p *unsafe.Pointer, v unsafe.Pointer) unsafe.Pointer {
	apt(addr(p), true)
	return atomic.SwapPointer(p, v)
}
func CompareAndSwapPointer(p *unsafe.Pointer, o, n unsafe.Pointer) bool {
	apt(addr(p), true)
	return atomic.CompareAndSwapPointer(p, o, n)
}

// Value mirrors atomic.Value.
type Value struct{ v atomic.Value }

func (v *Value) Load() any                    { apt(addr(v), false); return v.v.Load() }
func (v *Value) Store(x any)                  { apt(addr(v), true); v.v.Store(x) }
func (v *Value) Swap(x any) any               { apt(addr(v), true); return v.v.Swap(x) }
func (v *Value) CompareAndSwap(o, n any) bool { apt(addr(v), true); return v.v.CompareAndSwap(o, n) }

type Bool struct{ v atomic.Bool }

func (b *Bool) Load() bool                    { apt(addr(b), false); return b.v.Load() }
func (b *Bool) Store(x bool)                  { apt(addr(b), true); b.v.Store(x) }
func (b *Bool) Swap(x bool) bool              { apt(addr(b), true); return b.v.Swap(x) }
func (b *Bool) CompareAndSwap(o, n bool) bool { apt(addr(b), true); return b.v.CompareAndSwap(o, n) }

type Pointer[T any] struct{ v atomic.Pointer[T] }

func (b *Pointer[T]) Load() *T     { apt(addr(b), false); return b.v.Load() }
func (b *Pointer[T]) Store(x *T)   { apt(addr(b), true); b.v.Store(x) }
func (b *Pointer[T]) Swap(x *T) *T { apt(addr(b), true); return b.v.Swap(x) }
func (b *Pointer[T]) CompareAndSwap(o, n *T) bool {
	apt(addr(b), true)
	return b.v.CompareAndSwap(o, n)
}

type Int32 struct{ v atomic.Int32 }

func (b *Int32) Load() int32                    { apt(addr(b), false); return b.v.Load() }
func (b *Int32) Store(x int32)                  { apt(addr(b), true); b.v.Store(x) }
func (b *Int32) Swap(x int32) int32             { apt(addr(b), true); return b.v.Swap(x) }
func (b *Int32) Add(x int32) int32              { apt(addr(b), true); return b.v.Add(x) }
func (b *Int32) CompareAndSwap(o, n int32) bool { apt(addr(b), true); return b.v.CompareAndSwap(o, n) }

type Int64 struct{ v atomic.Int64 }

func (b *Int64) Load() int64                    { apt(addr(b), false); return b.v.Load() }
func (b *Int64) Store(x int64)                  { apt(addr(b), true); b.v.Store(x) }
func (b *Int64) Swap(x int64) int64             { apt(addr(b), true); return b.v.Swap(x) }
func (b *Int64) Add(x int64) int64              { apt(addr(b), true); return b.v.Add(x) }
func (b *Int64) CompareAndSwap(o, n int64) bool { apt(addr(b), true); return b.v.CompareAndSwap(o, n) }

type Uint32 struct{ v atomic.Uint32 }

func (b *Uint32) Load() uint32         { apt(addr(b), false); return b.v.Load() }
func (b *Uint32) Store(x uint32)       { apt(addr(b), true); b.v.Store(x) }
func (b *Uint32) Swap(x uint32) uint32 { apt(addr(b), true); return b.v.Swap(x) }
func (b *Uint32) Add(x uint32) uint32  { apt(addr(b), true); return b.v.Add(x) }
func (b *Uint32) CompareAndSwap(o, n uint32) bool {
	apt(addr(b), true)
	return b.v.CompareAndSwap(o, n)
}

type Uint64 struct{ v atomic.Uint64 }

func (b *Uint64) Load() uint64         { apt(addr(b), false); return b.v.Load() }
func (b *Uint64) Store(x uint64)       { apt(addr(b), true); b.v.Store(x) }
func (b *Uint64) Swap(x uint64) uint64 { apt(addr(b), true); return b.v.Swap(x) }
func (b *Uint64) Add(x uint64) uint64  { apt(addr(b), true); return b.v.Add(x) }
func (b *Uint64) CompareAndSwap(o, n uint64) bool {
	apt(addr(b), true)
	return b.v.CompareAndSwap(o, n)
}
