package vrt

import (
	"fmt"
	"sort"
)

// Map iteration order is owned: `for k, v := range m` in opted-in packages iterates
// over MapKeys(m), which is sorted by default and, inside ForEachMapOrder, enumerates
// every permutation of maps with 2..MaxEnumMap entries as environment choices.

// MaxEnumMap bounds the size of maps whose iteration order is enumerated.
var MaxEnumMap = 3

var (
	mapChoices []int // choice sequence being replayed/extended
	mapPos     int
	mapTrace   []int // number of options at each choice
	mapEnum    bool
)

func mapChoose(n int) int {
	c := 0
	if mapPos < len(mapChoices) {
		c = mapChoices[mapPos]
	}
	mapPos++
	mapTrace = append(mapTrace, n)
	return c
}

func MapKeys[M ~map[K]V, K comparable, V any](m M) []K {
	keys := make([]K, 0, len(m))
	for k := range m {
		keys = append(keys, k)
	}
	if len(keys) > 1 {
		if ks, ok := any(keys).([]string); ok {
			sort.Strings(ks)
		} else {
			sort.Slice(keys, func(i, j int) bool { return fmt.Sprint(keys[i]) < fmt.Sprint(keys[j]) })
		}
	}
	n := len(keys)
	if n < 2 || n > MaxEnumMap {
		return keys
	}
	nperm := 1
	for i := 2; i <= n; i++ {
		nperm *= i
	}
	idx := 0
	if mapEnum {
		idx = mapChoose(nperm)
	} else if t := me(); t != nil && s.mapOrderOn {
		idx = s.envChoice(nperm, 0)
	}
	// idx-th permutation (factorial number system)
	out := make([]K, 0, n)
	rest := append([]K(nil), keys...)
	for i := n; i >= 1; i-- {
		nperm /= i
		j := idx / nperm
		idx %= nperm
		out = append(out, rest[j])
		rest = append(rest[:j], rest[j+1:]...)
	}
	return out
}

// EnumerateMapOrder makes map iteration order a scheduler-level environment choice
// for the current execution (explorer A/B).
func EnumerateMapOrder(on bool) { s.mapOrderOn = on }

// ForEachMapOrder runs fn once for every combination of iteration orders of the
// (small) maps it ranges over in opted-in packages; returns the number of runs.
// It works without the scheduler (sequential code only).
func ForEachMapOrder(fn func()) int {
	runs := 0
	var rec func(prefix []int)
	rec = func(prefix []int) {
		mapChoices, mapPos, mapTrace, mapEnum = prefix, 0, nil, true
		fn()
		mapEnum = false
		runs++
		trace := mapTrace
		for i := len(prefix); i < len(trace); i++ {
			for alt := 1; alt < trace[i]; alt++ {
				np := make([]int, i+1)
				copy(np, prefix)
				np[i] = alt
				rec(np)
			}
		}
	}
	rec(nil)
	return runs
}
