package vrt

import (
	"fmt"
	"runtime"
	"unsafe"
)

// chanCase is one send or receive alternative of a pending channel operation.
type chanCase interface {
	id() uintptr
	isSend() bool
	// ready reports whether the case can complete now (for t's case index i).
	ready(t *thread, i int) bool
	// perform completes the case now; must only be called when ready.
	perform(t *thread, i int)
	describe() string
	// viaPartner returns the pending thread this case's readiness rests on alone
	// (unbuffered rendezvous with a managed partner), nil otherwise.
	viaPartner(t *thread) *thread
}

func chanID[T any](ch chan T) uintptr {
	return uintptr(*(*unsafe.Pointer)(unsafe.Pointer(&ch)))
}

// RCase is a receive alternative.  After Select returns its index, V and OK hold the
// received value.
type RCase[T any] struct {
	ch      <-chan T
	cid     uintptr
	V       T
	OK      bool
	stashed bool // V/OK already taken from the real channel or handed over by a partner
}

// SCase is a send alternative.
type SCase[T any] struct {
	ch   chan<- T
	cid  uintptr
	v    T
	sent bool
}

// Case is what Select accepts.
type Case = chanCase

func RecvCase[T any](ch <-chan T) *RCase[T] {
	return &RCase[T]{ch: ch, cid: uintptr(*(*unsafe.Pointer)(unsafe.Pointer(&ch)))}
}

// Sender is the curried form of a send so that the value is converted by
// assignability, as in `ch <- v`.
type Sender[T any] struct{ ch chan<- T }

func SendTo[T any](ch chan<- T) Sender[T] { return Sender[T]{ch} }

func (sd Sender[T]) Case(v T) *SCase[T] {
	ch := sd.ch
	return &SCase[T]{ch: ch, cid: uintptr(*(*unsafe.Pointer)(unsafe.Pointer(&ch))), v: v}
}

func (sd Sender[T]) Send(v T) {
	t := me()
	if t == nil {
		sd.ch <- v
		return
	}
	if t.killed {
		t.die()
		return
	}
	c := sd.Case(v)
	if sd.ch == nil {
		s.point(t, &pend{kind: opChan, cases: []chanCase{nil}, what: "send on nil chan"})
		return
	}
	p := &pend{kind: opChan, cases: []chanCase{c}}
	s.point(t, p)
	if t.killed {
		return
	}
	if p.committed < 0 {
		c.perform(t, 0)
		s.acc(t, c.cid, true)
		commitPartnerHash(t)
	}
}

func (c *RCase[T]) id() uintptr  { return c.cid }
func (c *RCase[T]) isSend() bool { return false }
func (c *RCase[T]) describe() string {
	return fmt.Sprintf("recv(%T)", c.ch)
}

func (c *RCase[T]) ready(t *thread, i int) bool {
	if c.stashed {
		return true
	}
	if c.ch == nil {
		return false
	}
	if len(c.ch) > 0 {
		return true
	}
	if cap(c.ch) == 0 && !s.closed[c.cid] && findPartner(t, c.cid, true) != nil {
		return true
	}
	// closed-and-empty (or a real, unmanaged sender): probe; a hit is committed to us
	select {
	case v, ok := <-c.ch:
		c.V, c.OK, c.stashed = v, ok, true
		return true
	default:
	}
	return false
}

func (c *RCase[T]) viaPartner(t *thread) *thread {
	if c.stashed || c.ch == nil || len(c.ch) > 0 || cap(c.ch) != 0 || s.closed[c.cid] {
		return nil
	}
	return findPartner(t, c.cid, true)
}

func (c *RCase[T]) perform(t *thread, i int) {
	if c.stashed {
		return
	}
	if len(c.ch) > 0 {
		select {
		case v, ok := <-c.ch:
			c.V, c.OK, c.stashed = v, ok, true
			return
		default:
			panic("vrt: buffered receive would block (unowned nondeterminism)")
		}
	}
	if cap(c.ch) == 0 && !s.closed[c.cid] {
		if pt, pi := findPartnerIdx(t, c.cid, true); pt != nil {
			sc := pt.pend.cases[pi].(*SCase[T])
			c.V, c.OK, c.stashed = sc.v, true, true
			sc.sent = true
			pt.pend.committed = pi
			s.lastPartner = pt
			return
		}
	}
	select {
	case v, ok := <-c.ch:
		c.V, c.OK, c.stashed = v, ok, true
	default:
		panic("vrt: receive not ready at perform")
	}
}

func (c *SCase[T]) id() uintptr  { return c.cid }
func (c *SCase[T]) isSend() bool { return true }
func (c *SCase[T]) describe() string {
	return fmt.Sprintf("send(%T)", c.ch)
}

func (c *SCase[T]) ready(t *thread, i int) bool {
	if c.sent {
		return true
	}
	if c.ch == nil {
		return false
	}
	if s.closed[c.cid] {
		return true // will panic
	}
	if len(c.ch) < cap(c.ch) {
		return true
	}
	if cap(c.ch) == 0 && findPartner(t, c.cid, false) != nil {
		return true
	}
	return false
}

func (c *SCase[T]) viaPartner(t *thread) *thread {
	if c.sent || c.ch == nil || cap(c.ch) != 0 || s.closed[c.cid] {
		return nil
	}
	return findPartner(t, c.cid, false)
}

func (c *SCase[T]) perform(t *thread, i int) {
	if c.sent {
		return
	}
	if s.closed[c.cid] {
		panic(sendOnClosed{})
	}
	if len(c.ch) < cap(c.ch) {
		select {
		case c.ch <- c.v:
			c.sent = true
			return
		default:
			panic("vrt: buffered send would block (unowned nondeterminism)")
		}
	}
	if pt, pi := findPartnerIdx(t, c.cid, false); pt != nil {
		rc := pt.pend.cases[pi].(*RCase[T])
		rc.V, rc.OK, rc.stashed = c.v, true, true
		c.sent = true
		pt.pend.committed = pi
		s.lastPartner = pt
		return
	}
	// a real (unmanaged) receiver may be parked on the real channel
	select {
	case c.ch <- c.v:
		c.sent = true
	default:
		panic("vrt: send not ready at perform")
	}
}

type sendOnClosed struct{}

func (sendOnClosed) Error() string  { return "send on closed channel" }
func (sendOnClosed) RuntimeError()  {}
func (sendOnClosed) String() string { return "send on closed channel" }

// findPartner looks for another parked thread with a pending uncommitted case on the
// same channel of the opposite direction (wantSend: we are a receiver and look for a
// sender).
func findPartner(self *thread, cid uintptr, wantSend bool) *thread {
	t, _ := findPartnerIdx(self, cid, wantSend)
	return t
}

func findPartnerIdx(self *thread, cid uintptr, wantSend bool) (*thread, int) {
	for _, t := range s.threads {
		if t == self || t.done || t.pend == nil || t.pend.kind != opChan || t.pend.committed >= 0 || t.pend.hasDef {
			continue
		}
		for i, c := range t.pend.cases {
			if c == nil || c.id() != cid || c.isSend() != wantSend {
				continue
			}
			return t, i
		}
	}
	return nil, -1
}

// Recv replaces `<-ch`.
func Recv[T any](ch <-chan T) T {
	v, _ := Recv2(ch)
	return v
}

// Recv2 replaces `v, ok := <-ch`.
func Recv2[T any](ch <-chan T) (T, bool) {
	t := me()
	if t == nil {
		v, ok := <-ch
		return v, ok
	}
	if t.killed {
		t.die()
		var z T
		return z, false
	}
	c := RecvCase(ch)
	if ch == nil {
		s.point(t, &pend{kind: opChan, cases: []chanCase{nil}, what: "recv on nil chan"})
		var z T
		return z, false
	}
	p := &pend{kind: opChan, cases: []chanCase{c}}
	s.point(t, p)
	if t.killed {
		var z T
		return z, false
	}
	if p.committed < 0 {
		c.perform(t, 0)
		s.acc(t, c.cid, true)
		commitPartnerHash(t)
	}
	return c.V, c.OK
}

// Close replaces close(ch).
func Close[T any](ch chan<- T) {
	t := me()
	if t == nil {
		close(ch)
		return
	}
	if t.killed {
		// teardown: deferred close in a dying thread; do it for real, ignore double close
		func() {
			defer func() { recover() }()
			close(ch)
		}()
		return
	}
	pt(t, "close")
	cid := uintptr(*(*unsafe.Pointer)(unsafe.Pointer(&ch)))
	close(ch) // panics exactly as Go does for nil / closed channels
	s.closed[cid] = true
	s.closedRefs = append(s.closedRefs, ch)
	s.acc(t, cid, true)
}

// Select replaces a select statement: returns the index of the chosen case, -1 for
// default.
func Select(hasDefault bool, cases ...Case) int {
	t := me()
	if t == nil {
		return realSelect(hasDefault, cases)
	}
	if t.killed {
		t.die()
		return -1
	}
	cs := make([]chanCase, len(cases))
	for i, c := range cases {
		if isNilCase(c) {
			cs[i] = nil
		} else {
			cs[i] = c
		}
	}
	p := &pend{kind: opChan, cases: cs, hasDef: hasDefault}
	s.point(t, p)
	if t.killed {
		return -1
	}
	if p.committed >= 0 {
		return p.committed
	}
	var ready []int
	for i, c := range cs {
		if c != nil && c.ready(t, i) {
			ready = append(ready, i)
		}
	}
	for _, c := range cs {
		if c != nil {
			s.acc(t, c.id(), false)
		}
	}
	if hasDefault && !s.noMaybeParked {
		// A partner that is merely pending at its blocking operation counts as parked in
		// this model, but for real it may not have queued itself on the channel yet: no
		// happens-before edge makes it so unless time has passed or the harness waited for
		// quiescence since.  A non-blocking operation is the only observer of the
		// difference, so it gets the other answer as a deviation.
		kept := ready[:0]
		for _, i := range ready {
			if pt := cs[i].viaPartner(t); pt != nil && pt.pend != nil && pt.pend.parkEpoch == s.parkEpoch {
				if s.envChoice(2, 1) == 1 {
					continue
				}
			}
			kept = append(kept, i)
		}
		ready = kept
	}
	if len(ready) == 0 {
		if hasDefault {
			return -1
		}
		panic("vrt: select scheduled with nothing ready")
	}
	k := 0
	if len(ready) > 1 {
		k = s.envChoice(len(ready), s.envCost)
	}
	idx := ready[k]
	cs[idx].perform(t, idx)
	s.acc(t, cs[idx].id(), true)
	commitPartnerHash(t)
	// un-stash receive probes of the cases not taken: a probe only consumes from a
	// closed channel (re-readable) or from an unmanaged sender (documented limitation)
	return idx
}

func isNilCase(c Case) bool {
	if c == nil {
		return true
	}
	return c.id() == 0
}

// realSelect is the fall-back for unmanaged goroutines: polls the cases.
func realSelect(hasDefault bool, cases []Case) int {
	for spin := 0; ; spin++ {
		for i, c := range cases {
			if isNilCase(c) {
				continue
			}
			if rp, ok := c.(interface{ tryReal() bool }); ok && rp.tryReal() {
				return i
			}
		}
		if hasDefault {
			return -1
		}
		if spin < 100 {
			runtime.Gosched()
		} else {
			sleepReal()
		}
	}
}

func (c *RCase[T]) tryReal() bool {
	select {
	case v, ok := <-c.ch:
		c.V, c.OK = v, ok
		return true
	default:
		return false
	}
}

func (c *SCase[T]) tryReal() bool {
	select {
	case c.ch <- c.v:
		return true
	default:
		return false
	}
}

// commitPartnerHash folds the event just performed by t into the thread it completed
// a rendezvous with (the partner observes the value / the hand-off).
func commitPartnerHash(t *thread) {
	if p := s.lastPartner; p != nil {
		s.lastPartner = nil
		if race.on {
			// a rendezvous synchronises both ways
			p.vc = vjoin(p.vc, t.vc)
			t.vc = vjoin(t.vc, p.vc)
			t.tick()
			p.tick()
		}
		if s.hbOn {
			p.h = mix(p.h, t.h)
		}
	}
}
