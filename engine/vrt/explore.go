package vrt

import (
	"crypto/sha1"
	"encoding/hex"
	"encoding/json"
	"fmt"
	"os"
	"path/filepath"
	"sort"
	"strings"
	"sync"
	"time"
)

// Options configures one exploration (explorer A) or one history search (explorer B).
type Options struct {
	Name               string
	Bound              int  // largest deviation (preemption) bound to explore; iterated 0..Bound
	Horizon            int  // max scheduling points per execution (default 20000)
	AutoAdvance        bool // when every thread is blocked, jump to the next virtual timer
	SelectCost         int  // deviation cost of a non-default ready select case (default 1; -1 = free)
	AllowPanic         bool // uncaught panics in managed threads are outcomes, not violations
	MustCollide        bool // vacuity guard: more than one distinct outcome expected
	NoWarmup           bool
	NoRace             bool // switch off data-race detection and race-directed scheduling points
	MaxExecs           int  // cap on executions (0 = none); hitting it clears Exhaustive
	Budget             time.Duration
	AllowDriverBlocked bool // do not treat a main thread that is still blocked at quiescence as a deadlock
	Prune              bool // happens-before state caching (sound only if all cross-thread communication is tracked; see hb.go)
}

// Run is the per-execution handle given to the harness body.
type Run struct {
	opts     *Options
	mu       sync.Mutex
	log      []string
	outcome  []string
	fails    []string
	atEnd    []func()
	cleanup  []func()
	leaked   []ThreadInfo
	uncaught []string
	Data     any
}

func (r *Run) Logf(format string, a ...any) {
	if t := me(); t != nil && t.killed {
		return // torn-down thread: not part of the execution any more
	}
	r.mu.Lock()
	r.log = append(r.log, fmt.Sprintf(format, a...))
	r.mu.Unlock()
}

// Failf records a violation of the property in this execution.
func (r *Run) Failf(format string, a ...any) {
	if t := me(); t != nil && t.killed {
		return // torn-down thread: not part of the execution any more
	}
	r.mu.Lock()
	r.fails = append(r.fails, fmt.Sprintf(format, a...))
	r.mu.Unlock()
}

func (r *Run) Failed() bool { return len(r.fails) > 0 }

// Outcome adds a component to the execution's observable outcome (used to count
// distinct outcomes; one outcome from many schedules means nothing collided).
func (r *Run) Outcome(format string, a ...any) {
	if t := me(); t != nil && t.killed {
		return // torn-down thread: not part of the execution any more
	}
	r.mu.Lock()
	r.outcome = append(r.outcome, fmt.Sprintf(format, a...))
	r.mu.Unlock()
}

// AtEnd registers an oracle evaluated at quiescence, before leftover threads are torn
// down.  It runs outside the scheduler (no thread is running).
func (r *Run) AtEnd(f func()) { r.atEnd = append(r.atEnd, f) }

// Cleanup registers f to run after teardown of the execution.
func (r *Run) Cleanup(f func()) { r.cleanup = append(r.cleanup, f) }

// Leaked returns the threads still alive at quiescence (valid inside AtEnd).
func (r *Run) Leaked() []ThreadInfo { return sortedThreadInfos(r.leaked) }

// Uncaught returns the panics that escaped managed threads.
func (r *Run) Uncaught() []string { return r.uncaught }

func (r *Run) noteUncaught(t *thread, e any, stack string) {
	msg := fmt.Sprintf("uncaught panic in thread %d (%s): %v", t.id, t.site, e)
	r.mu.Lock()
	r.uncaught = append(r.uncaught, msg)
	if !r.opts.AllowPanic {
		r.fails = append(r.fails, msg+"\n"+stack)
	}
	r.mu.Unlock()
}

// Violation is one failing execution.
type Violation struct {
	Scenario string   `json:"scenario"`
	Msgs     []string `json:"msgs"`
	Choices  []int    `json:"choices,omitempty"`
	History  []string `json:"history,omitempty"`
	Log      []string `json:"log,omitempty"`
	Finger   string   `json:"fingerprint"`
	Class    string   `json:"class"`
	// RaceSites: accesses that were scheduling points in this execution because a data race
	// had been observed on them (needed to replay the schedule)
	RaceSites []string `json:"race_sites,omitempty"`
}

// Result summarises one exploration.
type Result struct {
	RaceSites      []string       `json:"race_sites,omitempty"`  // accesses turned into scheduling points
	RacePairs      []string       `json:"race_pairs,omitempty"`  // unordered conflicting access pairs observed
	RacePasses     int            `json:"race_passes,omitempty"` // re-explorations after new racy sites
	Name           string         `json:"name"`
	Kind           string         `json:"kind"`
	Executions     int            `json:"executions"`
	Points         int            `json:"points"`
	States         int            `json:"states"`
	Transitions    int            `json:"transitions"`
	MaxChoices     int            `json:"max_choice_points"`
	BoundCompleted int            `json:"bound_completed"`
	DepthCompleted int            `json:"depth_completed"`
	Exhaustive     bool           `json:"exhaustive"`
	CapHit         string         `json:"cap_hit,omitempty"`
	Outcomes       map[string]int `json:"-"`
	DistinctOut    int            `json:"distinct_outcomes"`
	Pruned         int            `json:"pruned_executions,omitempty"`
	Saturated      bool           `json:"saturated,omitempty"`
	Violations     []Violation    `json:"violations,omitempty"`
	Samples        []any          `json:"samples,omitempty"`
	WallS          float64        `json:"wall_s"`
}

// InfraError aborts the process: the machinery, not the code under test, is at fault.
func InfraError(format string, a ...any) {
	fmt.Fprintf(os.Stderr, "VRT-INFRA-ERROR: "+format+"\n", a...)
	os.Exit(2)
}

func fingerprint(parts ...string) string {
	h := sha1.Sum([]byte(strings.Join(parts, "\x00")))
	return hex.EncodeToString(h[:6])
}

var deadlineOnce sync.Once
var globalDeadline time.Time

// GlobalDeadline is the process-wide internal deadline (env VRT_DEADLINE_S seconds
// from process start); explorations stop cleanly (exhaustive:false) when it passes.
func GlobalDeadline() time.Time {
	deadlineOnce.Do(func() {
		sec := 0
		fmt.Sscanf(os.Getenv("VRT_DEADLINE_S"), "%d", &sec)
		if sec <= 0 {
			sec = 3600
		}
		globalDeadline = time.Now().Add(time.Duration(sec) * time.Second)
	})
	return globalDeadline
}

func (o *Options) defaults() {
	if o.Horizon == 0 {
		o.Horizon = 20000
	}
	if o.SelectCost == 0 {
		o.SelectCost = 1
	} else if o.SelectCost < 0 {
		o.SelectCost = 0
	}
}

func (s *sched) configure(o *Options) {
	s.horizon = o.Horizon
	s.autoAdvance = o.AutoAdvance
	s.envCost = int8(o.SelectCost)
	s.hbOn = o.Prune
	s.prune = o.Prune && s.visited != nil
}

func oneExec(o *Options, body func(*Run), prefix []int) (*Run, execResult) {
	r := &Run{opts: o}
	s.configure(o)
	res := s.runOnce(r, body, prefix)
	if res.abortMsg != "" {
		r.fails = append(r.fails, res.abortMsg)
	}
	if !res.pruned && res.abortMsg == "" && !o.AllowDriverBlocked {
		// the harness body itself must always run to completion: a driver that is still
		// parked at quiescence means the code under test deadlocked or lost a wake-up
		for _, l := range res.leaked {
			if l.ID == 0 {
				var others []string
				for _, x := range res.leaked {
					if x.ID != 0 {
						others = append(others, x.Site+" blocked in "+x.Blocked)
					}
				}
				sort.Strings(others)
				r.fails = append([]string{fmt.Sprintf("deadlock: the scenario's main thread is still blocked in %s at quiescence (other blocked threads: %v)", l.Blocked, others)}, r.fails...)
			}
		}
	}
	return r, res
}

// Explore runs body under every schedule (and environment answer) whose deviation
// cost is within the bound, iterating the bound 0..o.Bound.
func Explore(o Options, body func(*Run)) *Result {
	o.defaults()
	start := time.Now()
	res := &Result{Name: o.Name, Kind: "schedules", Outcomes: map[string]int{}, BoundCompleted: -1, Exhaustive: true}
	if rp := loadReplay(); rp != nil {
		if rp.Scenario != o.Name {
			return res
		}
		raceBeginScenario(!o.NoRace)
		for _, st := range rp.RaceSites {
			race.sites[st] = true
		}
		r, fails := Replay(o, body, rp.Choices)
		fmt.Printf("REPLAY %s choices=%v\n  outcome=%v\n  log=%v\n  fails=%v\n", o.Name, rp.Choices, r.outcome, r.log, fails)
		res.Executions, res.States, res.Transitions = 1, 1, 1
		if len(fails) > 0 {
			res.Violations = append(res.Violations, Violation{Scenario: o.Name, Msgs: fails, Choices: rp.Choices, Log: r.log, Finger: fingerprint(o.Name, firstLine(fails[0])), Class: firstLine(fails[0])})
		}
		Record(res)
		return res
	}
	deadline := GlobalDeadline()
	if o.Budget > 0 {
		if d := start.Add(o.Budget); d.Before(deadline) {
			deadline = d
		}
	}
	s.visited = nil
	defer func() { s.visited = nil }()
	raceBeginScenario(!o.NoRace)
	defer raceBeginScenario(false)
	if !o.NoWarmup {
		oneExec(&o, body, nil)
	}
	// determinism self-check: the default schedule twice
	r1, e1 := oneExec(&o, body, nil)
	r2, e2 := oneExec(&o, body, nil)
	if fmt.Sprint(r1.log, r1.outcome, traceSig(e1.trace)) != fmt.Sprint(r2.log, r2.outcome, traceSig(e2.trace)) {
		InfraError("scenario %q is not deterministic under replay:\n run1 log=%v outcome=%v trace=%v\n run2 log=%v outcome=%v trace=%v", o.Name, r1.log, r1.outcome, traceSig(e1.trace), r2.log, r2.outcome, traceSig(e2.trace))
	}
	var execs, points, maxChoices int
	var stop bool
	knownSeen := map[string]bool{}
	var explore func(prefix []int, bound int)
	explore = func(prefix []int, bound int) {
		if stop {
			return
		}
		if o.MaxExecs > 0 && execs >= o.MaxExecs {
			res.CapHit = fmt.Sprintf("max executions %d", o.MaxExecs)
			stop = true
			return
		}
		if execs%64 == 0 && time.Now().After(deadline) {
			res.CapHit = "time budget"
			stop = true
			return
		}
		r, x := oneExec(&o, body, prefix)
		if x.diverged != "" {
			InfraError("scenario %q: %s (prefix %v)", o.Name, x.diverged, prefix)
		}
		if x.pruned {
			res.Pruned++
		}
		execs++
		points += x.steps
		if len(x.trace) > maxChoices {
			maxChoices = len(x.trace)
		}
		oc := strings.Join(r.outcome, "|")
		if !x.pruned {
			res.Outcomes[oc]++
		}
		choices := make([]int, len(x.trace))
		for i, c := range x.trace {
			choices[i] = c.chosen
		}
		if len(res.Samples) < 3 && (len(res.Samples) == 0 || execs%7 == 0) {
			res.Samples = append(res.Samples, map[string]any{"scenario": o.Name, "schedule": fmt.Sprint(choices), "outcome": oc, "log": r.log})
		}
		if len(r.fails) > 0 {
			cls := firstLine(r.fails[0])
			if kc := knownClass(o.Name, cls); kc != "" {
				// a listed known finding: report it once and keep exploring, so that a
				// different violation in the same scenario is still found
				if !knownSeen[kc] {
					knownSeen[kc] = true
					sites, _ := raceReport()
					res.Violations = append(res.Violations, Violation{Scenario: o.Name, Msgs: r.fails, Choices: choices, Log: r.log,
						Finger: fingerprint(o.Name, cls), Class: cls, RaceSites: sites})
				}
			} else {
				sites, _ := raceReport()
				res.Violations = append(res.Violations, Violation{Scenario: o.Name, Msgs: r.fails, Choices: choices, Log: r.log,
					Finger: fingerprint(o.Name, cls), Class: cls, RaceSites: sites})
				stop = true
				return
			}
		}
		cost := 0
		for i := 0; i < len(x.trace); i++ {
			c := x.trace[i]
			if i >= len(prefix) {
				for alt := 1; alt < c.n; alt++ {
					if cost+int(c.cost[alt]) > bound {
						continue
					}
					np := make([]int, i+1)
					copy(np, choices[:i])
					np[i] = alt
					explore(np, bound)
					if stop {
						return
					}
				}
			}
			cost += int(c.cost[c.chosen])
		}
	}
	// data races seen in the default schedule already refine the first pass
	racePromote()
	for pass := 0; ; pass++ {
		for b := 0; b <= o.Bound; b++ {
			execs, points = 0, 0
			s.visited = map[stateKey]int16{}
			for k := range res.Outcomes {
				delete(res.Outcomes, k)
			}
			explore(nil, b)
			res.Executions += execs
			res.Points += points
			if stop {
				break
			}
			res.BoundCompleted = b
			res.States = execs // schedules explored at the largest completed bound
		}
		// race-directed refinement: accesses found racing during this pass become
		// scheduling points and the search starts over (a fixpoint is reached quickly: the
		// set of instrumented sites is finite and only grows)
		if stop || pass >= 5 || !racePromote() {
			break
		}
		res.RacePasses = pass + 1
		res.BoundCompleted = -1
	}
	res.RaceSites, res.RacePairs = raceReport()
	if os.Getenv("VRT_RACE_DEBUG") != "" {
		AddNote("RACE-DEBUG %s: on=%v passes=%d sites=%v pairs=%v shadow=%d", o.Name, race.on, res.RacePasses, res.RaceSites, res.RacePairs, len(race.shadow))
	}
	if stop && res.CapHit != "" {
		res.Exhaustive = false
	}
	res.Transitions = res.Points
	res.MaxChoices = maxChoices
	res.DistinctOut = len(res.Outcomes)
	if res.States == 0 {
		res.States = res.Executions
	}
	if os.Getenv("VRT_PRUNE_CHECK") != "" && o.Prune && len(res.Violations) == 0 && res.Exhaustive {
		// cross-validation of HB caching: the unpruned search must see the same outcomes
		o2 := o
		o2.Prune = false
		o2.Name = o.Name + "#unpruned"
		saved := records
		full := Explore(o2, body)
		records = saved
		if full.Exhaustive && (fmt.Sprint(sortedKeys(full.Outcomes)) != fmt.Sprint(sortedKeys(res.Outcomes)) || len(full.Violations) != 0) {
			InfraError("HB pruning changed the result of %q: pruned outcomes %v, unpruned outcomes %v, unpruned violations %d", o.Name, sortedKeys(res.Outcomes), sortedKeys(full.Outcomes), len(full.Violations))
		}
		AddNote("prune-check %s: pruned %d executions vs unpruned %d, same %d outcomes (unpruned exhaustive=%v)", o.Name, res.Executions, full.Executions, len(res.Outcomes), full.Exhaustive)
	}
	if o.MustCollide && res.Exhaustive && len(res.Violations) == 0 && o.Bound > 0 && res.DistinctOut < 2 {
		InfraError("scenario %q is vacuous: %d schedules, %d distinct outcome(s)", o.Name, res.Executions, res.DistinctOut)
	}
	res.WallS = time.Since(start).Seconds()
	Record(res)
	return res
}

func sortedKeys(m map[string]int) []string {
	ks := make([]string, 0, len(m))
	for k := range m {
		ks = append(ks, k)
	}
	sort.Strings(ks)
	return ks
}

func firstLine(s string) string {
	if i := strings.IndexByte(s, '\n'); i >= 0 {
		return s[:i]
	}
	return s
}

func traceSig(tr []choice) string {
	var b strings.Builder
	for _, c := range tr {
		fmt.Fprintf(&b, "%d/%d%c ", c.chosen, c.n, c.kind)
	}
	return b.String()
}

// Replay runs body once under the given choice list and returns the run.
func Replay(o Options, body func(*Run), choices []int) (*Run, []string) {
	o.defaults()
	if !o.NoWarmup {
		oneExec(&o, body, nil)
	}
	r, x := oneExec(&o, body, choices)
	if x.diverged != "" {
		InfraError("replay of %q diverged: %s", o.Name, x.diverged)
	}
	return r, r.fails
}

// RunOnce runs body a single time under the default schedule (mode B/C building block).
// It returns the violations recorded by the body.
func RunOnce(o Options, body func(*Run)) (*Run, []string) {
	if o.Horizon == 0 {
		// a single sequential run (typically the carrier of a Cases enumeration): the
		// horizon guards schedule searches against livelock and has no meaning here
		o.Horizon = 1 << 30
	}
	o.defaults()
	r, x := oneExec(&o, body, nil)
	if x.diverged != "" {
		InfraError("%q diverged: %s", o.Name, x.diverged)
	}
	if len(r.fails) > 0 {
		// failures of the run itself (deadlock, horizon, uncaught panic, Failf) are violations
		cls := firstLine(r.fails[0])
		Record(&Result{Name: o.Name, Kind: "inputs", Executions: 1, States: 1, Transitions: 1, Exhaustive: true, Outcomes: map[string]int{},
			Violations: []Violation{{Scenario: o.Name, Msgs: r.fails, Log: r.log, Finger: fingerprint(o.Name, cls), Class: cls}}})
	}
	return r, r.fails
}

// ---------------------------------------------------------------------------
// Explorer B: breadth-first search over operation histories

// Step is the verdict of applying a history.
type Step struct {
	Canon    string // canonical state after the history; "" = last op not applicable here
	Terminal bool   // do not extend this history
}

// BFS explores every history over ops up to the given depth.  apply must build a
// fresh real object, replay hist on it in lock-step with its reference model,
// record mismatches with r.Failf and return the canonical state reached.
func BFS(o Options, depth int, ops []string, apply func(r *Run, hist []string) Step) *Result {
	o.defaults()
	start := time.Now()
	res := &Result{Name: o.Name, Kind: "histories", Outcomes: map[string]int{}, Exhaustive: true}
	if rp := loadReplay(); rp != nil {
		if rp.Scenario != o.Name {
			return res
		}
		if !o.NoWarmup {
			oneExec(&o, func(r *Run) { apply(r, nil) }, nil)
		}
		r, _ := oneExec(&o, func(r *Run) { apply(r, rp.History) }, nil)
		fmt.Printf("REPLAY %s history=%v\n  log=%v\n  fails=%v\n", o.Name, rp.History, r.log, r.fails)
		res.Executions, res.States, res.Transitions = 1, 1, 1
		if len(r.fails) > 0 {
			res.Violations = append(res.Violations, Violation{Scenario: o.Name, Msgs: r.fails, History: rp.History, Log: r.log, Finger: fingerprint(o.Name, strings.Join(rp.History, ";"), firstLine(r.fails[0])), Class: firstLine(r.fails[0])})
		}
		Record(res)
		return res
	}
	deadline := GlobalDeadline()
	if o.Budget > 0 {
		if d := start.Add(o.Budget); d.Before(deadline) {
			deadline = d
		}
	}
	run := func(h []string) (*Run, Step) {
		var st Step
		r, x := oneExec(&o, func(r *Run) { st = apply(r, h) }, nil)
		if x.diverged != "" {
			InfraError("%q diverged: %s", o.Name, x.diverged)
		}
		res.Points += x.steps
		return r, st
	}
	if !o.NoWarmup {
		run(nil)
	}
	r0, st0 := run(nil)
	if len(r0.fails) > 0 {
		res.Violations = append(res.Violations, Violation{Scenario: o.Name, Msgs: r0.fails, History: []string{}, Log: r0.log, Finger: fingerprint(o.Name, "", firstLine(r0.fails[0])), Class: firstLine(r0.fails[0])})
	}
	seen := map[string][]string{st0.Canon: {}}
	frontier := [][]string{{}}
	stop := false
	knownSeenB := map[string]bool{}
	for d := 1; d <= depth && !stop; d++ {
		var next [][]string
		for _, h := range frontier {
			for _, op := range ops {
				if res.Transitions%32 == 0 && time.Now().After(deadline) {
					res.CapHit = "time budget"
					stop = true
				}
				if o.MaxExecs > 0 && res.Transitions >= o.MaxExecs {
					res.CapHit = fmt.Sprintf("max transitions %d", o.MaxExecs)
					stop = true
				}
				if stop {
					break
				}
				nh := append(append(make([]string, 0, len(h)+1), h...), op)
				r, st := run(nh)
				if st.Canon == "" && len(r.fails) == 0 {
					continue
				}
				res.Transitions++
				res.Outcomes[strings.Join(r.outcome, "|")]++
				if len(res.Samples) < 3 && res.Transitions%11 == 1 {
					res.Samples = append(res.Samples, map[string]any{"scenario": o.Name, "history": nh, "state": st.Canon, "log": r.log})
				}
				if len(r.fails) > 0 {
					cls := firstLine(r.fails[0])
					v := Violation{Scenario: o.Name, Msgs: r.fails, History: nh, Log: r.log,
						Finger: fingerprint(o.Name, strings.Join(nh, ";"), cls), Class: cls}
					if kc := knownClass(o.Name, cls); kc != "" {
						if !knownSeenB[kc] {
							knownSeenB[kc] = true
							res.Violations = append(res.Violations, v)
						}
						continue // a state reached through a known defect is not extended
					}
					res.Violations = append(res.Violations, v)
					stop = true
					break
				}
				if _, ok := seen[st.Canon]; !ok {
					seen[st.Canon] = nh
					if !st.Terminal {
						next = append(next, nh)
					}
				}
			}
			if stop {
				break
			}
		}
		if !stop {
			res.DepthCompleted = d
		}
		frontier = next
		if len(frontier) == 0 {
			if !stop {
				res.DepthCompleted = depth
				res.Saturated = true // fixpoint: every reachable canonical state was expanded
			}
			break
		}
	}
	if stop && res.CapHit != "" {
		res.Exhaustive = false
	}
	res.States = len(seen)
	res.Executions = res.Transitions
	res.DistinctOut = len(res.Outcomes)
	res.WallS = time.Since(start).Seconds()
	Record(res)
	return res
}

// ---------------------------------------------------------------------------
// Explorer C bookkeeping: bounded-exhaustive inputs

// Cases accumulates a bounded-exhaustive input enumeration.
type Cases struct {
	nviol    int
	perClass map[string]int
	res      *Result
	distinct map[string]struct{}
	start    time.Time
	deadline time.Time
}

func NewCases(name string) *Cases {
	return &Cases{res: &Result{Name: name, Kind: "inputs", Outcomes: map[string]int{}, Exhaustive: true}, distinct: map[string]struct{}{}, start: time.Now(), deadline: GlobalDeadline()}
}

// Eval counts one evaluated case; class is its non-trivial equivalence class ("" =
// trivial); sample is recorded for the first few.
func (c *Cases) Eval(class string, sample func() any) {
	c.res.Executions++
	c.res.Transitions++
	if class != "" {
		if _, ok := c.distinct[class]; !ok {
			c.distinct[class] = struct{}{}
			if len(c.res.Samples) < 4 && sample != nil {
				c.res.Samples = append(c.res.Samples, sample())
			}
		}
	}
}

// Expired reports whether the time budget is used up (marks the run non-exhaustive).
func (c *Cases) Expired() bool {
	if c.res.Executions%256 == 0 && time.Now().After(c.deadline) {
		c.res.Exhaustive = false
		c.res.CapHit = "time budget"
		return true
	}
	return c.res.CapHit != ""
}

func (c *Cases) Violation(input string, class string, msg string) {
	c.nviol++
	if c.perClass == nil {
		c.perClass = map[string]int{}
	}
	c.perClass[class]++
	if c.perClass[class] > 2 && knownClass(c.res.Name, class) == "" {
		return // two witnesses per class are reported; the rest only counted
	}
	if kc := knownClass(c.res.Name, class); kc != "" && c.perClass[class] > 1 {
		return
	}
	c.res.Violations = append(c.res.Violations, Violation{Scenario: c.res.Name, Msgs: []string{msg}, History: []string{input}, Finger: fingerprint(c.res.Name, input, class), Class: class})
}

func (c *Cases) NumViolations() int { return c.nviol }

func (c *Cases) Done() *Result {
	c.res.States = len(c.distinct)
	c.res.DistinctOut = len(c.distinct)
	c.res.WallS = time.Since(c.start).Seconds()
	Record(c.res)
	return c.res
}

// ---------------------------------------------------------------------------
// known findings (read-only; handed over by the driver through VRT_KNOWN_FILE)

type knownEntry struct {
	Property string `json:"property"`
	Scenario string `json:"scenario"`
	Class    string `json:"class"`
}

var (
	knownOnce sync.Once
	knownList []knownEntry
)

// knownClass returns a non-empty key if (scenario, class) matches a listed finding.
func knownClass(scenario, class string) string {
	knownOnce.Do(func() {
		p := os.Getenv("VRT_KNOWN_FILE")
		if p == "" {
			return
		}
		b, err := os.ReadFile(p)
		if err != nil {
			return
		}
		var f struct {
			Findings []knownEntry `json:"findings"`
		}
		if json.Unmarshal(b, &f) == nil {
			knownList = f.Findings
		}
	})
	for _, k := range knownList {
		if k.Property != "" && k.Property != os.Getenv("VRT_PROPERTY") {
			continue
		}
		if strings.HasSuffix(k.Scenario, "*") {
			if !strings.HasPrefix(scenario, strings.TrimSuffix(k.Scenario, "*")) {
				continue
			}
		} else if k.Scenario != scenario {
			continue
		}
		if k.Class != "" && !strings.Contains(class, k.Class) {
			continue
		}
		return k.Scenario + "|" + k.Class
	}
	return ""
}

// ---------------------------------------------------------------------------
// replay files

type replayFile struct {
	Property string   `json:"property"`
	Scenario string   `json:"scenario"`
	Choices  []int    `json:"choices"`
	History  []string `json:"history"`
	// accesses that were scheduling points when the violation was found
	RaceSites []string `json:"race_sites"`
}

var (
	replayOnce sync.Once
	replayData *replayFile
)

func loadReplay() *replayFile {
	replayOnce.Do(func() {
		p := os.Getenv("VRT_REPLAY")
		if p == "" {
			return
		}
		b, err := os.ReadFile(p)
		if err != nil {
			InfraError("cannot read replay file: %v", err)
		}
		var rf replayFile
		if err := json.Unmarshal(b, &rf); err != nil {
			InfraError("bad replay file: %v", err)
		}
		replayData = &rf
	})
	return replayData
}

// Replaying reports whether this process replays a recorded violation.
func Replaying() bool { return loadReplay() != nil }

// ---------------------------------------------------------------------------
// report

var (
	recMu   sync.Mutex
	records []*Result
)

func Record(r *Result) {
	recMu.Lock()
	records = append(records, r)
	recMu.Unlock()
}

// Report is what one harness process (shard) hands back to the driver.
type Report struct {
	Shard   string    `json:"shard"`
	Results []*Result `json:"results"`
	Notes   []string  `json:"notes,omitempty"`
}

var notes []string

func AddNote(format string, a ...any) {
	recMu.Lock()
	notes = append(notes, fmt.Sprintf(format, a...))
	recMu.Unlock()
}

// WriteReport writes the accumulated results to $VRT_OUT/<shard>.json.
func WriteReport() {
	dir := os.Getenv("VRT_OUT")
	if dir == "" {
		return
	}
	recMu.Lock()
	defer recMu.Unlock()
	sort.SliceStable(records, func(i, j int) bool { return records[i].Name < records[j].Name })
	rep := Report{Shard: os.Getenv("VRT_SHARD"), Results: records, Notes: notes}
	b, _ := json.MarshalIndent(rep, "", " ")
	name := strings.ReplaceAll(rep.Shard, "/", "_")
	if tag := os.Getenv("VRT_SHARD_TAG"); tag != "" {
		name = tag
	}
	if name == "" {
		name = "0"
	}
	if err := os.WriteFile(filepath.Join(dir, "shard-"+name+".json"), b, 0o644); err != nil {
		InfraError("cannot write report: %v", err)
	}
}

// Shard reports whether work item i belongs to this process (env VRT_SHARD = "k/n").
func Shard(i int) bool {
	var k, n int
	if _, err := fmt.Sscanf(os.Getenv("VRT_SHARD"), "%d/%d", &k, &n); err != nil || n <= 1 {
		return true
	}
	return i%n == k
}

// Tier returns "quick" or "thorough" (env VERIF_TIER).
func Tier() string {
	if os.Getenv("VERIF_TIER") == "thorough" {
		return "thorough"
	}
	return "quick"
}

func Thorough() bool { return Tier() == "thorough" }

// FairBudget splits the time left before the process deadline evenly over the
// remaining work items of this shard.
func FairBudget(remaining int) time.Duration {
	if remaining < 1 {
		remaining = 1
	}
	left := time.Until(GlobalDeadline()) - 2*time.Second
	if left < time.Second {
		left = time.Second
	}
	return left / time.Duration(remaining)
}
