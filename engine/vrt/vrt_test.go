package vrt

import (
	"context"
	"fmt"
	"sort"
	"sync"
	"testing"
	"time"
)

func lostUpdate(r *Run) {
	var x int32
	var wg WaitGroup
	wg.Add(2)
	for i := 0; i < 2; i++ {
		Go(func() {
			defer wg.Done()
			v := LoadInt32(&x)
			StoreInt32(&x, v+1)
		})
	}
	wg.Wait()
	r.Outcome("x=%d", x)
	if x != 2 {
		r.Failf("lost update: x=%d", x)
	}
}

func TestLostUpdate(t *testing.T) {
	res := Explore(Options{Name: "toy/lost-update-b0", Bound: 0}, lostUpdate)
	if len(res.Violations) != 0 {
		t.Fatalf("bound 0 must not find the lost update: %+v", res.Violations)
	}
	res = Explore(Options{Name: "toy/lost-update-b1", Bound: 1}, lostUpdate)
	if len(res.Violations) == 0 {
		t.Fatalf("bound 1 must find the lost update (execs=%d)", res.Executions)
	}
	v := res.Violations[0]
	for i := 0; i < 3; i++ {
		_, fails := Replay(Options{Name: "toy"}, lostUpdate, v.Choices)
		if len(fails) == 0 {
			t.Fatalf("replay %d did not fail", i)
		}
	}
	t.Logf("found with %d executions, choices %v", res.Executions, v.Choices)
}

func TestChannels(t *testing.T) {
	res := Explore(Options{Name: "toy/chan", Bound: 2, MustCollide: true}, func(r *Run) {
		ch := make(chan int)
		done := make(chan struct{})
		buf := make(chan int, 1)
		var got []int
		Go(func() { SendTo(ch).Send(1) })
		Go(func() { SendTo(ch).Send(2) })
		Go(func() {
			for i := 0; i < 2; i++ {
				got = append(got, Recv(ch))
			}
			SendTo(buf).Send(7)
			Close(done)
		})
		c0, c1 := RecvCase(done), RecvCase(buf)
		switch Select(false, c0, c1) {
		case 0:
			r.Outcome("done first")
		case 1:
			r.Outcome("buf first %d", c1.V)
		}
		Settle()
		if len(got) != 2 || got[0]+got[1] != 3 {
			r.Failf("got %v", got)
		}
		r.Outcome("%v", got)
		r.AtEnd(func() {
			if len(r.Leaked()) != 0 {
				r.Failf("leaked %v", r.Leaked())
			}
		})
	})
	if len(res.Violations) != 0 {
		t.Fatalf("%+v", res.Violations[0])
	}
	t.Logf("execs=%d outcomes=%v", res.Executions, res.Outcomes)
	if res.DistinctOut < 3 {
		t.Fatalf("expected several outcomes: %v", res.Outcomes)
	}
}

func TestDeadlockLeak(t *testing.T) {
	res := Explore(Options{Name: "toy/leak", Bound: 1}, func(r *Run) {
		ch := make(chan int)
		Go(func() { SendTo(ch).Send(1) })
		r.AtEnd(func() {
			if len(r.Leaked()) != 1 {
				r.Failf("want 1 leaked, got %v", r.Leaked())
			}
		})
	})
	if len(res.Violations) != 0 {
		t.Fatalf("%+v", res.Violations[0])
	}
}

func TestMutexAndCond(t *testing.T) {
	res := Explore(Options{Name: "toy/mutex", Bound: 2}, func(r *Run) {
		var mu Mutex
		in := 0
		var wg WaitGroup
		for i := 0; i < 3; i++ {
			wg.Add(1)
			Go(func() {
				defer wg.Done()
				mu.Lock()
				in++
				if in != 1 {
					r.Failf("mutual exclusion broken")
				}
				Yield()
				in--
				mu.Unlock()
			})
		}
		wg.Wait()
	})
	if len(res.Violations) != 0 {
		t.Fatalf("%+v", res.Violations[0])
	}
	t.Logf("mutex execs=%d", res.Executions)
}

func TestTimeAndCtx(t *testing.T) {
	res := Explore(Options{Name: "toy/time", Bound: 2, MustCollide: true}, func(r *Run) {
		ctx, cancel := WithTimeout(context.Background(), time.Second)
		defer cancel()
		done := make(chan struct{})
		Go(func() { Close(done) })
		Go(func() { Advance(time.Second) })
		c0, c1 := RecvCase(done), RecvCase(ctx.Done())
		switch Select(false, c0, c1) {
		case 0:
			r.Outcome("done")
		case 1:
			r.Outcome("timeout %v", ctx.Err())
		}
	})
	if len(res.Violations) != 0 {
		t.Fatalf("%+v", res.Violations[0])
	}
	if res.DistinctOut != 2 {
		t.Fatalf("outcomes %v", res.Outcomes)
	}
	t.Logf("time execs=%d outcomes=%v", res.Executions, res.Outcomes)
}

func TestAutoAdvance(t *testing.T) {
	_, fails := RunOnce(Options{Name: "toy/auto", AutoAdvance: true}, func(r *Run) {
		t0 := Now()
		Sleep(3 * time.Second)
		tk := NewTicker(time.Second)
		Recv(tk.C)
		Recv(tk.C)
		if d := Since(t0); d != 5*time.Second {
			r.Failf("elapsed %v", d)
		}
	})
	if len(fails) != 0 {
		t.Fatal(fails)
	}
}

func TestBFS(t *testing.T) {
	// counter mod 3 with inc/dec: 3 states
	res := BFS(Options{Name: "toy/bfs"}, 5, []string{"inc", "dec"}, func(r *Run, h []string) Step {
		x := 0
		for _, op := range h {
			if op == "inc" {
				x = (x + 1) % 3
			} else {
				x = (x + 2) % 3
			}
		}
		return Step{Canon: fmt.Sprint(x)}
	})
	if res.States != 3 || len(res.Violations) != 0 {
		t.Fatalf("%+v", res)
	}
}

func BenchmarkExec(b *testing.B) {
	o := Options{Name: "bench"}
	o.defaults()
	for i := 0; i < b.N; i++ {
		oneExec(&o, lostUpdate, nil)
	}
}

func chanScenario(r *Run) {
	ch := make(chan int)
	done := make(chan struct{})
	buf := make(chan int, 1)
	var got []int
	Go(func() { SendTo(ch).Send(1) })
	Go(func() { SendTo(ch).Send(2) })
	Go(func() {
		for i := 0; i < 2; i++ {
			got = append(got, Recv(ch))
		}
		SendTo(buf).Send(7)
		Close(done)
	})
	c0, c1 := RecvCase(done), RecvCase(buf)
	switch Select(false, c0, c1) {
	case 0:
		r.Outcome("done first")
	case 1:
		r.Outcome("buf first %d", c1.V)
	}
	Settle()
	r.Outcome("%v", got)
}

func mutexScenario(r *Run) {
	var mu Mutex
	var order []int
	var wg WaitGroup
	for i := 0; i < 3; i++ {
		i := i
		wg.Add(1)
		Go(func() {
			defer wg.Done()
			mu.Lock()
			order = append(order, i)
			mu.Unlock()
		})
	}
	wg.Wait()
	r.Outcome("%v", order)
}

func TestPruneEquivalence(t *testing.T) {
	for name, sc := range map[string]func(*Run){"chan": chanScenario, "mutex": mutexScenario, "lost": func(r *Run) {
		var x int32
		var wg WaitGroup
		wg.Add(2)
		for i := 0; i < 2; i++ {
			Go(func() {
				defer wg.Done()
				v := LoadInt32(&x)
				StoreInt32(&x, v+1)
			})
		}
		wg.Wait()
		r.Outcome("x=%d", x)
	}} {
		for b := 0; b <= 3; b++ {
			a := Explore(Options{Name: "eq/" + name, Bound: b}, sc)
			p := Explore(Options{Name: "eq/" + name + "/prune", Bound: b, Prune: true}, sc)
			if fmt.Sprint(keys(a.Outcomes)) != fmt.Sprint(keys(p.Outcomes)) {
				t.Fatalf("%s bound %d: outcome sets differ:\n full  %v\n prune %v", name, b, a.Outcomes, p.Outcomes)
			}
			t.Logf("%s b=%d: full %d execs, pruned %d execs (%d pruned), outcomes %d", name, b, a.Executions, p.Executions, p.Pruned, len(a.Outcomes))
		}
	}
}

func keys(m map[string]int) []string {
	var ks []string
	for k := range m {
		ks = append(ks, k)
	}
	sort.Strings(ks)
	return ks
}

// Race-directed refinement: an unsynchronised counter increment is invisible to a
// scheduler that only switches at synchronisation operations; once the access sites are
// found racing they become scheduling points and the lost update is explored.
func TestRaceDirectedPoints(t *testing.T) {
	type counter struct{ n int }
	run := func(locked bool) *Result {
		return Explore(Options{Name: fmt.Sprintf("race-toy/locked=%v", locked), Bound: 2}, func(r *Run) {
			c := &counter{}
			var mu Mutex
			var wg WaitGroup
			for i := 0; i < 2; i++ {
				wg.Add(1)
				Go(func() {
					defer wg.Done()
					if locked {
						mu.Lock()
						defer mu.Unlock()
					}
					// the instrumented form of c.n++
					RaceR(&c.n, "toy.go:1")
					tmp := c.n
					RaceW(&c.n, "toy.go:1")
					c.n = tmp + 1
				})
			}
			wg.Wait()
			r.Outcome("n=%d", c.n)
		})
	}
	res := run(false)
	if res.Outcomes["n=1"] == 0 || res.Outcomes["n=2"] == 0 {
		t.Fatalf("unsynchronised increments: outcomes %v, want both n=1 (lost update) and n=2; sites %v", res.Outcomes, res.RaceSites)
	}
	if len(res.RaceSites) == 0 {
		t.Fatalf("no racy site reported: %+v", res)
	}
	res = run(true)
	if len(res.RaceSites) != 0 || res.Outcomes["n=1"] != 0 || res.Outcomes["n=2"] == 0 {
		t.Fatalf("mutex-protected increments: outcomes %v, racy sites %v", res.Outcomes, res.RaceSites)
	}
}

// Conformance of the channel/select/sync model with the real runtime: small programs are
// written once against the vrt API; run free (unmanaged threads fall back to the real
// primitives) many times, every outcome they produce must be among the outcomes the
// exhaustive exploration found.  (The converse — every explored outcome is possible for
// real — cannot be sampled, but an explored outcome the runtime never shows would only make
// checks alarm on correct code, and none does.)
func TestConformanceWithRealRuntime(t *testing.T) {
	type prog struct {
		name string
		body func(out func(string))
	}
	progs := []prog{
		{"unbuffered-rendezvous-vs-default", func(out func(string)) {
			ch, done := make(chan int), make(chan int)
			Go(func() {
				c := SendTo(ch).Case(1)
				if Select(true, c) == 0 {
					out("sent")
				} else {
					out("default")
				}
				Close(done)
			})
			r, d := RecvCase(ch), RecvCase(done)
			if Select(false, r, d) == 0 {
				out("got")
				Recv2(done)
			} else {
				out("done")
			}
		}},
		{"close-with-parked-receivers", func(out func(string)) {
			ch := make(chan int)
			var wg WaitGroup
			for i := 0; i < 2; i++ {
				wg.Add(1)
				Go(func() {
					defer wg.Done()
					v, ok := Recv2(ch)
					out(fmt.Sprintf("r%d/%v", v, ok))
				})
			}
			Close(ch)
			wg.Wait()
		}},
		{"buffered-order", func(out func(string)) {
			ch := make(chan int, 2)
			var wg WaitGroup
			for i := 1; i <= 2; i++ {
				i := i
				wg.Add(1)
				Go(func() { defer wg.Done(); SendTo(ch).Send(i) })
			}
			wg.Wait()
			out(fmt.Sprint(Recv(ch), Recv(ch)))
		}},
		{"select-two-ready", func(out func(string)) {
			a, b := make(chan int, 1), make(chan int, 1)
			a <- 1
			b <- 2
			ra, rb := RecvCase(a), RecvCase(b)
			out(fmt.Sprint(Select(false, ra, rb)))
		}},
		{"mutex-once-waitgroup", func(out func(string)) {
			var mu Mutex
			var once Once
			var wg WaitGroup
			n, inits := 0, 0
			for i := 0; i < 3; i++ {
				wg.Add(1)
				Go(func() {
					defer wg.Done()
					once.Do(func() { inits++ })
					mu.Lock()
					n++
					mu.Unlock()
				})
			}
			wg.Wait()
			out(fmt.Sprint(n, inits))
		}},
		{"flag-then-park-vs-nonblocking-notify", func(out func(string)) {
			var flag int32
			ch, done := make(chan int), make(chan int)
			var wg WaitGroup
			wg.Add(1)
			Go(func() {
				defer wg.Done()
				StoreInt32(&flag, 1)
				r, d := RecvCase(ch), RecvCase(done)
				if Select(false, r, d) == 0 {
					out("woken")
				} else {
					out("missed")
				}
			})
			if LoadInt32(&flag) == 1 {
				if Select(true, SendTo(ch).Case(1)) == 0 {
					out("notified")
				} else {
					out("dropped")
				}
			} else {
				out("noflag")
			}
			Close(done)
			wg.Wait()
		}},
		{"close-under-pending-sender", func(out func(string)) {
			ch := make(chan int)
			var wg WaitGroup
			wg.Add(1)
			Go(func() {
				defer wg.Done()
				defer func() {
					if recover() != nil {
						out("panicked")
					}
				}()
				SendTo(ch).Send(1)
				out("sent")
			})
			if Select(true, RecvCase(ch)) == 0 {
				out("got")
			} else {
				out("none")
				Close(ch)
			}
			wg.Wait()
		}},
		{"select-send-or-recv", func(out func(string)) {
			a, b := make(chan int), make(chan int)
			var wg WaitGroup
			wg.Add(2)
			Go(func() { defer wg.Done(); out(fmt.Sprint("a", Select(true, SendTo(a).Case(1)))) })
			Go(func() { defer wg.Done(); out(fmt.Sprint("b", Select(true, RecvCase(b)))) })
			k := Select(true, RecvCase(a), SendTo(b).Case(2))
			out(fmt.Sprint("m", k))
			wg.Wait()
		}},
		{"cond-broadcast", func(out func(string)) {
			var mu Mutex
			c := NewCond(&mu)
			gen := 0
			var wg WaitGroup
			for i := 0; i < 2; i++ {
				wg.Add(1)
				Go(func() {
					defer wg.Done()
					mu.Lock()
					for gen == 0 {
						c.Wait()
					}
					mu.Unlock()
				})
			}
			mu.Lock()
			gen = 1
			c.Broadcast()
			mu.Unlock()
			wg.Wait()
			out("all")
		}},
		{"cond-signal-before-or-after-wait", func(out func(string)) {
			var mu Mutex
			c := NewCond(&mu)
			ready := false
			var wg WaitGroup
			wg.Add(1)
			Go(func() {
				defer wg.Done()
				mu.Lock()
				for !ready {
					c.Wait()
				}
				mu.Unlock()
				out("woke")
			})
			mu.Lock()
			ready = true
			mu.Unlock()
			c.Signal()
			wg.Wait()
		}},
	}
	for _, p := range progs {
		explored := map[string]bool{}
		res := Explore(Options{Name: "conformance/" + p.name, Bound: 3, NoRace: true}, func(r *Run) {
			var mu sync.Mutex
			var parts []string
			p.body(func(s string) { mu.Lock(); parts = append(parts, s); mu.Unlock() })
			sort.Strings(parts)
			r.Outcome("%v", parts)
		})
		if len(res.Violations) > 0 {
			t.Fatalf("%s: %v", p.name, res.Violations[0].Msgs)
		}
		for k := range res.Outcomes {
			explored[k] = true
		}
		for i := 0; i < 3000; i++ {
			var mu sync.Mutex
			var parts []string
			done := make(chan struct{})
			go func() {
				defer close(done)
				p.body(func(s string) { mu.Lock(); parts = append(parts, s); mu.Unlock() })
			}()
			select {
			case <-done:
			case <-time.After(60 * time.Second):
				t.Fatalf("%s: free run %d hung", p.name, i)
			}
			mu.Lock()
			sort.Strings(parts)
			k := fmt.Sprint(parts)
			mu.Unlock()
			if !explored[k] {
				t.Fatalf("%s: the real runtime produced outcome %s, which the exploration never saw (explored: %v)", p.name, k, res.Outcomes)
			}
		}
		t.Logf("%s: explored outcomes %v", p.name, res.Outcomes)
	}
}
