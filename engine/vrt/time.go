package vrt

import (
	"sync/atomic"
	"time"
)

// Base is the wall-clock instant of virtual time zero.
var Base = time.Date(2024, 3, 4, 10, 0, 0, 0, time.UTC)

var nowMirror atomic.Int64 // copy of s.now readable from unmanaged goroutines

func setNow(d time.Duration) {
	if d != s.now {
		s.parkEpoch++
	}
	s.now = d
	nowMirror.Store(int64(d))
}

// Elapsed returns the virtual time elapsed in the current run.
func Elapsed() time.Duration { return time.Duration(nowMirror.Load()) }

// SetClockStep makes every later clock read of this run an environment choice: the default
// answer is "no time has passed since the previous operation", the alternative (one
// deviation) is "the clock has moved on by d" - real time does not stand still between two
// reads inside one operation.  Reset at the start of every run.
func SetClockStep(d time.Duration) { s.clockStep = d }

func Now() time.Time {
	if s.clockStep > 0 {
		if t := me(); t != nil && t == s.cur && s.envChoice(2, 1) == 1 {
			target := s.now + s.clockStep
			for {
				vt := s.earliest(target, true)
				if vt == nil {
					break
				}
				s.fire(vt)
			}
			setNow(target)
		}
	}
	if s.hbOn {
		if t := me(); t != nil {
			s.acc(t, kClock, false)
		}
	}
	return Base.Add(Elapsed())
}
func Since(t time.Time) time.Duration { return Now().Sub(t) }
func Until(t time.Time) time.Duration { return t.Sub(Now()) }

type vtimer struct {
	when   time.Duration
	seq    uint64
	period time.Duration
	ch     chan time.Time
	fn     func()
	active bool
	vc     vclock // creator's clock: creating a timer happens before its firing
}

func (s *sched) addTimer(vt *vtimer) {
	if s.hbOn {
		s.acc(s.cur, kClock, true)
	}
	if race.on && s.cur != nil {
		vt.vc = vclone(s.cur.vc)
		s.cur.tick()
	}
	s.timerSeq++
	vt.seq = s.timerSeq
	vt.active = true
	s.timers = append(s.timers, vt)
}

func (s *sched) earliest(limit time.Duration, useLimit bool) *vtimer {
	var best *vtimer
	live := s.timers[:0]
	for _, vt := range s.timers {
		if !vt.active {
			continue
		}
		live = append(live, vt)
		if useLimit && vt.when > limit {
			continue
		}
		if best == nil || vt.when < best.when || vt.when == best.when && vt.seq < best.seq {
			best = vt
		}
	}
	s.timers = live
	return best
}

func (s *sched) fire(vt *vtimer) {
	if vt.when > s.now {
		setNow(vt.when)
	}
	if vt.period > 0 {
		vt.when += vt.period
	} else {
		vt.active = false
	}
	s.accSched(kClock, uint64(vt.seq))
	if race.on && vt.vc != nil {
		race.objVC[kClock] = vjoin(vclone(race.objVC[kClock]), vt.vc)
	}
	if vt.ch != nil {
		select {
		case vt.ch <- Base.Add(s.now):
		default:
		}
		s.accSched(chanID(vt.ch), 0x71)
	}
	if vt.fn != nil {
		parent := -1
		if s.cur != nil {
			parent = s.cur.id
		}
		if race.on {
			s.spawnVC = vclone(vt.vc)
		}
		s.spawn(vt.fn, "time.AfterFunc", parent)
	}
}

// fireNextTimer advances the clock to the earliest pending timer and fires it.
func (s *sched) fireNextTimer() bool {
	vt := s.earliest(0, false)
	if vt == nil {
		return false
	}
	s.fire(vt)
	return true
}

// Advance moves the virtual clock forward by d, firing every timer that falls due,
// without letting other threads run in between (tickers with a stalled consumer drop
// ticks exactly as real ones do).
func Advance(d time.Duration) {
	t := me()
	if t == nil {
		return
	}
	pt(t, "advance")
	s.acc(t, kClock, true)
	target := s.now + d
	for {
		vt := s.earliest(target, true)
		if vt == nil {
			break
		}
		s.fire(vt)
	}
	setNow(target)
}

// AdvanceSettle moves the clock forward by d in discrete-event steps: after every
// timer that fires, all other threads run to quiescence before the clock moves on.
func AdvanceSettle(d time.Duration) {
	t := me()
	if t == nil {
		return
	}
	Settle()
	s.acc(t, kClock, true)
	target := s.now + d
	for {
		vt := s.earliest(target, true)
		if vt == nil {
			break
		}
		s.fire(vt)
		Settle()
	}
	setNow(target)
	s.acc(t, kClock, true)
	Settle()
}

// PendingTimers returns the number of active virtual timers.
func PendingTimers() int {
	n := 0
	for _, vt := range s.timers {
		if vt.active {
			n++
		}
	}
	return n
}

func sleepReal() { time.Sleep(200 * time.Microsecond) }

func Sleep(d time.Duration) {
	t := me()
	if t == nil {
		time.Sleep(d)
		return
	}
	if t.killed {
		return
	}
	if d <= 0 {
		pt(t, "sleep0")
		return
	}
	vt := &vtimer{when: s.now + d}
	s.addTimer(vt)
	s.point(t, &pend{kind: opSleep, until: vt.when})
	vt.active = false
	s.acc(t, kClock, false)
}

// Timer mirrors time.Timer.
type Timer struct {
	C    <-chan time.Time
	vt   *vtimer
	real *time.Timer
}

func NewTimer(d time.Duration) *Timer {
	t := me()
	if t == nil {
		rt := time.NewTimer(d)
		return &Timer{C: rt.C, real: rt}
	}
	ch := make(chan time.Time, 1)
	vt := &vtimer{when: s.now + d, ch: ch}
	s.addTimer(vt)
	return &Timer{C: ch, vt: vt}
}

func After(d time.Duration) <-chan time.Time { return NewTimer(d).C }

func AfterFunc(d time.Duration, f func()) *Timer {
	t := me()
	if t == nil {
		return &Timer{real: time.AfterFunc(d, f)}
	}
	vt := &vtimer{when: s.now + d, fn: f}
	s.addTimer(vt)
	return &Timer{vt: vt}
}

func (tm *Timer) Stop() bool {
	if tm.real != nil {
		return tm.real.Stop()
	}
	if t := me(); t != nil && !t.killed {
		pt(t, "timer.stop")
	}
	was := tm.vt.active
	tm.vt.active = false
	if t := me(); t != nil {
		s.acc(t, kClock, true)
	}
	return was
}

func (tm *Timer) Reset(d time.Duration) bool {
	if tm.real != nil {
		return tm.real.Reset(d)
	}
	was := tm.vt.active
	tm.vt.when = s.now + d
	if t := me(); t != nil {
		s.acc(t, kClock, true)
	}
	if !was {
		if me() != nil {
			s.addTimer(tm.vt)
		}
	}
	return was
}

// Ticker mirrors time.Ticker.
type Ticker struct {
	C    <-chan time.Time
	vt   *vtimer
	real *time.Ticker
}

func NewTicker(d time.Duration) *Ticker {
	if d <= 0 {
		panic("non-positive interval for NewTicker")
	}
	t := me()
	if t == nil {
		rt := time.NewTicker(d)
		return &Ticker{C: rt.C, real: rt}
	}
	ch := make(chan time.Time, 1)
	vt := &vtimer{when: s.now + d, period: d, ch: ch}
	s.addTimer(vt)
	return &Ticker{C: ch, vt: vt}
}

func Tick(d time.Duration) <-chan time.Time {
	if d <= 0 {
		return nil
	}
	return NewTicker(d).C
}

func (tk *Ticker) Stop() {
	if tk.real != nil {
		tk.real.Stop()
		return
	}
	tk.vt.active = false
	if t := me(); t != nil {
		s.acc(t, kClock, true)
	}
}

func (tk *Ticker) Reset(d time.Duration) {
	if tk.real != nil {
		tk.real.Reset(d)
		return
	}
	tk.vt.period = d
	tk.vt.when = s.now + d
	if !tk.vt.active && me() != nil {
		s.addTimer(tk.vt)
	}
}

// RealSleep sleeps in real time (for harness code that must wait for third-party
// goroutines bound to the wall clock).
func RealSleep(d time.Duration) { time.Sleep(d) }
