module verif/engine

go 1.23
