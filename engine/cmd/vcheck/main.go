// vcheck is the driver: instrument /repo's working tree, build the harness test
// binaries through an overlay, run them sharded, merge their reports into
// /verif/evidence/<id>.json and print VIOLATION / KNOWN-FINDING lines.
package main

import (
	"encoding/json"
	"fmt"
	"os"
	"os/exec"
	"path/filepath"
	"sort"
	"strconv"
	"strings"
	"sync"
	"time"

	"verif/engine/instr"
	"verif/engine/vrt"
)

type hconfig struct {
	MapOrder    []string            `json:"map_order"`
	Quiet       []string            `json:"quiet"`
	Skip        []string            `json:"skip"`
	KeepTests   []string            `json:"keep_tests"`
	NoRace      bool                `json:"no_race"`
	Shards      map[string]int      `json:"shards"`     // tier -> processes per package
	DeadlineS   map[string]int      `json:"deadline_s"` // tier -> internal deadline
	Assumptions []string            `json:"assumptions"`
	Rule        string              `json:"rule"`
	Gomaxprocs  int                 `json:"gomaxprocs"`
	Tags        string              `json:"tags"`
	Virtual     map[string][]string `json:"virtual"`
}

type knownFile struct {
	Findings []knownFinding `json:"findings"`
	Fixed    []string       `json:"fixed"`
}

type knownFinding struct {
	Property string `json:"property"`
	Scenario string `json:"scenario"` // exact name or prefix ending in '*'
	Class    string `json:"class"`    // substring of the violation class
	What     string `json:"what"`
}

func verifDir() string {
	if d := os.Getenv("VERIF_DIR"); d != "" {
		return d
	}
	exe, err := os.Executable()
	if err == nil {
		d := filepath.Dir(filepath.Dir(exe))
		if _, err := os.Stat(filepath.Join(d, "harness")); err == nil {
			return d
		}
	}
	return "/verif"
}

func die(code int, format string, a ...any) {
	fmt.Fprintf(os.Stderr, format+"\n", a...)
	os.Exit(code)
}

func main() {
	args := os.Args[1:]
	if len(args) == 0 {
		die(2, "usage: vcheck <ID> [quick|thorough] [--replay file] [--keep] [--run regexp]")
	}
	id := args[0]
	tier := os.Getenv("VERIF_TIER")
	replay, keep, runRe := "", false, ""
	for i := 1; i < len(args); i++ {
		switch args[i] {
		case "quick", "thorough":
			tier = args[i]
		case "--replay":
			i++
			replay = args[i]
		case "--keep":
			keep = true
		case "--run":
			i++
			runRe = args[i]
		default:
			die(2, "unknown argument %q", args[i])
		}
	}
	if tier != "thorough" {
		tier = "quick"
	}
	seed := 0
	if v := os.Getenv("VERIF_SEED"); v != "" {
		seed, _ = strconv.Atoi(v)
	}
	vdir := verifDir()
	repo := os.Getenv("VERIF_REPO")
	if repo == "" {
		repo = "/repo"
	}
	start := time.Now()
	hdir := filepath.Join(vdir, "harness", strings.ToLower(id))
	var cfg hconfig
	if b, err := os.ReadFile(filepath.Join(hdir, "config.json")); err == nil {
		if err := json.Unmarshal(b, &cfg); err != nil {
			die(2, "bad config.json: %v", err)
		}
	}
	ents, err := os.ReadDir(hdir)
	if err != nil {
		die(2, "no harness for %s: %v", id, err)
	}
	var hfiles []instr.HarnessFile
	var pkgDirs []string
	for _, e := range ents {
		if !e.IsDir() {
			continue
		}
		pkgDir := strings.ReplaceAll(e.Name(), "__", "/")
		fs, _ := os.ReadDir(filepath.Join(hdir, e.Name()))
		n := 0
		for _, f := range fs {
			if strings.HasSuffix(f.Name(), ".go") {
				hfiles = append(hfiles, instr.HarnessFile{Src: filepath.Join(hdir, e.Name(), f.Name()), PkgDir: pkgDir})
				n++
			}
		}
		if n > 0 {
			pkgDirs = append(pkgDirs, pkgDir)
		}
	}
	if len(pkgDirs) == 0 {
		die(2, "harness %s has no packages", hdir)
	}
	tmp, err := os.MkdirTemp("", "vcheck-"+id+"-")
	if err != nil {
		die(2, "mktemp: %v", err)
	}
	shmBase := ""
	if st, err := os.Stat("/dev/shm"); err == nil && st.IsDir() {
		if d, err := os.MkdirTemp("/dev/shm", "vcheck-"+id+"-"); err == nil {
			shmBase = d
		}
	}
	if !keep {
		defer os.RemoveAll(tmp)
	} else {
		fmt.Fprintln(os.Stderr, "keeping", tmp)
	}
	if shmBase != "" {
		defer os.RemoveAll(shmBase)
	}
	exit := func(code int) {
		if !keep {
			os.RemoveAll(tmp)
		}
		if shmBase != "" {
			os.RemoveAll(shmBase)
		}
		os.Exit(code)
	}
	overlay, err := instr.Build(instr.Config{RepoDir: repo, VrtDir: filepath.Join(vdir, "engine", "vrt"), Harness: hfiles, OutDir: tmp,
		Virtual: cfg.Virtual, MapOrderPkgs: cfg.MapOrder, QuietPkgs: cfg.Quiet, SkipPkgs: cfg.Skip, KeepTests: cfg.KeepTests, Tags: cfg.Tags, NoRace: cfg.NoRace || os.Getenv("VERIF_NO_RACE") != ""})
	if err != nil {
		fmt.Fprintf(os.Stderr, "INFRA-ERROR instrument: %v\n", err)
		exit(2)
	}
	// build
	binDir := filepath.Join(tmp, "bin")
	os.MkdirAll(binDir, 0o755)
	type bin struct{ pkg, path string }
	var bins []bin
	var bmu sync.Mutex
	var wg sync.WaitGroup
	buildFailed := false
	for _, pd := range pkgDirs {
		wg.Add(1)
		go func(pd string) {
			defer wg.Done()
			out := filepath.Join(binDir, strings.ReplaceAll(pd, "/", "__")+".test")
			a := []string{"test", "-c", "-overlay", overlay, "-vet=off", "-o", out}
			if cfg.Tags != "" {
				a = append(a, "-tags", cfg.Tags)
			}
			a = append(a, "./"+pd)
			cmd := exec.Command("go", a...)
			cmd.Dir = repo
			cmd.Env = append(os.Environ(), "GOFLAGS=-mod=mod", "GOPROXY=off", "GOSUMDB=off", "GOTOOLCHAIN=local")
			b, err := cmd.CombinedOutput()
			bmu.Lock()
			defer bmu.Unlock()
			if err != nil {
				fmt.Fprintf(os.Stderr, "INFRA-ERROR build %s: %v\n%s\n", pd, err, b)
				buildFailed = true
				return
			}
			bins = append(bins, bin{pd, out})
		}(pd)
	}
	wg.Wait()
	if buildFailed {
		exit(2)
	}
	sort.Slice(bins, func(i, j int) bool { return bins[i].pkg < bins[j].pkg })
	buildS := time.Since(start).Seconds()

	shards := cfg.Shards[tier]
	if shards <= 0 {
		shards = 4
	}
	deadline := cfg.DeadlineS[tier]
	if deadline <= 0 {
		if tier == "quick" {
			deadline = 150
		} else {
			deadline = 1500
		}
	}
	outDir := filepath.Join(tmp, "out")
	os.MkdirAll(outDir, 0o755)
	type job struct {
		b bin
		k int
	}
	var jobs []job
	for _, b := range bins {
		for k := 0; k < shards; k++ {
			jobs = append(jobs, job{b, k})
		}
	}
	sem := make(chan struct{}, 16)
	infra := false
	var logMu sync.Mutex
	for _, j := range jobs {
		wg.Add(1)
		sem <- struct{}{}
		go func(j job) {
			defer wg.Done()
			defer func() { <-sem }()
			tag := strings.ReplaceAll(j.b.pkg, "/", "__") + "-" + strconv.Itoa(j.k)
			run := "^TestVerif"
			if runRe != "" {
				run = runRe
			}
			cmd := exec.Command(j.b.path, "-test.run", run, "-test.timeout", "0", "-test.count", "1")
			cmd.Dir = filepath.Join(repo, j.b.pkg)
			if _, err := os.Stat(cmd.Dir); err != nil {
				cmd.Dir = tmp
			}
			gmp := cfg.Gomaxprocs
			if gmp <= 0 {
				gmp = 1
			}
			scratch := filepath.Join(tmp, "scratch", tag)
			// scratch files of the harnesses (log directories, key files) live on a memory file
			// system when there is one: the rotate-logger search is bound by file system calls
			if shmBase != "" {
				scratch = filepath.Join(shmBase, tag)
			}
			os.MkdirAll(scratch, 0o755)
			cmd.Env = append(os.Environ(),
				"VRT_OUT="+outDir, "VRT_SHARD="+fmt.Sprintf("%d/%d", j.k, shards), "VRT_SHARD_TAG="+tag,
				"VERIF_TIER="+tier, "VRT_DEADLINE_S="+strconv.Itoa(deadline), "VERIF_SEED="+strconv.Itoa(seed),
				"GOMAXPROCS="+strconv.Itoa(gmp), "VRT_REPLAY="+replay, "VRT_KNOWN_FILE="+filepath.Join(vdir, "known_findings.json"), "VRT_PROPERTY="+id, "VRT_SCRATCH="+scratch, "TMPDIR="+scratch)
			b, err := cmd.CombinedOutput()
			logMu.Lock()
			defer logMu.Unlock()
			if err != nil {
				infra = true
				fmt.Fprintf(os.Stderr, "INFRA-ERROR shard %s: %v\n%s\n", tag, err, tail(string(b), 6000))
			} else if os.Getenv("VCHECK_VERBOSE") != "" {
				fmt.Fprintf(os.Stderr, "--- shard %s\n%s\n", tag, tail(string(b), 4000))
			}
		}(j)
	}
	wg.Wait()
	if infra {
		exit(2)
	}
	// merge
	var results []*vrt.Result
	var notes []string
	fs, _ := filepath.Glob(filepath.Join(outDir, "shard-*.json"))
	sort.Strings(fs)
	if len(fs) == 0 {
		fmt.Fprintln(os.Stderr, "INFRA-ERROR: no shard reports were written")
		exit(2)
	}
	for _, f := range fs {
		b, _ := os.ReadFile(f)
		var rep vrt.Report
		if err := json.Unmarshal(b, &rep); err != nil {
			fmt.Fprintf(os.Stderr, "INFRA-ERROR: bad report %s: %v\n", f, err)
			exit(2)
		}
		results = append(results, rep.Results...)
		notes = append(notes, rep.Notes...)
	}
	sort.SliceStable(results, func(i, j int) bool { return results[i].Name < results[j].Name })

	var known knownFile
	if b, err := os.ReadFile(filepath.Join(vdir, "known_findings.json")); err == nil {
		if err := json.Unmarshal(b, &known); err != nil {
			die(2, "bad known_findings.json: %v", err)
		}
	}
	nRaceScen := 0
	raceScen := []string{}
	matchKnown := func(v vrt.Violation) *knownFinding {
		for i := range known.Findings {
			k := &known.Findings[i]
			if k.Property != id {
				continue
			}
			if strings.HasSuffix(k.Scenario, "*") {
				if !strings.HasPrefix(v.Scenario, strings.TrimSuffix(k.Scenario, "*")) {
					continue
				}
			} else if k.Scenario != v.Scenario {
				continue
			}
			if k.Class != "" && !strings.Contains(v.Class, k.Class) {
				continue
			}
			return k
		}
		return nil
	}

	var states, transitions, execs, points, distinct int
	exhaustive := true
	var caps []string
	var samples []any
	var scen []map[string]any
	nviol := 0
	knownSeen := map[string]bool{}
	replayDir := filepath.Join(vdir, "replays", id)
	minBound, maxBound := 1<<30, -1
	for _, r := range results {
		states += r.States
		transitions += r.Transitions
		execs += r.Executions
		points += r.Points
		if r.Kind == "schedules" {
			distinct += r.DistinctOut
		} else {
			distinct += r.States
		}
		if !r.Exhaustive {
			exhaustive = false
			caps = append(caps, r.Name+": "+r.CapHit)
		}
		if len(samples) < 6 && len(r.Samples) > 0 {
			samples = append(samples, r.Samples[0])
		}
		if r.Kind == "schedules" {
			if r.BoundCompleted < minBound {
				minBound = r.BoundCompleted
			}
			if r.BoundCompleted > maxBound {
				maxBound = r.BoundCompleted
			}
		}
		sm := map[string]any{"name": r.Name, "kind": r.Kind, "executions": r.Executions, "states": r.States, "transitions": r.Transitions,
			"distinct_outcomes": r.DistinctOut, "exhaustive": r.Exhaustive}
		if r.Kind == "schedules" {
			sm["bound_completed"] = r.BoundCompleted
			nRaceScen++
			if len(r.RacePairs) > 0 {
				sm["race_pairs"] = r.RacePairs
				sm["race_sites_made_scheduling_points"] = r.RaceSites
				sm["race_reexplorations"] = r.RacePasses
				raceScen = append(raceScen, r.Name)
			}
		}
		if r.Kind == "histories" {
			sm["depth_completed"] = r.DepthCompleted
			sm["saturated_fixpoint"] = r.Saturated
		}
		if len(scen) < 400 {
			scen = append(scen, sm)
		}
		for _, v := range r.Violations {
			if k := matchKnown(v); k != nil {
				key := k.Scenario + "|" + k.Class
				if !knownSeen[key] {
					knownSeen[key] = true
					fmt.Printf("KNOWN-FINDING: property=%s %s\n", id, k.What)
				}
				continue
			}
			nviol++
			os.MkdirAll(replayDir, 0o755)
			rp := filepath.Join(replayDir, v.Finger+".json")
			b, _ := json.MarshalIndent(map[string]any{"property": id, "scenario": v.Scenario, "choices": v.Choices, "history": v.History,
				"class": v.Class, "msgs": v.Msgs, "log": v.Log, "tier": tier, "race_sites": v.RaceSites}, "", " ")
			os.WriteFile(rp, b, 0o644)
			fmt.Printf("VIOLATION property=%s replay=%s\n", id, rp)
			fmt.Printf("  scenario: %s\n  %s\n", v.Scenario, strings.Join(v.Msgs, "\n  "))
			if len(v.Choices) > 0 {
				fmt.Printf("  schedule: %v\n", v.Choices)
			}
			if len(v.History) > 0 {
				fmt.Printf("  history: %v\n", v.History)
			}
		}
	}
	if len(samples) == 0 {
		samples = append(samples, "no sample recorded")
	}
	cov := map[string]any{
		"states": states, "transitions": transitions, "traces_validated_against_impl": execs,
		"evaluations": execs, "distinct_nontrivial": distinct,
		"rule":    firstNonEmpty(cfg.Rule, "every explored trace is an execution of the instrumented real code; states = schedules at the largest completed bound (schedule search), canonical states (history search) or distinct non-trivial input classes (input enumeration); distinct_nontrivial = sum over scenarios of distinct observable outcomes (schedule search) or distinct canonical states / input classes"),
		"samples": samples, "exhaustive": exhaustive, "scheduling_points": points, "scenarios": len(results), "scenario_summaries": scen,
		"build_s": buildS, "shards": shards, "packages": pkgDirs,
	}
	if nRaceScen > 0 {
		cov["race_detection"] = map[string]any{
			"method":                       "plain memory accesses of the code under test are announced by the instrumenter; vector clocks over every tracked synchronisation operation; unordered conflicting accesses become scheduling points and the scenario is explored again",
			"schedule_scenarios_watched":   nRaceScen,
			"scenarios_with_racy_accesses": raceScen,
		}
	}
	if maxBound >= 0 {
		cov["preemption_bound_completed_min"] = minBound
		cov["preemption_bound_completed_max"] = maxBound
	}
	if len(caps) > 0 {
		if len(caps) > 40 {
			caps = append(caps[:40], fmt.Sprintf("... and %d more", len(caps)-40))
		}
		cov["caps_hit"] = caps
	}
	if len(notes) > 0 {
		sort.Strings(notes)
		notes = uniq(notes)
		if len(notes) > 60 {
			notes = notes[:60]
		}
		cov["notes"] = notes
	}
	ev := map[string]any{
		"property_id": id, "tier": tier, "seed": seed, "level": "model_checking", "coverage": cov,
		"assumptions": append([]string{"sequentially consistent cooperative scheduler: scheduling points at sync/atomic/channel/time operations of instrumented code; third-party calls are atomic steps"}, cfg.Assumptions...),
		"wall_s":      time.Since(start).Seconds(), "violations": nviol,
	}
	if replay == "" {
		os.MkdirAll(filepath.Join(vdir, "evidence"), 0o755)
		b, _ := json.MarshalIndent(ev, "", " ")
		if err := os.WriteFile(filepath.Join(vdir, "evidence", id+".json"), b, 0o644); err != nil {
			die(2, "write evidence: %v", err)
		}
	}
	fmt.Printf("%s %s: scenarios=%d executions=%d states=%d transitions=%d distinct_outcomes=%d exhaustive=%v violations=%d wall=%.1fs (build %.1fs)\n",
		id, tier, len(results), execs, states, transitions, distinct, exhaustive, nviol, time.Since(start).Seconds(), buildS)
	if nviol > 0 {
		exit(1)
	}
	exit(0)
}

func firstNonEmpty(a, b string) string {
	if a != "" {
		return a
	}
	return b
}

func uniq(in []string) []string {
	var out []string
	for i, s := range in {
		if i == 0 || s != in[i-1] {
			out = append(out, s)
		}
	}
	return out
}

func tail(s string, n int) string {
	if len(s) <= n {
		return s
	}
	return "...\n" + s[len(s)-n:]
}
