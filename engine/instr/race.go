package instr

import (
	"fmt"
	"go/ast"
	"go/token"
	"go/types"
	"strconv"
)

// Race instrumentation: announce the plain memory accesses of the code under test to the
// runtime (vrt.RaceR / vrt.RaceW) and split read-modify-write statements so that the write
// is announced between the load and the store.  Only accesses that are evaluated
// unconditionally by the statement are announced (nothing to the right of && / ||, nothing
// inside function literals), only through pure addressable expressions (no calls), and
// only for memory that can be shared: struct fields, slice/array elements, pointer
// targets, package-level variables and local variables captured by a function literal.

func (rw *rewriter) raceInstrument(f *ast.File, file string) {
	rw.raceFile = file
	rw.captured = map[types.Object]bool{}
	// local variables referenced from a function literal that does not declare them
	ast.Inspect(f, func(n ast.Node) bool {
		lit, ok := n.(*ast.FuncLit)
		if !ok {
			return true
		}
		ast.Inspect(lit.Body, func(m ast.Node) bool {
			id, ok := m.(*ast.Ident)
			if !ok {
				return true
			}
			v, ok := rw.info.Uses[id].(*types.Var)
			if !ok || v.IsField() || v.Pkg() == nil || v.Parent() == nil || v.Parent() == v.Pkg().Scope() {
				return true
			}
			if v.Pos() < lit.Pos() || v.Pos() >= lit.End() {
				rw.captured[v] = true
			}
			return true
		})
		return true
	})
	ast.Inspect(f, func(n ast.Node) bool {
		switch b := n.(type) {
		case *ast.BlockStmt:
			b.List = rw.raceList(b.List)
		case *ast.CaseClause:
			b.Body = rw.raceList(b.Body)
		case *ast.CommClause:
			b.Body = rw.raceList(b.Body)
		}
		return true
	})
}

func (rw *rewriter) site(p token.Pos) ast.Expr {
	return &ast.BasicLit{Kind: token.STRING, Value: strconv.Quote(fmt.Sprintf("%s:%d", rw.raceFile, rw.fset.Position(p).Line))}
}

func (rw *rewriter) announce(fn string, e ast.Expr, pos token.Pos) ast.Stmt {
	return &ast.ExprStmt{X: rw.call(rw.v(fn), &ast.UnaryExpr{Op: token.AND, X: e}, rw.site(pos))}
}

// loadedKind: reading the expression loads a reference that is then followed
func loadedKind(t types.Type) bool {
	if t == nil {
		return false
	}
	switch coreType(t).(type) {
	case *types.Pointer, *types.Slice, *types.Map, *types.Chan, *types.Interface, *types.Signature:
		return true
	}
	return false
}

// accessible reports whether e denotes shared-able memory that can be announced.
func (rw *rewriter) accessible(e ast.Expr) bool {
	e = unparen(e)
	tv, ok := rw.info.Types[e]
	if !ok || !tv.Addressable() || tv.IsType() || tv.Value != nil || !pureExpr(e) {
		return false
	}
	switch n := e.(type) {
	case *ast.Ident:
		if n.Name == "_" {
			return false
		}
		v, ok := rw.info.Uses[n].(*types.Var)
		if !ok || v.IsField() || v.Pkg() == nil {
			return false
		}
		return v.Parent() == v.Pkg().Scope() || rw.captured[v]
	case *ast.SelectorExpr:
		if sel, ok := rw.info.Selections[n]; ok {
			return sel.Kind() == types.FieldVal
		}
		// qualified identifier: a package-level variable of another package
		if v, ok := rw.info.Uses[n.Sel].(*types.Var); ok && !v.IsField() {
			return v.Pkg() != nil && v.Parent() == v.Pkg().Scope() && v.Pkg().Path() != VrtPath
		}
		return false
	case *ast.StarExpr:
		return true
	case *ast.IndexExpr:
		t := rw.info.TypeOf(n.X)
		if t == nil {
			return false
		}
		switch ct := coreType(t).(type) {
		case *types.Slice, *types.Array:
			return true
		case *types.Pointer:
			_, ok := coreType(ct.Elem()).(*types.Array)
			return ok
		}
	}
	return false
}

// reads collects the accesses e performs unconditionally.  inner: e is only traversed to
// reach something else, so it counts only if it loads a reference.
func (rw *rewriter) reads(e ast.Expr, inner bool, out *[]ast.Expr) {
	if e == nil {
		return
	}
	if tv, ok := rw.info.Types[e]; ok && (tv.IsType() || tv.Value != nil) {
		return
	}
	switch n := e.(type) {
	case *ast.ParenExpr:
		rw.reads(n.X, inner, out)
	case *ast.BinaryExpr:
		rw.reads(n.X, false, out)
		if n.Op != token.LAND && n.Op != token.LOR {
			rw.reads(n.Y, false, out)
		}
	case *ast.UnaryExpr:
		if n.Op == token.AND {
			// taking an address reads nothing of the operand itself, only what leads to it
			switch x := unparen(n.X).(type) {
			case *ast.SelectorExpr:
				rw.reads(x.X, true, out)
			case *ast.IndexExpr:
				rw.reads(x.X, true, out)
				rw.reads(x.Index, false, out)
			case *ast.StarExpr:
				rw.reads(x.X, false, out)
			}
			return
		}
		rw.reads(n.X, false, out)
	case *ast.CallExpr:
		switch fn := unparen(n.Fun).(type) {
		case *ast.Ident:
		case *ast.SelectorExpr:
			if _, isMethod := rw.info.Selections[fn]; !isMethod {
				// pkg.Func or a conversion to pkg.Type: nothing to read in Fun
			}
		default:
			rw.reads(n.Fun, false, out)
		}
		for _, a := range n.Args {
			rw.reads(a, false, out)
		}
	case *ast.CompositeLit:
		_, isStruct := coreType(rw.info.TypeOf(n)).(*types.Struct)
		for _, el := range n.Elts {
			if kv, ok := el.(*ast.KeyValueExpr); ok {
				if !isStruct {
					rw.reads(kv.Key, false, out)
				}
				rw.reads(kv.Value, false, out)
			} else {
				rw.reads(el, false, out)
			}
		}
	case *ast.TypeAssertExpr:
		rw.reads(n.X, false, out)
	case *ast.SliceExpr:
		rw.reads(n.X, false, out)
		rw.reads(n.Low, false, out)
		rw.reads(n.High, false, out)
		rw.reads(n.Max, false, out)
	case *ast.Ident, *ast.SelectorExpr, *ast.StarExpr, *ast.IndexExpr:
		if rw.accessible(e) && (!inner || loadedKind(rw.info.TypeOf(e))) {
			*out = append(*out, e)
		}
		switch x := e.(type) {
		case *ast.SelectorExpr:
			if _, isField := rw.info.Selections[x]; isField {
				rw.reads(x.X, true, out)
			}
		case *ast.StarExpr:
			rw.reads(x.X, false, out)
		case *ast.IndexExpr:
			rw.reads(x.X, true, out)
			rw.reads(x.Index, false, out)
		}
	}
}

// leads: what must be read to reach the location e (for a write to e).
func (rw *rewriter) leads(e ast.Expr, out *[]ast.Expr) {
	switch x := unparen(e).(type) {
	case *ast.SelectorExpr:
		if _, isField := rw.info.Selections[x]; isField {
			rw.reads(x.X, true, out)
		}
	case *ast.StarExpr:
		rw.reads(x.X, false, out)
	case *ast.IndexExpr:
		rw.reads(x.X, true, out)
		rw.reads(x.Index, false, out)
	}
}

var opOfAssign = map[token.Token]token.Token{
	token.ADD_ASSIGN: token.ADD, token.SUB_ASSIGN: token.SUB, token.MUL_ASSIGN: token.MUL, token.QUO_ASSIGN: token.QUO,
	token.REM_ASSIGN: token.REM, token.AND_ASSIGN: token.AND, token.OR_ASSIGN: token.OR, token.XOR_ASSIGN: token.XOR,
	token.SHL_ASSIGN: token.SHL, token.SHR_ASSIGN: token.SHR, token.AND_NOT_ASSIGN: token.AND_NOT,
}

func (rw *rewriter) raceList(list []ast.Stmt) []ast.Stmt {
	var out []ast.Stmt
	emitReads := func(es []ast.Expr, pos token.Pos) {
		seen := map[string]bool{}
		for _, e := range es {
			k := types.ExprString(e)
			if seen[k] {
				continue
			}
			seen[k] = true
			out = append(out, rw.announce("RaceR", e, pos))
		}
	}
	for _, st := range list {
		switch n := st.(type) {
		case *ast.IncDecStmt:
			if rw.accessible(n.X) {
				var rs []ast.Expr
				rw.leads(n.X, &rs)
				rs = append(rs, n.X)
				emitReads(rs, n.Pos())
				tmp := rw.fresh("rmw")
				op := token.ADD
				if n.Tok == token.DEC {
					op = token.SUB
				}
				out = append(out,
					&ast.AssignStmt{Lhs: []ast.Expr{tmp}, Tok: token.DEFINE, Rhs: []ast.Expr{n.X}},
					rw.announce("RaceW", n.X, n.Pos()),
					&ast.AssignStmt{Lhs: []ast.Expr{n.X}, Tok: token.ASSIGN, Rhs: []ast.Expr{&ast.BinaryExpr{X: tmp, Op: op, Y: &ast.BasicLit{Kind: token.INT, Value: "1"}}}})
				continue
			}
		case *ast.AssignStmt:
			if op, isOp := opOfAssign[n.Tok]; isOp && len(n.Lhs) == 1 && len(n.Rhs) == 1 && rw.accessible(n.Lhs[0]) {
				var rs []ast.Expr
				rw.leads(n.Lhs[0], &rs)
				rs = append(rs, n.Lhs[0])
				rw.reads(n.Rhs[0], false, &rs)
				emitReads(rs, n.Pos())
				tmp := rw.fresh("rmw")
				out = append(out,
					&ast.AssignStmt{Lhs: []ast.Expr{tmp}, Tok: token.DEFINE, Rhs: []ast.Expr{&ast.BinaryExpr{X: n.Lhs[0], Op: op, Y: &ast.ParenExpr{X: n.Rhs[0]}}}},
					rw.announce("RaceW", n.Lhs[0], n.Pos()),
					&ast.AssignStmt{Lhs: []ast.Expr{n.Lhs[0]}, Tok: token.ASSIGN, Rhs: []ast.Expr{tmp}})
				continue
			}
			var rs []ast.Expr
			for _, r := range n.Rhs {
				rw.reads(r, false, &rs)
			}
			if n.Tok == token.ASSIGN {
				for _, l := range n.Lhs {
					rw.leads(l, &rs)
				}
			}
			// x.f = <expression reading shared memory>: the write is announced between
			// the evaluation and the store
			if n.Tok == token.ASSIGN && len(n.Lhs) == 1 && len(n.Rhs) == 1 && len(rs) > 0 && rw.accessible(n.Lhs[0]) {
				lt, rt := rw.info.TypeOf(n.Lhs[0]), rw.info.TypeOf(n.Rhs[0])
				if lt != nil && rt != nil && types.Identical(lt, rt) {
					if b, ok := rt.(*types.Basic); !ok || b.Info()&types.IsUntyped == 0 {
						emitReads(rs, n.Pos())
						tmp := rw.fresh("val")
						out = append(out,
							&ast.AssignStmt{Lhs: []ast.Expr{tmp}, Tok: token.DEFINE, Rhs: []ast.Expr{n.Rhs[0]}},
							rw.announce("RaceW", n.Lhs[0], n.Pos()),
							&ast.AssignStmt{Lhs: []ast.Expr{n.Lhs[0]}, Tok: token.ASSIGN, Rhs: []ast.Expr{tmp}})
						continue
					}
				}
			}
			emitReads(rs, n.Pos())
			if n.Tok == token.ASSIGN {
				for _, l := range n.Lhs {
					if rw.accessible(l) {
						out = append(out, rw.announce("RaceW", l, n.Pos()))
					}
				}
			}
		case *ast.ExprStmt:
			var rs []ast.Expr
			rw.reads(n.X, false, &rs)
			emitReads(rs, n.Pos())
		case *ast.ReturnStmt:
			var rs []ast.Expr
			for _, r := range n.Results {
				rw.reads(r, false, &rs)
			}
			emitReads(rs, n.Pos())
		case *ast.SendStmt:
			var rs []ast.Expr
			rw.reads(n.Chan, false, &rs)
			rw.reads(n.Value, false, &rs)
			emitReads(rs, n.Pos())
		case *ast.GoStmt:
			var rs []ast.Expr
			rw.reads(n.Call, false, &rs)
			emitReads(rs, n.Pos())
		case *ast.DeferStmt:
			var rs []ast.Expr
			rw.reads(n.Call, false, &rs)
			emitReads(rs, n.Pos())
		case *ast.IfStmt:
			if n.Init == nil {
				var rs []ast.Expr
				rw.reads(n.Cond, false, &rs)
				emitReads(rs, n.Pos())
			}
		case *ast.SwitchStmt:
			if n.Init == nil && n.Tag != nil {
				var rs []ast.Expr
				rw.reads(n.Tag, false, &rs)
				emitReads(rs, n.Pos())
			}
		case *ast.RangeStmt:
			var rs []ast.Expr
			rw.reads(n.X, false, &rs)
			emitReads(rs, n.Pos())
		}
		out = append(out, st)
	}
	return out
}
