package instr

import (
	"bytes"
	"encoding/json"
	"fmt"
	"go/ast"
	"go/importer"
	"go/parser"
	"go/printer"
	"go/token"
	"go/types"
	"io"
	"os"
	"os/exec"
	"path/filepath"
	"sort"
	"strings"

	"golang.org/x/tools/go/ast/astutil"
)

// HarnessFile is a harness source file to be compiled into a repo package.
type HarnessFile struct {
	Src    string // absolute path under /verif/harness
	PkgDir string // repo-relative package directory, e.g. "lib/mr"
}

type Config struct {
	RepoDir      string
	Module       string // module path of the repo ("" = read from go.mod)
	VrtDir       string
	Harness      []HarnessFile
	OutDir       string
	Patterns     []string // go list patterns relative to RepoDir; default: harness package dirs
	NoRace       bool     // do not announce plain memory accesses (data-race detection off)
	MapOrderPkgs []string // repo-relative dirs whose map ranges are made deterministic/enumerable
	QuietPkgs    []string // repo-relative dirs whose functions run without plain scheduling points
	SkipPkgs     []string // repo-relative dirs left un-instrumented
	KeepTests    []string // repo-relative dirs whose existing _test.go files are kept (default: removed in harness dirs)
	Tags         string
	Verbose      bool
	// Virtual maps a virtual package directory (repo-relative, not on disk) to the
	// repo-relative source files overlaid into it (used for leaf packages of nested
	// modules that cannot be built in place offline).
	Virtual map[string][]string
}

type listPkg struct {
	Dir         string
	ImportPath  string
	Name        string
	Export      string
	Standard    bool
	ForTest     string
	GoFiles     []string
	CgoFiles    []string
	TestGoFiles []string
	Module      *struct{ Path, Dir, GoVersion string }
	Error       *struct{ Err string }
	DepsErrors  []*struct{ Err string }
}

type Overlay struct {
	Replace map[string]string
}

func env() []string {
	e := os.Environ()
	e = append(e, "GOFLAGS=-mod=mod", "GOPROXY=off", "GOSUMDB=off", "GOTOOLCHAIN=local")
	return e
}

// Build instruments the closure of the harness packages and returns the overlay path.
func Build(cfg Config) (string, error) {
	repo := cfg.RepoDir
	if cfg.Module == "" {
		b, err := os.ReadFile(filepath.Join(repo, "go.mod"))
		if err != nil {
			return "", err
		}
		for _, ln := range strings.Split(string(b), "\n") {
			if strings.HasPrefix(ln, "module ") {
				cfg.Module = strings.TrimSpace(strings.TrimPrefix(ln, "module "))
			}
		}
	}
	vrtPath := cfg.Module // the module root directory holds no Go files: the runtime is overlaid there (a real directory is needed for its assembly file)
	ov := Overlay{Replace: map[string]string{}}
	// runtime
	ents, err := os.ReadDir(cfg.VrtDir)
	if err != nil {
		return "", err
	}
	for _, e := range ents {
		if (strings.HasSuffix(e.Name(), ".go") && !strings.HasSuffix(e.Name(), "_test.go")) || strings.HasSuffix(e.Name(), ".s") {
			ov.Replace[filepath.Join(repo, "zzvrt_"+e.Name())] = filepath.Join(cfg.VrtDir, e.Name())
		}
	}
	// harness files + removal of existing tests in those dirs
	harnessDirs := map[string]bool{}
	virt := map[string]HarnessFile{} // virtual path -> source
	keep := map[string]bool{}
	for _, k := range cfg.KeepTests {
		keep[k] = true
	}
	for _, h := range cfg.Harness {
		harnessDirs[h.PkgDir] = true
		name := "zzverif_" + strings.TrimSuffix(filepath.Base(h.Src), ".go")
		if !strings.HasSuffix(name, "_test") {
			name += "_test"
		}
		vp := filepath.Join(repo, h.PkgDir, name+".go")
		virt[vp] = h
		ov.Replace[vp] = h.Src
	}
	for vd, files := range cfg.Virtual {
		for _, f := range files {
			ov.Replace[filepath.Join(repo, vd, filepath.Base(f))] = filepath.Join(repo, f)
		}
	}
	for d := range harnessDirs {
		if keep[d] {
			continue
		}
		if _, isVirtual := cfg.Virtual[d]; isVirtual {
			continue
		}
		ents, err := os.ReadDir(filepath.Join(repo, d))
		if err != nil {
			return "", fmt.Errorf("harness package dir %s: %w", d, err)
		}
		for _, e := range ents {
			if strings.HasSuffix(e.Name(), "_test.go") {
				ov.Replace[filepath.Join(repo, d, e.Name())] = ""
			}
		}
	}
	if err := os.MkdirAll(cfg.OutDir, 0o755); err != nil {
		return "", err
	}
	basePath := filepath.Join(cfg.OutDir, "overlay-base.json")
	if err := writeJSON(basePath, ov); err != nil {
		return "", err
	}
	patterns := cfg.Patterns
	if len(patterns) == 0 {
		for d := range harnessDirs {
			patterns = append(patterns, "./"+d)
		}
		sort.Strings(patterns)
	}
	args := []string{"list", "-overlay", basePath, "-deps", "-test", "-export", "-json=Dir,ImportPath,Name,Export,Standard,ForTest,GoFiles,CgoFiles,TestGoFiles,Module,Error,DepsErrors"}
	if cfg.Tags != "" {
		args = append(args, "-tags", cfg.Tags)
	}
	args = append(args, patterns...)
	cmd := exec.Command("go", args...)
	cmd.Dir = repo
	cmd.Env = env()
	var stderr bytes.Buffer
	cmd.Stderr = &stderr
	out, err := cmd.Output()
	if err != nil {
		return "", fmt.Errorf("go list failed: %v\n%s", err, stderr.String())
	}
	dec := json.NewDecoder(bytes.NewReader(out))
	pkgs := map[string]*listPkg{}
	var order, variants []*listPkg
	for {
		var p listPkg
		if err := dec.Decode(&p); err == io.EOF {
			break
		} else if err != nil {
			return "", err
		}
		if p.Error != nil {
			return "", fmt.Errorf("go list: package %s: %s", p.ImportPath, p.Error.Err)
		}
		if p.ForTest != "" || strings.HasSuffix(p.ImportPath, ".test") || strings.Contains(p.ImportPath, " [") {
			if i := strings.Index(p.ImportPath, " ["); i > 0 && p.Name != "main" && !strings.HasSuffix(p.Name, "_test") {
				pv := p
				pv.ImportPath = p.ImportPath[:i]
				variants = append(variants, &pv)
			}
			continue
		}
		pp := p
		pkgs[p.ImportPath] = &pp
		order = append(order, &pp)
	}
	// a package that imports the package under test is listed only as its recompiled
	// test variant ("q [p.test]", reached from p's external test package): it is part of
	// the build and must be instrumented like any other
	for _, pv := range variants {
		if _, ok := pkgs[pv.ImportPath]; !ok {
			pkgs[pv.ImportPath] = pv
			order = append(order, pv)
		}
	}
	exports := map[string]string{}
	for ip, p := range pkgs {
		if p.Export != "" {
			exports[ip] = p.Export
		}
	}
	fset := token.NewFileSet()
	imp := importer.ForCompiler(fset, "gc", func(path string) (io.ReadCloser, error) {
		f, ok := exports[path]
		if !ok {
			return nil, fmt.Errorf("no export data for %q", path)
		}
		return os.Open(f)
	})
	inSet := func(list []string, rel string) bool {
		for _, x := range list {
			if x == rel || (strings.HasSuffix(x, "/...") && strings.HasPrefix(rel+"/", strings.TrimSuffix(x, "..."))) {
				return true
			}
		}
		return false
	}
	nfiles := 0
	for _, p := range order {
		if p.Standard || p.Module == nil || p.Module.Path != cfg.Module || p.ImportPath == vrtPath {
			continue
		}
		rel, _ := filepath.Rel(repo, p.Dir)
		if inSet(cfg.SkipPkgs, rel) {
			continue
		}
		if len(p.CgoFiles) > 0 {
			continue
		}
		files := append([]string{}, p.GoFiles...)
		if harnessDirs[rel] {
			files = append(files, p.TestGoFiles...)
		}
		var parsed []*ast.File
		var paths []string
		for _, fn := range files {
			abs := filepath.Join(p.Dir, fn)
			src := abs
			if r, ok := ov.Replace[abs]; ok {
				if r == "" {
					continue
				}
				src = r
			}
			b, err := os.ReadFile(src)
			if err != nil {
				return "", err
			}
			af, err := parser.ParseFile(fset, abs, b, parser.ParseComments|parser.SkipObjectResolution)
			if err != nil {
				return "", fmt.Errorf("parse %s: %v", src, err)
			}
			parsed = append(parsed, af)
			paths = append(paths, abs)
		}
		info := &types.Info{
			Types:      map[ast.Expr]types.TypeAndValue{},
			Uses:       map[*ast.Ident]types.Object{},
			Defs:       map[*ast.Ident]types.Object{},
			Implicits:  map[ast.Node]types.Object{},
			Selections: map[*ast.SelectorExpr]*types.Selection{},
		}
		var terrs []string
		tc := types.Config{Importer: imp, Error: func(err error) { terrs = append(terrs, err.Error()) }}
		if p.Module.GoVersion != "" {
			tc.GoVersion = "go" + p.Module.GoVersion
		}
		tc.Check(p.ImportPath, fset, parsed, info)
		if len(terrs) > 0 {
			return "", fmt.Errorf("type-check %s: %s", p.ImportPath, strings.Join(terrs[:min(len(terrs), 5)], "; "))
		}
		for i, af := range parsed {
			rw := &rewriter{fset: fset, info: info, vrt: "vrt", mapOrder: inSet(cfg.MapOrderPkgs, rel), quiet: inSet(cfg.QuietPkgs, rel),
				commRecv: map[*ast.UnaryExpr]bool{}, recv2: map[*ast.UnaryExpr]bool{}, rangeKind: map[*ast.RangeStmt]byte{}, genBlocks: map[*ast.BlockStmt]bool{}}
			// does the file already import vrt?
			hasVrt := false
			for _, is := range af.Imports {
				if strings.Trim(is.Path.Value, `"`) == vrtPath {
					hasVrt = true
					if is.Name != nil {
						rw.vrt = is.Name.Name
					}
				}
			}
			rw.race = !cfg.NoRace && !strings.HasPrefix(filepath.Base(paths[i]), "zzverif_") && !strings.HasSuffix(paths[i], "_test.go")
			rw.raceFile = filepath.Join(rel, filepath.Base(paths[i]))
			rw.rewriteFile(af)
			if len(rw.errs) > 0 {
				return "", fmt.Errorf("instrument %s: %s", paths[i], strings.Join(rw.errs, "; "))
			}
			if !rw.used {
				continue // untouched: original file stays
			}
			if !hasVrt {
				astutil.AddNamedImport(fset, af, "vrt", vrtPath)
			}
			fixImports(af, info)
			af.Comments = keepDirectives(af)
			var buf bytes.Buffer
			if err := (&printer.Config{Mode: printer.UseSpaces | printer.TabIndent, Tabwidth: 8}).Fprint(&buf, fset, af); err != nil {
				return "", fmt.Errorf("print %s: %v", paths[i], err)
			}
			dst := filepath.Join(cfg.OutDir, "src", rel, filepath.Base(paths[i]))
			if err := os.MkdirAll(filepath.Dir(dst), 0o755); err != nil {
				return "", err
			}
			if err := os.WriteFile(dst, buf.Bytes(), 0o644); err != nil {
				return "", err
			}
			ov.Replace[paths[i]] = dst
			nfiles++
		}
	}
	if cfg.Verbose {
		fmt.Fprintf(os.Stderr, "instr: %d files rewritten\n", nfiles)
	}
	final := filepath.Join(cfg.OutDir, "overlay.json")
	if err := writeJSON(final, ov); err != nil {
		return "", err
	}
	return final, nil
}

func writeJSON(path string, v any) error {
	b, err := json.MarshalIndent(v, "", " ")
	if err != nil {
		return err
	}
	return os.WriteFile(path, b, 0o644)
}

// fixImports blanks imports that the rewrite left without any use.
func fixImports(f *ast.File, info *types.Info) {
	used := map[*types.PkgName]bool{}
	ast.Inspect(f, func(n ast.Node) bool {
		if id, ok := n.(*ast.Ident); ok {
			if pn, ok := info.Uses[id].(*types.PkgName); ok {
				used[pn] = true
			}
		}
		return true
	})
	for _, is := range f.Imports {
		if is.Name != nil && (is.Name.Name == "_" || is.Name.Name == ".") {
			continue
		}
		var pn *types.PkgName
		if is.Name != nil {
			pn, _ = info.Defs[is.Name].(*types.PkgName)
		} else {
			pn, _ = info.Implicits[is].(*types.PkgName)
		}
		if pn == nil {
			continue // added by us
		}
		if !used[pn] {
			is.Name = ast.NewIdent("_")
		}
	}
}

func keepDirectives(f *ast.File) []*ast.CommentGroup {
	var out []*ast.CommentGroup
	for _, cg := range f.Comments {
		keep := false
		for _, c := range cg.List {
			if strings.HasPrefix(c.Text, "//go:") || strings.HasPrefix(c.Text, "// +build") || strings.HasPrefix(c.Text, "//line") || strings.HasPrefix(c.Text, "//export") {
				keep = true
			}
		}
		if cg.End() < f.Package && keep {
			out = append(out, cg)
			continue
		}
		if keep {
			// keep only the directive lines
			var l []*ast.Comment
			for _, c := range cg.List {
				if strings.HasPrefix(c.Text, "//go:") || strings.HasPrefix(c.Text, "//export") {
					l = append(l, c)
				}
			}
			out = append(out, &ast.CommentGroup{List: l})
		}
	}
	return out
}
