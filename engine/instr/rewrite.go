package instr

import (
	"fmt"
	"go/ast"
	"go/token"
	"go/types"
	"strconv"

	"golang.org/x/tools/go/ast/astutil"
)

// VrtPath is the import path the runtime is overlaid at.
const VrtPath = "github.com/gotid/god"

var pkgMaps = map[string]map[string]string{
	"sync":        nil, // nil = every member, same name
	"sync/atomic": nil,
	"time": {
		"Now": "Now", "Since": "Since", "Until": "Until", "Sleep": "Sleep", "After": "After",
		"AfterFunc": "AfterFunc", "NewTimer": "NewTimer", "NewTicker": "NewTicker", "Tick": "Tick",
		"Timer": "Timer", "Ticker": "Ticker",
	},
	"context": {"WithCancel": "WithCancel", "WithTimeout": "WithTimeout", "WithDeadline": "WithDeadline"},
	"math/rand": {
		"NewSource": "RandNewSource", "Seed": "RandSeed", "Int": "RandInt", "Intn": "RandIntn", "Int31": "RandInt31",
		"Int31n": "RandInt31n", "Int63": "RandInt63", "Int63n": "RandInt63n", "Uint32": "RandUint32", "Uint64": "RandUint64",
		"Float64": "RandFloat64", "Float32": "RandFloat32", "Perm": "RandPerm", "Shuffle": "RandShuffle", "Read": "RandRead",
	},
	"runtime": {"Gosched": "Gosched"},
	// file-system operations are scheduling points (the calls themselves stay real)
	"os":            {"Create": "OsCreate", "Open": "OsOpen", "OpenFile": "OsOpenFile", "Remove": "OsRemove", "RemoveAll": "OsRemoveAll", "Rename": "OsRename", "Stat": "OsStat"},
	"path/filepath": {"Glob": "FilepathGlob"},
}

type rewriter struct {
	fset     *token.FileSet
	info     *types.Info
	vrt      string
	used     bool
	tmp      int
	mapOrder bool
	quiet    bool
	race     bool
	raceFile string
	captured map[types.Object]bool

	commRecv  map[*ast.UnaryExpr]bool // receive that is the comm of a select clause
	recv2     map[*ast.UnaryExpr]bool // receive in value,ok context
	rangeKind map[*ast.RangeStmt]byte // 'c' chan, 'm' map
	genBlocks map[*ast.BlockStmt]bool
	errs      []string
}

func (rw *rewriter) v(name string) ast.Expr {
	rw.used = true
	return &ast.SelectorExpr{X: ast.NewIdent(rw.vrt), Sel: ast.NewIdent(name)}
}

func (rw *rewriter) call(fn ast.Expr, args ...ast.Expr) *ast.CallExpr {
	return &ast.CallExpr{Fun: fn, Args: args}
}

func (rw *rewriter) fresh(prefix string) *ast.Ident {
	rw.tmp++
	return ast.NewIdent("_vrt" + prefix + strconv.Itoa(rw.tmp))
}

func (rw *rewriter) isChan(e ast.Expr) bool {
	t := rw.info.TypeOf(e)
	if t == nil {
		return false
	}
	_, ok := coreType(t).(*types.Chan)
	return ok
}

func coreType(t types.Type) types.Type {
	if tp, ok := t.(*types.TypeParam); ok {
		// single-type constraint only
		if iface, ok := tp.Constraint().Underlying().(*types.Interface); ok && iface.NumEmbeddeds() == 1 {
			if u, ok := iface.EmbeddedType(0).(*types.Union); ok && u.Len() == 1 {
				return u.Term(0).Type().Underlying()
			}
		}
	}
	return t.Underlying()
}

func (rw *rewriter) prepass(f *ast.File) {
	ast.Inspect(f, func(n ast.Node) bool {
		switch n := n.(type) {
		case *ast.SelectStmt:
			for _, cl := range n.Body.List {
				cc := cl.(*ast.CommClause)
				switch comm := cc.Comm.(type) {
				case *ast.ExprStmt:
					if u, ok := unparen(comm.X).(*ast.UnaryExpr); ok && u.Op == token.ARROW {
						rw.commRecv[u] = true
					}
				case *ast.AssignStmt:
					if len(comm.Rhs) == 1 {
						if u, ok := unparen(comm.Rhs[0]).(*ast.UnaryExpr); ok && u.Op == token.ARROW {
							rw.commRecv[u] = true
						}
					}
				}
			}
		case *ast.AssignStmt:
			if len(n.Lhs) == 2 && len(n.Rhs) == 1 {
				if u, ok := unparen(n.Rhs[0]).(*ast.UnaryExpr); ok && u.Op == token.ARROW {
					rw.recv2[u] = true
				}
			}
		case *ast.ValueSpec:
			if len(n.Names) == 2 && len(n.Values) == 1 {
				if u, ok := unparen(n.Values[0]).(*ast.UnaryExpr); ok && u.Op == token.ARROW {
					rw.recv2[u] = true
				}
			}
		case *ast.RangeStmt:
			t := rw.info.TypeOf(n.X)
			if t != nil {
				switch coreType(t).(type) {
				case *types.Chan:
					rw.rangeKind[n] = 'c'
				case *types.Map:
					// interface-typed keys do not satisfy `comparable` before go1.20: left alone
					if mt := coreType(t).(*types.Map); !types.IsInterface(mt.Key()) {
						rw.rangeKind[n] = 'm'
					}
				}
			}
		}
		return true
	})
}

func unparen(e ast.Expr) ast.Expr {
	for {
		p, ok := e.(*ast.ParenExpr)
		if !ok {
			return e
		}
		e = p.X
	}
}

func (rw *rewriter) rewriteFile(f *ast.File) {
	if rw.race {
		rw.raceInstrument(f, rw.raceFile)
	}
	rw.prepass(f)
	astutil.Apply(f, nil, rw.post)
}

func (rw *rewriter) post(c *astutil.Cursor) bool {
	switch n := c.Node().(type) {
	case *ast.SelectorExpr:
		id, ok := n.X.(*ast.Ident)
		if !ok {
			break
		}
		pn, ok := rw.info.Uses[id].(*types.PkgName)
		if !ok {
			break
		}
		m, known := pkgMaps[pn.Imported().Path()]
		if !known {
			break
		}
		name := n.Sel.Name
		if m != nil {
			nn, ok := m[name]
			if !ok {
				break
			}
			name = nn
		}
		c.Replace(rw.v(name))

	case *ast.SendStmt:
		if _, ok := c.Parent().(*ast.CommClause); ok && c.Name() == "Comm" {
			break
		}
		c.Replace(&ast.ExprStmt{X: rw.call(&ast.SelectorExpr{X: rw.call(rw.v("SendTo"), n.Chan), Sel: ast.NewIdent("Send")}, n.Value)})

	case *ast.UnaryExpr:
		if n.Op != token.ARROW || rw.commRecv[n] {
			break
		}
		if rw.recv2[n] {
			c.Replace(rw.call(rw.v("Recv2"), n.X))
		} else {
			c.Replace(rw.call(rw.v("Recv"), n.X))
		}

	case *ast.CallExpr:
		if id, ok := n.Fun.(*ast.Ident); ok && id.Name == "close" {
			if _, ok := rw.info.Uses[id].(*types.Builtin); ok {
				n.Fun = rw.v("Close")
			}
		}

	case *ast.GoStmt:
		c.Replace(rw.goStmt(n))

	case *ast.RangeStmt:
		switch rw.rangeKind[n] {
		case 'c':
			c.Replace(rw.rangeChan(n))
		case 'm':
			if rw.mapOrder {
				if r := rw.rangeMap(n); r != nil {
					c.Replace(r)
				}
			}
		}

	case *ast.SelectStmt:
		c.Replace(rw.selectStmt(n))

	case *ast.FuncDecl:
		if rw.quiet && n.Body != nil {
			rw.addQuiet(n.Body)
		}
	case *ast.FuncLit:
		if rw.quiet && n.Body != nil {
			rw.addQuiet(n.Body)
		}
	}
	return true
}

func (rw *rewriter) addQuiet(b *ast.BlockStmt) {
	d := &ast.DeferStmt{Call: rw.call(rw.call(rw.v("Quiet")))}
	b.List = append([]ast.Stmt{d}, b.List...)
}

func (rw *rewriter) goStmt(n *ast.GoStmt) ast.Stmt {
	call := n.Call
	if fl, ok := call.Fun.(*ast.FuncLit); ok && len(call.Args) == 0 {
		return &ast.ExprStmt{X: rw.call(rw.v("Go"), fl)}
	}
	var lhs, rhs []ast.Expr
	fun := call.Fun
	if !rw.isStaticFunc(fun) {
		id := rw.fresh("f")
		lhs = append(lhs, id)
		rhs = append(rhs, fun)
		fun = id
	}
	args := make([]ast.Expr, len(call.Args))
	for i, a := range call.Args {
		tv, known := rw.info.Types[a]
		inline := false
		if known {
			if tv.Value != nil || tv.IsNil() {
				inline = true
			} else if b, ok := tv.Type.(*types.Basic); ok && b.Info()&types.IsUntyped != 0 {
				inline = true
			} else if _, ok := tv.Type.(*types.Tuple); ok {
				inline = true
			}
		}
		if inline {
			args[i] = a
			continue
		}
		id := rw.fresh("a")
		lhs = append(lhs, id)
		rhs = append(rhs, a)
		args[i] = id
	}
	inner := &ast.CallExpr{Fun: fun, Args: args, Ellipsis: call.Ellipsis}
	if call.Ellipsis.IsValid() {
		inner.Ellipsis = token.Pos(1)
	}
	goCall := &ast.ExprStmt{X: rw.call(rw.v("Go"), &ast.FuncLit{
		Type: &ast.FuncType{Params: &ast.FieldList{}},
		Body: &ast.BlockStmt{List: []ast.Stmt{&ast.ExprStmt{X: inner}}},
	})}
	if len(lhs) == 0 {
		return goCall
	}
	return &ast.BlockStmt{List: []ast.Stmt{
		&ast.AssignStmt{Lhs: lhs, Tok: token.DEFINE, Rhs: rhs},
		goCall,
	}}
}

// isStaticFunc reports whether e denotes a package-level function (no evaluation
// needed at go-statement time).
func (rw *rewriter) isStaticFunc(e ast.Expr) bool {
	switch e := e.(type) {
	case *ast.Ident:
		if fn, ok := rw.info.Uses[e].(*types.Func); ok {
			return fn.Type().(*types.Signature).Recv() == nil
		}
		if _, ok := rw.info.Uses[e].(*types.Builtin); ok {
			return true
		}
	case *ast.SelectorExpr:
		if x, ok := e.X.(*ast.Ident); ok {
			if x.Name == rw.vrt && rw.info.Uses[x] == nil {
				return true // already rewritten to vrt.X
			}
			if _, ok := rw.info.Uses[x].(*types.PkgName); ok {
				return true
			}
		}
	case *ast.IndexExpr, *ast.IndexListExpr:
		return true // explicit generic instantiation
	}
	return false
}

func (rw *rewriter) rangeChan(n *ast.RangeStmt) ast.Stmt {
	chv := rw.fresh("ch")
	ok := rw.fresh("ok")
	var recvStmts []ast.Stmt
	recv := rw.call(rw.v("Recv2"), chv)
	var valueExpr ast.Expr = n.Key // for channels the single iteration variable is Key
	switch {
	case valueExpr == nil:
		recvStmts = []ast.Stmt{&ast.AssignStmt{Lhs: []ast.Expr{ast.NewIdent("_"), ok}, Tok: token.DEFINE, Rhs: []ast.Expr{recv}}}
	case n.Tok == token.DEFINE:
		recvStmts = []ast.Stmt{&ast.AssignStmt{Lhs: []ast.Expr{valueExpr, ok}, Tok: token.DEFINE, Rhs: []ast.Expr{recv}}}
	default:
		recvStmts = []ast.Stmt{
			&ast.DeclStmt{Decl: &ast.GenDecl{Tok: token.VAR, Specs: []ast.Spec{&ast.ValueSpec{Names: []*ast.Ident{ok}, Type: ast.NewIdent("bool")}}}},
			&ast.AssignStmt{Lhs: []ast.Expr{valueExpr, ok}, Tok: token.ASSIGN, Rhs: []ast.Expr{recv}},
		}
	}
	brk := &ast.IfStmt{Cond: &ast.UnaryExpr{Op: token.NOT, X: ok}, Body: &ast.BlockStmt{List: []ast.Stmt{&ast.BranchStmt{Tok: token.BREAK}}}}
	body := append(append(recvStmts, brk), n.Body.List...)
	return &ast.ForStmt{
		Init: &ast.AssignStmt{Lhs: []ast.Expr{chv}, Tok: token.DEFINE, Rhs: []ast.Expr{n.X}},
		Body: &ast.BlockStmt{List: body},
	}
}

func pureExpr(e ast.Expr) bool {
	switch e := e.(type) {
	case *ast.Ident:
		return true
	case *ast.SelectorExpr:
		return pureExpr(e.X)
	case *ast.ParenExpr:
		return pureExpr(e.X)
	case *ast.StarExpr:
		return pureExpr(e.X)
	case *ast.IndexExpr:
		return pureExpr(e.X) && pureExpr(e.Index)
	case *ast.BasicLit:
		return true
	}
	return false
}

func (rw *rewriter) rangeMap(n *ast.RangeStmt) ast.Stmt {
	if n.Key == nil || n.Tok != token.DEFINE || !pureExpr(n.X) {
		return nil
	}
	if id, ok := n.Key.(*ast.Ident); ok && id.Name == "_" && n.Value == nil {
		return nil
	}
	key := n.Key
	if id, ok := key.(*ast.Ident); ok && id.Name == "_" {
		key = rw.fresh("k")
	}
	ok := rw.fresh("ok")
	var val ast.Expr = ast.NewIdent("_")
	if n.Value != nil {
		val = n.Value
	}
	look := &ast.AssignStmt{Lhs: []ast.Expr{val, ok}, Tok: token.DEFINE, Rhs: []ast.Expr{&ast.IndexExpr{X: n.X, Index: key}}}
	cont := &ast.IfStmt{Cond: &ast.UnaryExpr{Op: token.NOT, X: ok}, Body: &ast.BlockStmt{List: []ast.Stmt{&ast.BranchStmt{Tok: token.CONTINUE}}}}
	body := append([]ast.Stmt{look, cont}, n.Body.List...)
	return &ast.RangeStmt{Key: ast.NewIdent("_"), Value: key, Tok: token.DEFINE, X: rw.call(rw.v("MapKeys"), n.X), Body: &ast.BlockStmt{List: body}}
}

func (rw *rewriter) selectStmt(n *ast.SelectStmt) ast.Stmt {
	var caseVars []ast.Expr
	var caseInits []ast.Expr
	var clauses []ast.Stmt
	hasDefault := "false"
	idx := 0
	for _, cl := range n.Body.List {
		cc := cl.(*ast.CommClause)
		if cc.Comm == nil {
			hasDefault = "true"
			clauses = append(clauses, &ast.CaseClause{List: nil, Body: cc.Body})
			continue
		}
		cv := rw.fresh("c")
		var body []ast.Stmt
		switch comm := cc.Comm.(type) {
		case *ast.SendStmt:
			caseInits = append(caseInits, rw.call(&ast.SelectorExpr{X: rw.call(rw.v("SendTo"), comm.Chan), Sel: ast.NewIdent("Case")}, comm.Value))
		case *ast.ExprStmt:
			u := unparen(comm.X).(*ast.UnaryExpr)
			caseInits = append(caseInits, rw.call(rw.v("RecvCase"), u.X))
		case *ast.AssignStmt:
			u := unparen(comm.Rhs[0]).(*ast.UnaryExpr)
			caseInits = append(caseInits, rw.call(rw.v("RecvCase"), u.X))
			rhs := []ast.Expr{&ast.SelectorExpr{X: cv, Sel: ast.NewIdent("V")}}
			if len(comm.Lhs) == 2 {
				rhs = append(rhs, &ast.SelectorExpr{X: cv, Sel: ast.NewIdent("OK")})
			}
			allBlank := true
			for _, l := range comm.Lhs {
				if id, ok := l.(*ast.Ident); !ok || id.Name != "_" {
					allBlank = false
				}
			}
			tok := comm.Tok
			if allBlank {
				tok = token.ASSIGN
			}
			body = append(body, &ast.AssignStmt{Lhs: comm.Lhs, Tok: tok, Rhs: rhs})
		default:
			rw.errs = append(rw.errs, fmt.Sprintf("unsupported comm clause %T", cc.Comm))
		}
		caseVars = append(caseVars, cv)
		clauses = append(clauses, &ast.CaseClause{
			List: []ast.Expr{&ast.BasicLit{Kind: token.INT, Value: strconv.Itoa(idx)}},
			Body: append(body, cc.Body...),
		})
		idx++
	}
	if hasDefault == "false" {
		// keeps the switch a terminating statement whenever the select was one
		clauses = append(clauses, &ast.CaseClause{List: nil, Body: []ast.Stmt{&ast.ExprStmt{X: rw.call(ast.NewIdent("panic"), &ast.BasicLit{Kind: token.STRING, Value: `"vrt: unreachable select result"`})}}})
	}
	args := append([]ast.Expr{ast.NewIdent(hasDefault)}, caseVars...)
	sw := &ast.SwitchStmt{Tag: rw.call(rw.v("Select"), args...), Body: &ast.BlockStmt{List: clauses}}
	if len(caseVars) > 0 {
		sw.Init = &ast.AssignStmt{Lhs: caseVars, Tok: token.DEFINE, Rhs: caseInits}
	}
	return sw
}
