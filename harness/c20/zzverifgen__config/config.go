package config

import (
	"fmt"
	"strings"
	"testing"

	vrt "github.com/gotid/god"
)

// The generator commands hand the -style flag to NewConfig and use Config.NamingFormat as
// the template: for every template string the template that reaches the formatter is the
// one given, byte for byte (the empty string stands for the default style), and only a
// blank template is refused - so that prefix and suffix of the template, white space
// included, appear in the file name as the rendering rule says.
func TestVerifStyleConfig(t *testing.T) {
	defer vrt.WriteReport()
	if !vrt.Shard(0) {
		return
	}
	c := vrt.NewCases("naming/style-config")
	var tpls []string
	for _, pre := range []string{"", " ", "\t", "x", "_ ", " x"} {
		for _, core := range []string{"go_designer", "goDesigner", "GO-DESIGNER", "godesigner", "go designer", "nothing", ""} {
			for _, suf := range []string{"", " ", "\n", ".go", " .go ", " "} {
				tpls = append(tpls, pre+core+suf)
			}
		}
	}
	seen := map[string]bool{}
	for _, tpl := range tpls {
		if seen[tpl] {
			continue
		}
		seen[tpl] = true
		var cfg *Config
		var err error
		var pan any
		func() {
			defer func() { pan = recover() }()
			cfg, err = NewConfig(tpl)
		}()
		in := fmt.Sprintf("template=%q", tpl)
		c.Eval(fmt.Sprintf("%q err=%v", tpl, err != nil), func() any {
			nf := ""
			if cfg != nil {
				nf = cfg.NamingFormat
			}
			return map[string]any{"template": tpl, "naming_format": nf, "error": fmt.Sprint(err)}
		})
		if pan != nil {
			c.Violation(in, "panic", fmt.Sprint(pan))
			continue
		}
		blank := tpl != "" && strings.TrimSpace(tpl) == ""
		if blank != (err != nil) {
			c.Violation(in, "accept/reject", fmt.Sprintf("error=%v, want rejected=%v (only a blank template is refused here; the formatter judges the rest)", err, blank))
			continue
		}
		if err != nil {
			continue
		}
		want := tpl
		if tpl == "" {
			want = DefaultFormat
		}
		if cfg == nil || cfg.NamingFormat != want {
			got := "<nil>"
			if cfg != nil {
				got = cfg.NamingFormat
			}
			c.Violation(in, "template altered", fmt.Sprintf("the template handed to the formatter is %q, the one given is %q", got, want))
		}
	}
	c.Done()
}
