package format

import (
	"fmt"
	"strings"
	"unicode"
	"unicode/utf8"
	"testing"

	vrt "github.com/gotid/god"
)

// ---- reference renderer written from the statement --------------------------------

func refWords(id string) []string {
	var words []string
	cur := ""
	for _, r := range id {
		switch {
		case r == '_':
			if cur != "" {
				words = append(words, cur)
			}
			cur = ""
		case r >= 'A' && r <= 'Z':
			if cur != "" {
				words = append(words, cur)
			}
			cur = string(r)
		default:
			cur += string(r)
		}
	}
	if cur != "" {
		words = append(words, cur)
	}
	return words
}

func refCasing(word string) (string, bool) {
	switch {
	case word == strings.ToLower(word):
		return "lower", true
	case word == strings.ToUpper(word):
		return "upper", true
	case word == strings.ToUpper(word[:1])+strings.ToLower(word[1:]):
		return "title", true
	}
	return "", false
}

func refApply(casing, w string) string {
	switch casing {
	case "lower":
		return strings.ToLower(w)
	case "upper":
		return strings.ToUpper(w)
	}
	// title: the word's first letter in title case, the rest untouched (non-ASCII letters
	// included; a caseless first rune leaves the word as it is)
	for _, r := range w {
		if unicode.IsLower(r) {
			return string(unicode.ToTitle(r)) + w[len(string(r)):]
		}
		break
	}
	return w
}

// asciiUpper upper-cases the ASCII letters only, so that byte offsets in the result are byte
// offsets in s (the two marker words are ASCII; other letters are just template text).
func asciiUpper(s string) string {
	b := []byte(s)
	for i, c := range b {
		if 'a' <= c && c <= 'z' {
			b[i] = c - 'a' + 'A'
		}
	}
	return string(b)
}

// refRender returns (result, ok); ok=false means the template must be rejected.
func refRender(tpl, id string) (string, bool) {
	up := asciiUpper(tpl)
	ig, id2 := strings.Index(up, "GO"), strings.Index(up, "DESIGNER")
	if ig < 0 || id2 < 0 || ig > id2 {
		return "", false
	}
	goCase, ok1 := refCasing(tpl[ig : ig+2])
	dCase, ok2 := refCasing(tpl[id2 : id2+8])
	if !ok1 || !ok2 {
		return "", false
	}
	var parts []string
	for i, w := range refWords(id) {
		if i == 0 {
			parts = append(parts, refApply(goCase, w))
		} else {
			parts = append(parts, refApply(dCase, w))
		}
	}
	return tpl[:ig] + strings.Join(parts, tpl[ig+2:id2]) + tpl[id2+8:], true
}

// ---- enumeration -------------------------------------------------------------------

func identifiers(maxLen int) []string {
	alpha := []string{"a", "z", "A", "Z", "_", "1", "é", "世"}
	out := []string{""}
	level := []string{""}
	for l := 1; l <= maxLen; l++ {
		var next []string
		for _, p := range level {
			for _, a := range alpha {
				next = append(next, p+a)
			}
		}
		out = append(out, next...)
		level = next
	}
	return out
}

func templates() []string {
	var out []string
	for _, pre := range []string{"", "x", "_", "v1."} {
		for _, g := range []string{"go", "Go", "GO", "gO"} {
			for _, sep := range []string{"", "_", "-", "__"} {
				for _, d := range []string{"designer", "Designer", "DESIGNER", "dESIGNER", "DesIgner"} {
					for _, suf := range []string{"", "x", "_", ".go"} {
						out = append(out, pre+g+sep+d+suf)
					}
				}
			}
		}
	}
	// non-ASCII template text around the words, incl. letters whose upper-case form has another length
	out = append(out, "ɐgo_designer", "ſgo_designerı", "中go世designer文", "ɐɐɐɐɐɐɐɐɐgodesigner", "éGo-Designerɐ")
	out = append(out, "", "go", "designer", "designer_go", "designergo", "godesigner_go", "go_go_designer", "go_designer_designer", "g_o_designer", "go_design", "GOdesigner", "Godesigner")
	return out
}

func TestVerifNamingFormat(t *testing.T) {
	defer vrt.WriteReport()
	maxLen := 5
	if vrt.Thorough() {
		maxLen = 6
	}
	ids := identifiers(maxLen)
	tpls := templates()
	c := vrt.NewCases(fmt.Sprintf("naming/format/idlen<=%d", maxLen))
	for ti, tpl := range tpls {
		if !vrt.Shard(ti) {
			continue
		}
		if c.Expired() {
			break
		}
		for _, id := range ids {
			want, ok := refRender(tpl, id)
			var got string
			var err error
			var pan any
			func() {
				defer func() { pan = recover() }()
				got, err = FileNamingFormat(tpl, id)
			}()
			class := "rejected"
			if ok {
				class = fmt.Sprintf("words=%d", len(refWords(id)))
				g, _ := refCasing(tpl[strings.Index(asciiUpper(tpl), "GO"):][:2])
				class += "/" + g
			}
			c.Eval(class, func() any {
				return map[string]any{"template": tpl, "identifier": id, "result": got, "error": fmt.Sprint(err)}
			})
			in := fmt.Sprintf("template=%q identifier=%q", tpl, id)
			if pan != nil {
				c.Violation(in, "panic", fmt.Sprintf("panicked: %v", pan))
				continue
			}
			if ok != (err == nil) {
				c.Violation(in, "accept/reject", fmt.Sprintf("error=%v, reference valid=%v", err, ok))
				continue
			}
			if ok && !utf8.ValidString(got) {
				c.Violation(in, "encoding", fmt.Sprintf("result %q is not valid UTF-8", got))
				continue
			}
			if ok && got != want {
				c.Violation(in, "rendering", fmt.Sprintf("got %q, want %q", got, want))
				continue
			}
			// determinism: same inputs, same output, interleaved with another call
			FileNamingFormat("GO_DESIGNER", "other_input")
			got2, err2 := FileNamingFormat(tpl, id)
			if got2 != got || (err2 == nil) != (err == nil) {
				c.Violation(in, "determinism", fmt.Sprintf("second call gave %q/%v after %q/%v", got2, err2, got, err))
			}
		}
		if c.NumViolations() > 3 {
			break
		}
	}
	// adversarial inputs: only panic-freedom and determinism are claimed
	if vrt.Shard(0) {
		for _, tpl := range []string{"go_designer", "ßgo_designer", "ǆgo_designer", "go_designer中", "İgo_designer", "go\x00designer", "GOéDESIGNER", "ﬁgoﬁdesigner",
			// letters whose upper-case form has another UTF-8 length (offsets found in the upper-cased
			// template do not fit the template itself)
			"ɐgo_designer", "ɐɐɐɐɐɐɐɐɐgodesigner", "ſgo_designer", "ıgo_designer", "go_designerɐ", "ɐɐɐɐɐɐɐɐɐɐɐɐGO_DESIGNER"} {
			for _, id := range []string{"", "中文", "é_É", "a__b", "_", "__", "ABC", "aBC_d", "\x00", "a\xffb", "İx", "ǅa"} {
				var pan any
				var g1, g2 string
				func() {
					defer func() { pan = recover() }()
					g1, _ = FileNamingFormat(tpl, id)
					g2, _ = FileNamingFormat(tpl, id)
				}()
				c.Eval("adversarial", func() any { return map[string]any{"template": tpl, "identifier": id, "result": g1} })
				if pan != nil {
					c.Violation(fmt.Sprintf("template=%q identifier=%q", tpl, id), "panic", fmt.Sprint(pan))
				} else if g1 != g2 {
					c.Violation(fmt.Sprintf("template=%q identifier=%q", tpl, id), "determinism", g1+" vs "+g2)
				}
			}
		}
	}
	c.Done()
}
