package stringx

import (
	"fmt"
	"testing"

	vrt "github.com/gotid/god"
)

func lowerWords(maxLen int) []string {
	// all strings matching [a-z]+(_[a-z]+)* over the letters {a,b,z} up to maxLen
	var out []string
	var rec func(cur string)
	rec = func(cur string) {
		if len(cur) > 0 && cur[len(cur)-1] != '_' {
			out = append(out, cur)
		}
		if len(cur) == maxLen {
			return
		}
		for _, ch := range []string{"a", "b", "z"} {
			rec(cur + ch)
		}
		if len(cur) > 0 && cur[len(cur)-1] != '_' && len(cur) < maxLen-1 {
			rec(cur + "_")
		}
	}
	rec("")
	return out
}

func TestVerifCamelSnake(t *testing.T) {
	defer vrt.WriteReport()
	maxLen := 8
	if vrt.Thorough() {
		maxLen = 10
	}
	c := vrt.NewCases(fmt.Sprintf("naming/camel-snake-roundtrip/len<=%d", maxLen))
	for i, id := range lowerWords(maxLen) {
		if !vrt.Shard(i) {
			continue
		}
		var back, camel string
		var pan any
		func() {
			defer func() { pan = recover() }()
			camel = From(id).ToCamel()
			back = From(camel).ToSnake()
		}()
		words := 1
		for _, ch := range id {
			if ch == '_' {
				words++
			}
		}
		c.Eval(fmt.Sprintf("words=%d/len=%d", words, len(id)), func() any {
			return map[string]any{"identifier": id, "camel": camel, "back": back}
		})
		if pan != nil {
			c.Violation(id, "panic", fmt.Sprint(pan))
		} else if back != id {
			c.Violation(id, "roundtrip", fmt.Sprintf("ToSnake(ToCamel(%q)) = %q via %q", id, back, camel))
		}
		if c.NumViolations() > 3 {
			break
		}
	}
	if vrt.Shard(0) {
		alpha := []string{"a", "B", "_", "1", " ", "é", "中"}
		strs := []string{""}
		level := []string{""}
		for l := 1; l <= 4; l++ {
			var next []string
			for _, p := range level {
				for _, a := range alpha {
					next = append(next, p+a)
				}
			}
			strs = append(strs, next...)
			level = next
		}
		strs = append(strs, "\x00", "a\xffb", "\xff", "İ", "ǅa", "ß")
		for _, s := range strs {
			var pan any
			var a1, a2 string
			func() {
				defer func() { pan = recover() }()
				x := From(s)
				a1 = x.ToCamel() + "|" + x.ToSnake() + "|" + x.Title() + "|" + x.UnTitle() + "|" + x.ToLower() + "|" + x.ToUpper()
				a2 = x.ToCamel() + "|" + x.ToSnake() + "|" + x.Title() + "|" + x.UnTitle() + "|" + x.ToLower() + "|" + x.ToUpper()
			}()
			c.Eval("any-string/len="+fmt.Sprint(len([]rune(s))), func() any { return map[string]any{"input": s, "outputs": a1} })
			if pan != nil {
				c.Violation(fmt.Sprintf("%q", s), "panic", fmt.Sprint(pan))
			} else if a1 != a2 {
				c.Violation(fmt.Sprintf("%q", s), "determinism", a1+" vs "+a2)
			}
		}
	}
	c.Done()
}
