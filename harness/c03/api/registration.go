package api

import (
	"fmt"
	"net/http"
	"net/http/httptest"
	"path"
	"strings"
	"testing"

	vrt "github.com/gotid/god"
	"github.com/gotid/god/api/router"
	"github.com/gotid/god/lib/logx"
	"github.com/gotid/god/lib/stat"
)

// Rejection at the entry point a service uses: routes are added to the server in groups
// (AddRoutes) and bound to the router when the server starts (engine.bindRoutes).  For every
// way of spreading up to three routes over one or two groups, with a rejected route (duplicate,
// duplicate after cleaning, relative path, unsupported method) at every position: the start-up
// fails iff the sequence contains a route the router must reject, and when it succeeds every
// route is served by its own handler.
func TestVerifEngineRegistration(t *testing.T) {
	defer vrt.WriteReport()
	logx.Disable()
	stat.SetReporter(nil)
	if !vrt.Shard(2) {
		return
	}
	type rt struct{ method, path string }
	alphabet := []rt{
		{"GET", "/a"}, {"GET", "/a/"}, {"POST", "/a"}, {"GET", "/b"}, {"GET", "/:x"},
		{"GET", "a"}, {"GET", ""}, {"FOO", "/c"}, {"get", "/c"},
	}
	supported := map[string]bool{"DELETE": true, "GET": true, "HEAD": true, "OPTIONS": true, "PATCH": true, "POST": true, "PUT": true}
	c := vrt.NewCases("routing/engine-registration")
	vrt.RunOnce(vrt.Options{Name: "routing/engine-registration"}, func(r *vrt.Run) {
		var seqs [][]int
		for a := range alphabet {
			seqs = append(seqs, []int{a})
			for b := range alphabet {
				seqs = append(seqs, []int{a, b})
				for d := range alphabet {
					seqs = append(seqs, []int{a, b, d})
				}
			}
		}
		for _, seq := range seqs {
			// reference verdict
			seen := map[string]bool{}
			wantErr := false
			for _, i := range seq {
				x := alphabet[i]
				k := x.method + " " + path.Clean(x.path)
				if !supported[x.method] || !strings.HasPrefix(x.path, "/") || seen[k] {
					wantErr = true
					break
				}
				seen[k] = true
			}
			for split := 0; split <= len(seq); split++ {
				if split == len(seq) && len(seq) > 1 {
					continue // same as split 0
				}
				hit := make([]int, len(seq))
				mk := func(lo, hi int) featuredRoutes {
					var fr featuredRoutes
					for j := lo; j < hi; j++ {
						j := j
						x := alphabet[seq[j]]
						fr.routes = append(fr.routes, Route{Method: x.method, Path: x.path, Handler: func(http.ResponseWriter, *http.Request) { hit[j]++ }})
					}
					return fr
				}
				ng := newEngine(Config{Timeout: 100, MaxConns: 10})
				if split > 0 {
					ng.addRoutes(mk(0, split))
				}
				if split < len(seq) {
					ng.addRoutes(mk(split, len(seq)))
				}
				rtr := router.NewRouter()
				err := ng.bindRoutes(rtr)
				name := fmt.Sprintf("routes=%v split=%d", describeSeq(seq, func(i int) string { return alphabet[i].method + " " + alphabet[i].path }), split)
				c.Eval(fmt.Sprintf("%s rejected=%v", name, err != nil), func() any {
					return map[string]any{"routes": name, "rejected": err != nil}
				})
				if (err != nil) != wantErr {
					c.Violation(name, "start-up verdict", fmt.Sprintf("bindRoutes error=%v, want rejected=%v", err, wantErr))
					continue
				}
				if err != nil {
					continue
				}
				for j, i := range seq {
					x := alphabet[i]
					p := strings.ReplaceAll(x.path, ":x", "zz")
					rec := httptest.NewRecorder()
					rtr.ServeHTTP(rec, httptest.NewRequest(x.method, p, nil))
					want := make([]int, len(seq))
					want[j] = 1
					// a literal route registered in the same table wins over /:x only for its own path
					if fmt.Sprint(hit) != fmt.Sprint(want) {
						c.Violation(name, "served by its own handler", fmt.Sprintf("request %s %s ran handlers %v, want %v (status %d)", x.method, p, hit, want, rec.Code))
					}
					for k := range hit {
						hit[k] = 0
					}
				}
			}
		}
	})
	c.Done()
}

func describeSeq(seq []int, f func(int) string) []string {
	out := make([]string, len(seq))
	for i, s := range seq {
		out[i] = f(s)
	}
	return out
}
