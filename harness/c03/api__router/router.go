package router

import (
	"fmt"
	"net/http"
	"net/http/httptest"
	"net/url"
	"path"
	"sort"
	"strings"
	"sync"
	"testing"

	vrt "github.com/gotid/god"
	"github.com/gotid/god/api/httpx"
	"github.com/gotid/god/api/pathvar"
)

type rRoute struct {
	method, pattern string
}

func (r rRoute) id() string { return r.method + " " + r.pattern }

func segs(p string) []string {
	if p == "/" {
		return []string{""}
	}
	return strings.Split(strings.TrimPrefix(p, "/"), "/")
}

// refMatch is the reference matcher written from the statement.
func refMatch(pattern, cleaned string) (map[string]string, bool) {
	if len(cleaned) == 0 || cleaned[0] != '/' {
		return nil, false
	}
	ps, cs := segs(pattern), segs(cleaned)
	if len(ps) != len(cs) {
		return nil, false
	}
	vars := map[string]string{}
	for i := range ps {
		if strings.HasPrefix(ps[i], ":") {
			vars[ps[i][1:]] = cs[i]
		} else if ps[i] != cs[i] {
			return nil, false
		}
	}
	return vars, true
}

func allLiteral(p string) bool { return !strings.Contains(p, ":") }

func patterns(maxDepth int) []string {
	alpha := []string{"a", "b", ":x", ":y"}
	out := []string{"/"}
	var rec func(prefix []string)
	rec = func(prefix []string) {
		if len(prefix) > 0 {
			seen := map[string]bool{}
			dup := false
			for _, s := range prefix {
				if strings.HasPrefix(s, ":") {
					if seen[s] {
						dup = true
					}
					seen[s] = true
				}
			}
			if !dup {
				out = append(out, "/"+strings.Join(prefix, "/"))
			}
		}
		if len(prefix) == maxDepth {
			return
		}
		for _, a := range alpha {
			rec(append(append([]string{}, prefix...), a))
		}
	}
	rec(nil)
	return out
}

func requestPaths(maxDepth int) []string {
	alpha := []string{"a", "b", "c"}
	out := []string{"/", "", "//a", "/a/", "/./a", "/a/../b", "/a//b", "a", "/a/b/"}
	var rec func(prefix []string)
	rec = func(prefix []string) {
		if len(prefix) > 0 {
			out = append(out, "/"+strings.Join(prefix, "/"))
		}
		if len(prefix) == maxDepth {
			return
		}
		for _, a := range alpha {
			rec(append(append([]string{}, prefix...), a))
		}
	}
	rec(nil)
	return out
}

type rObs struct {
	ran  []string
	vars map[string]string
}

// checkTable builds the real router for the table and sends every request to it,
// under every iteration order of the router's small maps.
func checkTable(c *vrt.Cases, table []rRoute, reqMethods, reqPaths []string) {
	for _, m := range reqMethods {
		for _, p := range reqPaths {
			cleaned := path.Clean(p)
			// reference verdict
			var sameMatch []rRoute
			var literalWinner *rRoute
			allow := map[string]bool{}
			for i, rt := range table {
				if _, ok := refMatch(rt.pattern, cleaned); ok {
					if rt.method == m {
						sameMatch = append(sameMatch, rt)
						if allLiteral(rt.pattern) {
							literalWinner = &table[i]
						}
					} else {
						allow[rt.method] = true
					}
				}
			}
			class := "404"
			if len(sameMatch) > 0 {
				class = fmt.Sprintf("match%d", len(sameMatch))
				if len(sameMatch) > 1 {
					class += "-overlap"
				}
			} else if len(allow) > 0 {
				class = "405"
			}
			if p != cleaned {
				class += "-unclean"
			}
			// registration order must not matter: forward, reversed (and every permutation of a
			// 3-route table at the thorough tier)
			orders := [][]rRoute{table}
			if len(table) > 1 {
				rev := make([]rRoute, len(table))
				for i := range table {
					rev[len(table)-1-i] = table[i]
				}
				orders = append(orders, rev)
			}
			if len(table) == 3 && vrt.Thorough() {
				t := table
				orders = [][]rRoute{{t[0], t[1], t[2]}, {t[0], t[2], t[1]}, {t[1], t[0], t[2]}, {t[1], t[2], t[0]}, {t[2], t[0], t[1]}, {t[2], t[1], t[0]}}
			}
			for _, regOrder := range orders {
				regOrder := regOrder
				runs := vrt.ForEachMapOrder(func() {
					o := &rObs{}
					rt := NewRouter()
					for _, r := range regOrder {
						r := r
						if err := rt.Handle(r.method, r.pattern, http.HandlerFunc(func(w http.ResponseWriter, req *http.Request) {
							o.ran = append(o.ran, r.id())
							o.vars = pathvar.Vars(req)
						})); err != nil {
							c.Violation(fmt.Sprint(regOrder), "registration", fmt.Sprintf("valid table rejected: %v", err))
							return
						}
					}
					rec := httptest.NewRecorder()
					req := &http.Request{Method: m, URL: &url.URL{Path: p}, Header: http.Header{}}
					rt.ServeHTTP(rec, req)
					input := fmt.Sprintf("table=%v request=%s %q", regOrder, m, p)
					switch {
					case len(sameMatch) > 0:
						if len(o.ran) != 1 {
							c.Violation(input, "no handler", fmt.Sprintf("matching pattern(s) %v exist but %d handlers ran (status %d)", sameMatch, len(o.ran), rec.Code))
							return
						}
						var chosen *rRoute
						for i := range sameMatch {
							if sameMatch[i].id() == o.ran[0] {
								chosen = &sameMatch[i]
							}
						}
						if chosen == nil {
							c.Violation(input, "wrong handler", fmt.Sprintf("handler %s ran but its pattern does not match (matching: %v)", o.ran[0], sameMatch))
							return
						}
						if literalWinner != nil && chosen.id() != literalWinner.id() {
							c.Violation(input, "literal preference", fmt.Sprintf("all-literal pattern %s matches but %s was invoked", literalWinner.id(), chosen.id()))
						}
						want, _ := refMatch(chosen.pattern, cleaned)
						got := o.vars
						if len(want) == 0 && len(got) == 0 {
							return
						}
						if fmt.Sprint(want) != fmt.Sprint(got) {
							c.Violation(input, "path variables", fmt.Sprintf("handler %s got vars %v, want %v", chosen.id(), got, want))
						}
					case len(allow) > 0:
						if len(o.ran) != 0 || rec.Code != http.StatusMethodNotAllowed {
							c.Violation(input, "405", fmt.Sprintf("no %s pattern matches but other methods do: status %d, handlers %v", m, rec.Code, o.ran))
							return
						}
						var got []string
						for _, a := range strings.Split(rec.Header().Get("Allow"), ",") {
							if a = strings.TrimSpace(a); a != "" {
								got = append(got, a)
							}
						}
						sort.Strings(got)
						var want []string
						for a := range allow {
							want = append(want, a)
						}
						sort.Strings(want)
						if fmt.Sprint(got) != fmt.Sprint(want) {
							c.Violation(input, "allow header", fmt.Sprintf("Allow = %v, want %v", got, want))
						}
					default:
						if len(o.ran) != 0 || rec.Code != http.StatusNotFound {
							c.Violation(input, "404", fmt.Sprintf("nothing matches: status %d, handlers %v", rec.Code, o.ran))
						}
					}
				})
				for i := 0; i < runs; i++ {
					c.Eval(class, func() any {
						return map[string]any{"table": fmt.Sprint(regOrder), "request": m + " " + p, "class": class, "map_orders": runs}
					})
				}
				if c.NumViolations() > 0 {
					return
				}
			}
		}
	}
}

// answer of a router to one request, as a comparable string
func routerAnswer(rt http.Handler, o *rObs, m, p string) string {
	o.ran, o.vars = nil, nil
	rec := httptest.NewRecorder()
	rt.ServeHTTP(rec, &http.Request{Method: m, URL: &url.URL{Path: p}, Header: http.Header{}})
	var allow []string
	for _, a := range strings.Split(rec.Header().Get("Allow"), ",") {
		if a = strings.TrimSpace(a); a != "" {
			allow = append(allow, a)
		}
	}
	sort.Strings(allow)
	vars := ""
	if len(o.vars) > 0 {
		vars = fmt.Sprint(o.vars)
	}
	return fmt.Sprintf("ran=%v vars=%s status=%d allow=%v", o.ran, vars, rec.Code, allow)
}

// checkGrowing: routing depends on the routes registered at the time of the request and on
// nothing else.  The table is registered in two instalments on one router, every request is
// served after each instalment, and each answer must be the answer of a router that was
// built with exactly those routes and has served nothing before (what such a router answers
// is judged against the reference by checkTable).  Covers whatever a router may remember
// between requests: results of earlier searches, patterns tried, not-found verdicts.
func checkGrowing(c *vrt.Cases, table []rRoute, reqMethods, reqPaths []string) {
	build := func(o *rObs, rt httpx.Router, routes []rRoute) bool {
		for _, r := range routes {
			r := r
			if err := rt.Handle(r.method, r.pattern, http.HandlerFunc(func(w http.ResponseWriter, req *http.Request) {
				o.ran = append(o.ran, r.id())
				o.vars = pathvar.Vars(req)
			})); err != nil {
				c.Violation(fmt.Sprint(routes), "registration", fmt.Sprintf("valid table rejected: %v", err))
				return false
			}
		}
		return true
	}
	orders := [][]rRoute{table}
	if len(table) > 1 {
		rev := make([]rRoute, len(table))
		for i := range table {
			rev[len(table)-1-i] = table[i]
		}
		orders = append(orders, rev)
	}
	for _, order := range orders {
		for split := 0; split < len(order); split++ {
			og := &rObs{}
			grown := NewRouter()
			if !build(og, grown, order[:split]) {
				return
			}
			for stage, upto := range []int{split, len(order)} {
				if stage == 1 && !build(og, grown, order[split:]) {
					return
				}
				of := &rObs{}
				fresh := NewRouter()
				if !build(of, fresh, order[:upto]) {
					return
				}
				for _, m := range reqMethods {
					for _, p := range reqPaths {
						got := routerAnswer(grown, og, m, p)
						want := routerAnswer(fresh, of, m, p)
						c.Eval(fmt.Sprintf("stage%d/%s", stage, strings.SplitN(want, " vars", 2)[0]), func() any {
							return map[string]any{"registered_first": fmt.Sprint(order[:split]), "registered_later": fmt.Sprint(order[split:]), "stage": stage, "request": m + " " + p, "answer": want}
						})
						if got != want {
							c.Violation(fmt.Sprintf("register %v, serve every request, register %v; request=%s %q (stage %d)", order[:split], order[split:], m, p, stage), "history dependence",
								fmt.Sprintf("the router that served requests while its table grew answers %s; a router built with the same routes answers %s", got, want))
							return
						}
					}
				}
			}
		}
	}
}

func TestVerifRoutingGrowing(t *testing.T) {
	defer vrt.WriteReport()
	var routes []rRoute
	for _, m := range []string{http.MethodGet, http.MethodPost} {
		for _, p := range patterns(2) {
			routes = append(routes, rRoute{m, p})
		}
	}
	maxRoutes := 3
	reqMethods := []string{http.MethodGet, http.MethodPost, http.MethodPut}
	reqPaths := requestPaths(3)
	c := vrt.NewCases("routing/served-while-growing/tables<=" + fmt.Sprint(maxRoutes))
	n := 0
	var rec func(start int, table []rRoute)
	rec = func(start int, table []rRoute) {
		if c.NumViolations() > 0 || c.Expired() {
			return
		}
		if len(table) > 0 {
			n++
			if vrt.Shard(n + 5) {
				checkGrowing(c, table, reqMethods, reqPaths)
			}
		}
		if len(table) == maxRoutes {
			return
		}
		for i := start; i < len(routes); i++ {
			rec(i+1, append(append([]rRoute{}, table...), routes[i]))
		}
	}
	rec(0, nil)
	c.Done()
}

func TestVerifRouting(t *testing.T) {
	defer vrt.WriteReport()
	maxRoutes, patDepth, reqDepth := 3, 2, 3
	if vrt.Thorough() {
		maxRoutes = 4
	}
	var routes []rRoute
	for _, m := range []string{http.MethodGet, http.MethodPost} {
		for _, p := range patterns(patDepth) {
			routes = append(routes, rRoute{m, p})
		}
	}
	reqMethods := []string{http.MethodGet, http.MethodPost, http.MethodPut}
	reqPaths := requestPaths(reqDepth)
	if vrt.Thorough() {
		// deeper patterns for small tables
		extra := patterns(3)
		_ = extra
	}
	c := vrt.NewCases("routing/tables<=" + fmt.Sprint(maxRoutes))
	n := 0
	var rec func(start int, table []rRoute)
	rec = func(start int, table []rRoute) {
		if c.NumViolations() > 0 || c.Expired() {
			return
		}
		if len(table) > 0 {
			n++
			if vrt.Shard(n) {
				checkTable(c, table, reqMethods, reqPaths)
			}
		}
		if len(table) == maxRoutes {
			return
		}
		for i := start; i < len(routes); i++ {
			rec(i+1, append(append([]rRoute{}, table...), routes[i]))
		}
	}
	rec(0, nil)
	c.Done()

	// depth-3 patterns, tables of at most 2 routes (thorough: 3)
	if vrt.Thorough() || true {
		var deep []rRoute
		for _, p := range patterns(3) {
			if strings.Count(p, "/") == 3 {
				deep = append(deep, rRoute{http.MethodGet, p})
			}
		}
		c2 := vrt.NewCases("routing/depth3-pairs")
		n := 0
		for i := range deep {
			for j := i; j < len(deep); j++ {
				n++
				if !vrt.Shard(n) || c2.NumViolations() > 0 || c2.Expired() {
					continue
				}
				table := []rRoute{deep[i]}
				if j != i {
					table = append(table, deep[j])
				}
				checkTable(c2, table, []string{http.MethodGet, http.MethodPost}, reqPaths)
			}
		}
		c2.Done()
	}
}

// registration errors
func TestVerifRoutingRegistration(t *testing.T) {
	defer vrt.WriteReport()
	if !vrt.Shard(0) {
		return
	}
	c := vrt.NewCases("routing/registration")
	h := http.HandlerFunc(func(http.ResponseWriter, *http.Request) {})
	type reg struct {
		first, second rRoute
		wantErr       bool
	}
	var cases []reg
	pats := patterns(2)
	for _, p := range pats {
		for _, q := range []string{p, p + "/", "/" + p, "/." + p} {
			cases = append(cases, reg{rRoute{"GET", p}, rRoute{"GET", q}, path.Clean(q) == path.Clean(p)})
		}
		cases = append(cases, reg{rRoute{"GET", p}, rRoute{"POST", p}, false})
	}
	for _, bad := range []string{"", "a", "a/b", ":x"} {
		cases = append(cases, reg{rRoute{"GET", "/"}, rRoute{"GET", bad}, true})
	}
	for _, m := range []string{"TRACE", "CONNECT", "get", "", "FOO"} {
		cases = append(cases, reg{rRoute{"GET", "/"}, rRoute{m, "/a"}, true})
	}
	for _, m := range []string{"DELETE", "GET", "HEAD", "OPTIONS", "PATCH", "POST", "PUT"} {
		cases = append(cases, reg{rRoute{"GET", "/"}, rRoute{m, "/zz"}, false})
	}
	for _, k := range cases {
		vrt.ForEachMapOrder(func() {
			rt := NewRouter()
			if err := rt.Handle(k.first.method, k.first.pattern, h); err != nil {
				c.Violation(fmt.Sprint(k), "first registration", err.Error())
				return
			}
			err := rt.Handle(k.second.method, k.second.pattern, h)
			c.Eval(fmt.Sprintf("second=%s %q err=%v", k.second.method, k.second.pattern, err != nil), func() any {
				return map[string]any{"first": k.first.id(), "second": k.second.id(), "rejected": err != nil}
			})
			if (err != nil) != k.wantErr {
				c.Violation(fmt.Sprintf("first=%s second=%s", k.first.id(), k.second.id()), "registration verdict", fmt.Sprintf("second registration error=%v, want rejected=%v", err, k.wantErr))
			}
		})
	}
	c.Done()
}

// Every supported method: tables of one or two routes on the same pattern under every pair
// of the seven methods, requested with each of them (and with an unsupported one): handler,
// 405 with exactly the other registered methods in Allow, or 404.
func TestVerifRoutingMethods(t *testing.T) {
	defer vrt.WriteReport()
	if !vrt.Shard(1) {
		return
	}
	methods := []string{"DELETE", "GET", "HEAD", "OPTIONS", "PATCH", "POST", "PUT"}
	c := vrt.NewCases("routing/all-methods")
	for _, pat := range []string{"/a", "/:x", "/a/:x"} {
		for i, m1 := range methods {
			for _, m2 := range methods[i:] {
				table := []rRoute{{m1, pat}}
				if m2 != m1 {
					table = append(table, rRoute{m2, pat})
				}
				reqPath := map[string]string{"/a": "/a", "/:x": "/q", "/a/:x": "/a/q"}[pat]
				checkTable(c, table, append(append([]string{}, methods...), "TRACE"), []string{reqPath, "/nomatch/at/all"})
				if c.NumViolations() > 0 {
					c.Done()
					return
				}
			}
		}
	}
	c.Done()
}

// Requests served at the same time (the router is shared by all connections of a server):
// each concurrent request gets exactly the answer it gets on its own - in particular the Allow
// header of a 405 lists the methods of *its* path.  One earlier 405 has been answered before
// (whatever the router keeps between requests has been used once).
func TestVerifRoutingConcurrent(t *testing.T) {
	defer vrt.WriteReport()
	if !vrt.Shard(3) {
		return
	}
	bound := 2
	if vrt.Thorough() {
		bound = 3
	}
	type req struct{ method, path string }
	for _, sc := range [][]req{
		{{"PUT", "/a/1"}, {"PUT", "/b/1"}},
		{{"PUT", "/a/1"}, {"DELETE", "/b/1"}, {"GET", "/a/1"}},
		{{"PUT", "/a/1"}, {"PUT", "/zz"}},
	} {
		sc := sc
		vrt.Explore(vrt.Options{Name: fmt.Sprintf("routing/concurrent/%v", sc), Bound: bound, Prune: true, Budget: vrt.FairBudget(1)}, func(r *vrt.Run) {
			rt := NewRouter()
			served := func(name string) http.Handler {
				return http.HandlerFunc(func(w http.ResponseWriter, q *http.Request) { w.Header().Set("X-Served", name) })
			}
			for _, x := range []req{{"GET", "/a/:x"}, {"HEAD", "/a/:x"}, {"POST", "/b/:x"}, {"PATCH", "/b/:x"}, {"OPTIONS", "/b/:x"}} {
				if err := rt.Handle(x.method, x.path, served(x.method+" "+x.path)); err != nil {
					r.Failf("Handle: %v", err)
					return
				}
			}
			answer := func(q req) string {
				rec := httptest.NewRecorder()
				rt.ServeHTTP(rec, httptest.NewRequest(q.method, q.path, nil))
				allow := strings.Split(rec.Header().Get("Allow"), ", ")
				sort.Strings(allow)
				return fmt.Sprintf("%d served=%q allow=%v", rec.Code, rec.Header().Get("X-Served"), allow)
			}
			answer(req{"DELETE", "/b/9"}) // an earlier 405
			alone := make([]string, len(sc))
			for i, q := range sc {
				alone[i] = answer(q)
			}
			got := make([]string, len(sc))
			var wg sync.WaitGroup
			for i, q := range sc {
				i, q := i, q
				wg.Add(1)
				go func() {
					defer wg.Done()
					got[i] = answer(q)
				}()
			}
			wg.Wait()
			r.Outcome("%v", got)
			for i := range sc {
				if got[i] != alone[i] {
					r.Failf("%s %s served concurrently with %v answered [%s]; on its own it answers [%s]", sc[i].method, sc[i].path, sc, got[i], alone[i])
				}
			}
		})
	}
}
