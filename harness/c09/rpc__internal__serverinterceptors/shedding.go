package serverinterceptors

import (
	"context"
	"errors"
	"fmt"
	"testing"

	vrt "github.com/gotid/god"
	"github.com/gotid/god/lib/load"
	"github.com/gotid/god/lib/logx"
	"github.com/gotid/god/lib/stat"
	"google.golang.org/grpc"
	"google.golang.org/grpc/codes"
	"google.golang.org/grpc/status"
)

type countShedder struct {
	reject                 bool
	allowed, passed, failed int
}

type countPromise struct{ s *countShedder }

func (p countPromise) Pass() { p.s.passed++ }
func (p countPromise) Fail() { p.s.failed++ }

func (s *countShedder) Allow() (load.Promise, error) {
	if s.reject {
		return nil, load.ErrServiceOverloaded
	}
	s.allowed++
	return countPromise{s}, nil
}

// The RPC shedding interceptor, alone and inside the crash interceptor as the server chains
// them: an admitted call reports exactly once on every path (result, error, deadline error,
// panic), Fail iff the handler's error is the deadline error.
func TestVerifSheddingInterceptorReports(t *testing.T) {
	defer vrt.WriteReport()
	logx.Disable()
	stat.SetReporter(nil)
	if !vrt.Shard(4) {
		return
	}
	c := vrt.NewCases("shedder/rpc-interceptor-reports")
	info := &grpc.UnaryServerInfo{FullMethod: "/svc/m"}
	for _, reject := range []bool{false, true} {
		for _, b := range []string{"ok", "error", "deadline", "status-deadline", "panic"} {
			for _, chain := range []string{"alone", "inside-crash-interceptor"} {
				for _, prior := range []string{"none", "panic", "deadline"} {
					sh := &countShedder{}
					ran := 0
					cur := b
					handler := func(ctx context.Context, req interface{}) (interface{}, error) {
						ran++
						switch cur {
						case "error":
							return nil, errors.New("biz")
						case "deadline":
							return nil, context.DeadlineExceeded
						case "status-deadline":
							return nil, status.Error(codes.DeadlineExceeded, "late")
						case "panic":
							panic("handler panic")
						}
						return "resp", nil
					}
					ic := UnarySheddingInterceptor(sh, stat.NewMetrics("verif"))
					call := func() (resp interface{}, err error, panicked bool) {
						defer func() {
							if e := recover(); e != nil {
								panicked = true
							}
						}()
						if chain == "alone" {
							resp, err = ic(context.Background(), "req", info, handler)
							return
						}
						resp, err = UnaryCrashInterceptor(context.Background(), "req", info, func(ctx context.Context, req interface{}) (interface{}, error) {
							return ic(ctx, req, info, handler)
						})
						return
					}
					if prior != "none" {
						cur = prior
						call()
						cur = b
						*sh = countShedder{}
						ran = 0
					}
					sh.reject = reject
					_, err, panicked := call()
					in := fmt.Sprintf("handler=%s chain=%s shedder-rejects=%v previous-call=%s", b, chain, reject, prior)
					c.Eval(fmt.Sprintf("%s/%s/reject=%v/prior=%s", b, chain, reject, prior), func() any {
						return map[string]any{"case": in, "err": fmt.Sprint(err), "handler_ran": ran, "pass": sh.passed, "fail": sh.failed, "panic_propagated": panicked}
					})
					if reject {
						if ran != 0 || err == nil || sh.passed+sh.failed != 0 {
							c.Violation(in, "rejected call", fmt.Sprintf("handler ran %d times, err=%v, reports pass=%d fail=%d; want no handler, an error, no report", ran, err, sh.passed, sh.failed))
						}
						continue
					}
					if sh.passed+sh.failed != 1 {
						c.Violation(in, "report count", fmt.Sprintf("admitted call reported %d times (pass=%d fail=%d), want exactly once", sh.passed+sh.failed, sh.passed, sh.failed))
					} else if (sh.failed == 1) != (b == "deadline") {
						c.Violation(in, "report kind", fmt.Sprintf("pass=%d fail=%d for handler %s", sh.passed, sh.failed, b))
					}
					if chain != "alone" && panicked {
						c.Violation(in, "panic escaped", "a panic escaped the crash interceptor")
					}
				}
			}
		}
	}
	c.Done()
}
