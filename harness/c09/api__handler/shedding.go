package handler

import (
	"fmt"
	"net/http"
	"net/http/httptest"
	"testing"

	vrt "github.com/gotid/god"
	"github.com/gotid/god/lib/load"
	"github.com/gotid/god/lib/logx"
	"github.com/gotid/god/lib/stat"
)

// a shedder that counts what the middleware tells it
type countShedder struct {
	reject                 bool
	allowed, passed, failed int
}

type countPromise struct{ s *countShedder }

func (p countPromise) Pass() { p.s.passed++ }
func (p countPromise) Fail() { p.s.failed++ }

func (s *countShedder) Allow() (load.Promise, error) {
	if s.reject {
		return nil, load.ErrServiceOverloaded
	}
	s.allowed++
	return countPromise{s}, nil
}

// The REST shedding middleware: an admitted request reports exactly once whatever the
// handler does (statuses, implicit status, nothing at all, panic), Fail iff it answered 503;
// a rejected request never reaches the handler and answers 503 without reporting.
func TestVerifSheddingHandlerReports(t *testing.T) {
	defer vrt.WriteReport()
	logx.Disable()
	stat.SetReporter(nil)
	if !vrt.Shard(3) {
		return
	}
	c := vrt.NewCases("shedder/rest-middleware-reports")
	behaviours := []string{"200", "201", "404", "500", "503", "write-only", "nothing", "panic", "503-then-panic", "write-then-panic"}
	for _, reject := range []bool{false, true} {
		for _, b := range behaviours {
			for _, prior := range []string{"none", "503", "panic"} {
				sh := &countShedder{}
				ran := 0
				cur := b
				h := SheddingHandler(sh, stat.NewMetrics("verif"))(http.HandlerFunc(func(w http.ResponseWriter, r *http.Request) {
					ran++
					switch cur {
					case "200", "201", "404", "500", "503":
						var code int
						fmt.Sscan(cur, &code)
						w.WriteHeader(code)
					case "write-only":
						w.Write([]byte("x"))
					case "panic":
						panic("handler panic")
					case "503-then-panic":
						w.WriteHeader(503)
						panic("handler panic")
					case "write-then-panic":
						w.Write([]byte("x"))
						panic("handler panic")
					}
				}))
				serve := func() (code int, panicked bool) {
					rec := httptest.NewRecorder()
					defer func() {
						if e := recover(); e != nil {
							panicked = true
						}
						code = rec.Code
					}()
					h.ServeHTTP(rec, httptest.NewRequest(http.MethodGet, "/x", nil))
					return
				}
				if prior != "none" {
					cur = prior
					serve()
					cur = b
					*sh = countShedder{}
					ran = 0
				}
				sh.reject = reject
				code, panicked := serve()
				in := fmt.Sprintf("handler=%s shedder-rejects=%v previous-request=%s", b, reject, prior)
				c.Eval(fmt.Sprintf("%s/reject=%v/prior=%s", b, reject, prior), func() any {
					return map[string]any{"case": in, "status": code, "handler_ran": ran, "pass": sh.passed, "fail": sh.failed, "panic_propagated": panicked}
				})
				if reject {
					if ran != 0 || code != http.StatusServiceUnavailable || sh.passed+sh.failed != 0 {
						c.Violation(in, "rejected request", fmt.Sprintf("handler ran %d times, status %d, reports pass=%d fail=%d; want no handler, 503, no report", ran, code, sh.passed, sh.failed))
					}
					continue
				}
				wantFail := b == "503" || b == "503-then-panic"
				if sh.passed+sh.failed != 1 {
					c.Violation(in, "report count", fmt.Sprintf("admitted request reported %d times (pass=%d fail=%d), want exactly once", sh.passed+sh.failed, sh.passed, sh.failed))
				} else if (sh.failed == 1) != wantFail {
					c.Violation(in, "report kind", fmt.Sprintf("pass=%d fail=%d, want fail=%v", sh.passed, sh.failed, wantFail))
				}
				if ran != 1 {
					c.Violation(in, "handler runs", fmt.Sprintf("handler ran %d times", ran))
				}
			}
		}
	}
	c.Done()
}
