package load

import (
	"fmt"
	"math"
	"strings"
	"sync"
	"sync/atomic"
	"testing"
	"time"

	vrt "github.com/gotid/god"
	"github.com/gotid/god/lib/logx"
	"github.com/gotid/god/lib/stat"
	"github.com/gotid/god/lib/timex"
)

const (
	shBuckets = 10
	shWindow  = time.Second
	shBucket  = shWindow / shBuckets
	shCPU     = 900
)

type shAdd struct {
	at time.Duration
	v  float64
}

// refWindow is the reference rolling window (ignore-current), a plain list of adds.
type refWindow struct {
	t0   time.Duration
	adds []shAdd
}

func (w *refWindow) buckets(now time.Duration) map[int]*[2]float64 {
	nb := int((now - w.t0) / shBucket)
	out := map[int]*[2]float64{}
	for _, a := range w.adds {
		b := int((a.at - w.t0) / shBucket)
		if b <= nb-shBuckets || b >= nb { // older than the window, or the current bucket
			continue
		}
		if out[b] == nil {
			out[b] = &[2]float64{}
		}
		out[b][0] += a.v
		out[b][1]++
	}
	return out
}

type shSys struct {
	r           *vrt.Run
	sh          *adaptiveShedder
	cpuHi       bool
	promises    []Promise
	starts      []time.Duration
	pass, rt    refWindow
	avg         float64
	flying      int64
	lastOverSee time.Duration // last time an Allow observed cpu >= threshold
	everOver    bool
	decisions   []string
}

func newShSys(r *vrt.Run) *shSys {
	s := &shSys{r: r}
	systemOverloadChecker = func(int64) bool { return s.cpuHi }
	s.sh = NewAdaptiveShedder(WithWindow(shWindow), WithBuckets(shBuckets), WithCpuThreshold(shCPU)).(*adaptiveShedder)
	s.pass.t0, s.rt.t0 = vrt.Elapsed(), vrt.Elapsed()
	return s
}

func (s *shSys) maxFlight() int64 {
	now := vrt.Elapsed()
	maxPass := float64(1)
	for _, b := range s.pass.buckets(now) {
		if b[0] > maxPass {
			maxPass = b[0]
		}
	}
	minRt := float64(1000)
	for _, b := range s.rt.buckets(now) {
		if b[1] > 0 {
			if avg := math.Round(b[0] / b[1]); avg < minRt {
				minRt = avg
			}
		}
	}
	windows := int64(time.Second / shBucket)
	return int64(math.Max(1, float64(int64(maxPass)*windows)*(minRt/1e3)))
}

func (s *shSys) allow() {
	now := vrt.Elapsed()
	mf := s.maxFlight()
	p, err := s.sh.Allow()
	if s.cpuHi {
		s.lastOverSee, s.everOver = now, true
	}
	if err != nil {
		s.decisions = append(s.decisions, "R")
		if err != ErrServiceOverloaded {
			s.r.Failf("Allow returned unexpected error %v", err)
		}
		overloaded := s.cpuHi || (s.everOver && now-s.lastOverSee < time.Second)
		if !overloaded {
			s.r.Failf("rejected at +%v although cpu is below the threshold and no overload was observed in the last second (last %v ago)", now, now-s.lastOverSee)
		}
		if !(int64(s.avg) > mf && s.flying > mf) {
			s.r.Failf("rejected although in-flight does not exceed capacity: flying=%d avgFlying=%.3f maxFlight=%d", s.flying, s.avg, mf)
		}
		return
	}
	s.decisions = append(s.decisions, "A")
	s.promises = append(s.promises, p)
	s.starts = append(s.starts, now)
	s.flying++
}

func (s *shSys) complete(i int, pass bool) {
	now := vrt.Elapsed()
	p := s.promises[i]
	st := s.starts[i]
	s.promises = append(s.promises[:i], s.promises[i+1:]...)
	s.starts = append(s.starts[:i], s.starts[i+1:]...)
	s.flying--
	s.avg = s.avg*0.9 + float64(s.flying)*0.1
	if pass {
		p.Pass()
		rt := math.Ceil(float64(now-st) / float64(time.Millisecond))
		s.rt.adds = append(s.rt.adds, shAdd{now, rt})
		s.pass.adds = append(s.pass.adds, shAdd{now, 1})
	} else {
		p.Fail()
	}
}

func (s *shSys) apply(op string) bool {
	switch op {
	case "cpuhi":
		if s.cpuHi {
			return false
		}
		s.cpuHi = true
	case "cpulo":
		if !s.cpuHi {
			return false
		}
		s.cpuHi = false
	case "allow":
		s.allow()
	case "hot":
		// a short overload episode in one step: CPU high, in-flight driven above capacity,
		// one more arrival (rejected if the shedder is right to), CPU back to normal
		if s.cpuHi {
			return false
		}
		s.cpuHi = true
		for i := 0; i < 40; i++ {
			s.allow()
		}
		for i := 0; i < 5 && len(s.promises) > 0; i++ {
			s.complete(0, true)
		}
		s.allow()
		s.cpuHi = false
	case "allow20":
		for i := 0; i < 20; i++ {
			s.allow()
		}
	case "load":
		for i := 0; i < 20; i++ {
			s.allow()
		}
		for i := 0; i < 3 && len(s.promises) > 0; i++ {
			s.complete(0, true)
		}
	case "pass1", "fail1", "passnew":
		if len(s.promises) == 0 {
			return false
		}
		i := 0
		if op == "passnew" {
			i = len(s.promises) - 1
		}
		s.complete(i, op != "fail1")
	case "pass5":
		if len(s.promises) < 5 {
			return false
		}
		for i := 0; i < 5; i++ {
			s.complete(0, true)
		}
	case "settle":
		if len(s.promises) == 0 {
			return false
		}
		for len(s.promises) > 0 {
			s.complete(0, len(s.promises)%2 == 0)
		}
	default:
		if strings.HasPrefix(op, "u") {
			// latencies are not whole milliseconds: they are recorded rounded up
			var us int
			fmt.Sscanf(op, "u%d", &us)
			vrt.Advance(time.Duration(us) * time.Microsecond)
			break
		}
		var ms int
		fmt.Sscanf(op, "t%d", &ms)
		vrt.Advance(time.Duration(ms) * time.Millisecond)
	}
	// invariants after every op
	if got := s.sh.flying; got != s.flying {
		s.r.Failf("after %s: in-flight counter %d, admitted-unsettled %d", op, got, s.flying)
	}
	if len(s.promises) == 0 && s.sh.flying != 0 {
		s.r.Failf("after %s: every promise settled but in-flight = %d", op, s.sh.flying)
	}
	if math.Abs(s.sh.avgFlying-s.avg) > 1e-9 {
		s.r.Failf("after %s: smoothed in-flight %.6f, reference %.6f", op, s.sh.avgFlying, s.avg)
	}
	if got, want := s.sh.maxFlight(), s.maxFlight(); got != want {
		s.r.Failf("after %s at +%v: capacity estimate %d, reference %d", op, vrt.Elapsed(), got, want)
	}
	return true
}

func (s *shSys) canon() string {
	now := vrt.Elapsed()
	var st []string
	for _, x := range s.starts {
		st = append(st, fmt.Sprint(now-x))
	}
	win := func(w *refWindow) string {
		var out []string
		nb := int((now - w.t0) / shBucket)
		for _, a := range w.adds {
			if b := int((a.at - w.t0) / shBucket); b > nb-shBuckets-1 {
				out = append(out, fmt.Sprintf("%d:%g", nb-b, a.v))
			}
		}
		return strings.Join(out, ",")
	}
	over := "never"
	if s.everOver {
		d := now - s.lastOverSee
		if d > time.Second {
			d = time.Second
		}
		over = fmt.Sprint(d)
	}
	realOver := "never"
	if ot := s.sh.overloadTime.Load(); ot != 0 {
		d := timex.Since(ot)
		if d > time.Second {
			d = time.Second
		}
		realOver = fmt.Sprint(d)
	}
	return fmt.Sprintf("realover=%s|fl=%d|cpu=%v|out=%v|avg=%.4f|over=%s|dr=%v|ph=%v|p=%s|rt=%s", realOver, s.sh.flying, s.cpuHi, st, s.avg, over, s.sh.droppedRecently.True(), (now-s.pass.t0)%shBucket, win(&s.pass), win(&s.rt))
}

func TestVerifShedder(t *testing.T) {
	defer vrt.WriteReport()
	logx.Disable()
	DisableLog()
	stat.SetReporter(nil)
	ops := []string{"allow", "load", "allow20", "pass1", "passnew", "pass5", "fail1", "settle", "cpuhi", "cpulo", "hot", "u300", "u1500", "t10", "t100", "t600", "t1000", "t5000"}
	depth := 5
	if vrt.Thorough() {
		depth = 7
	}
	rejects, accepts := 0, 0
	defer func() {
		vrt.AddNote("shedder: decisions observed over all explored histories of this shard: %d rejections, %d admissions", rejects, accepts)
	}()
	for i, first := range ops {
		if !vrt.Shard(i) {
			continue
		}
		first := first
		vrt.BFS(vrt.Options{Name: "shedder/first=" + first}, depth-1, ops, func(r *vrt.Run, hist []string) vrt.Step {
			s := newShSys(r)
			if !s.apply(first) {
				return vrt.Step{Canon: "n/a", Terminal: true}
			}
			for _, op := range hist {
				if !s.apply(op) {
					return vrt.Step{}
				}
				if r.Failed() {
					return vrt.Step{Canon: "failed"}
				}
			}
			r.Outcome("%s", strings.Join(s.decisions, ""))
			if n := len(s.decisions); n > 0 && len(hist) > 0 && strings.Contains(hist[len(hist)-1], "allow") {
				if s.decisions[n-1] == "R" {
					rejects++
				} else {
					accepts++
				}
			}
			return vrt.Step{Canon: s.canon()}
		})
	}
}

// Arrivals and completions on different goroutines: whatever the interleaving, once every
// admitted request has reported Pass or Fail the in-flight count is back at zero (and never
// negative on the way).
func TestVerifShedderConcurrent(t *testing.T) {
	defer vrt.WriteReport()
	logx.Disable()
	DisableLog()
	stat.SetReporter(nil)
	if !vrt.Shard(17) {
		return
	}
	bound := 2
	if vrt.Thorough() {
		bound = 3
	}
	for _, kind := range []string{"allow|pass", "allow|fail", "allow|pass|pass", "allow|allow|pass"} {
		kind := kind
		vrt.Explore(vrt.Options{Name: "shedder/concurrent/" + kind, Bound: bound, Prune: true, Budget: vrt.FairBudget(1)}, func(r *vrt.Run) {
			systemOverloadChecker = func(int64) bool { return false }
			sh := NewAdaptiveShedder(WithWindow(shWindow), WithBuckets(shBuckets), WithCpuThreshold(shCPU)).(*adaptiveShedder)
			// two requests already admitted
			var open []Promise
			for i := 0; i < 2; i++ {
				p, err := sh.Allow()
				if err != nil {
					r.Failf("Allow: %v", err)
					return
				}
				open = append(open, p)
			}
			vrt.Advance(3 * time.Millisecond)
			var mu sync.Mutex
			var wg sync.WaitGroup
			next := 0
			var admitted []Promise
			minFlying := int64(0)
			for _, role := range strings.Split(kind, "|") {
				role := role
				wg.Add(1)
				go func() {
					defer wg.Done()
					switch role {
					case "allow":
						if p, err := sh.Allow(); err == nil {
							mu.Lock()
							admitted = append(admitted, p)
							mu.Unlock()
						}
					default:
						mu.Lock()
						p := open[next]
						next++
						mu.Unlock()
						if role == "pass" {
							p.Pass()
						} else {
							p.Fail()
						}
					}
					if f := atomic.LoadInt64(&sh.flying); f < 0 {
						mu.Lock()
						if f < minFlying {
							minFlying = f
						}
						mu.Unlock()
					}
				}()
			}
			wg.Wait()
			for _, p := range open[next:] {
				p.Pass()
			}
			for _, p := range admitted {
				p.Pass()
			}
			got := atomic.LoadInt64(&sh.flying)
			r.Outcome("flying=%d", got)
			if got != 0 {
				r.Failf("every admitted request has reported Pass or Fail, but the in-flight count is %d", got)
			}
			if minFlying < 0 {
				r.Failf("the in-flight count went negative (%d)", minFlying)
			}
		})
	}
}
