package collection

import (
	"fmt"
	"sort"
	"strings"
	"sync"
	"testing"
	"time"

	vrt "github.com/gotid/god"
	"github.com/gotid/god/lib/timex"
)

const rwInterval = 100 * time.Millisecond

type rwAdd struct {
	at time.Duration // virtual elapsed at the time of the add
	v  float64
}

type rwSys struct {
	r      *vrt.Run
	size   int
	ignore bool
	w      *RollingWindow
	t0     time.Duration
	adds   []rwAdd
}

func newRwSys(r *vrt.Run, size int, ignore bool) *rwSys {
	s := &rwSys{r: r, size: size, ignore: ignore}
	if ignore {
		s.w = NewRollingWindow(size, rwInterval, IgnoreCurrentBucket())
	} else {
		s.w = NewRollingWindow(size, rwInterval)
	}
	s.t0 = vrt.Elapsed()
	return s
}

func (s *rwSys) bucket(t time.Duration) int { return int((t - s.t0) / rwInterval) }

// expected per-bucket (sum,count) of the non-empty buckets a reduction must see now
func (s *rwSys) expected() []string {
	now := s.bucket(vrt.Elapsed())
	agg := map[int]*Bucket{}
	for _, a := range s.adds {
		b := s.bucket(a.at)
		if b <= now-s.size || b > now {
			continue
		}
		if s.ignore && b == now {
			continue
		}
		if agg[b] == nil {
			agg[b] = &Bucket{}
		}
		agg[b].Sum += a.v
		agg[b].Count++
	}
	var out []string
	for b, x := range agg {
		out = append(out, fmt.Sprintf("age%d:%g/%d", now-b, x.Sum, x.Count))
	}
	sort.Strings(out)
	return out
}

func (s *rwSys) observed() []string {
	var out []string
	n := 0
	s.w.Reduce(func(b *Bucket) {
		n++
		if b.Count != 0 || b.Sum != 0 {
			out = append(out, fmt.Sprintf("%g/%d", b.Sum, b.Count))
		}
	})
	if n > s.size {
		s.r.Failf("Reduce visited %d buckets, window size %d", n, s.size)
	}
	sort.Strings(out)
	return out
}

func stripAge(in []string) []string {
	var out []string
	for _, x := range in {
		out = append(out, x[strings.Index(x, ":")+1:])
	}
	sort.Strings(out)
	return out
}

func (s *rwSys) check(op string) {
	want := stripAge(s.expected())
	got := s.observed()
	if fmt.Sprint(got) != fmt.Sprint(want) {
		s.r.Failf("after %s at +%v: Reduce saw buckets %v, want %v (adds %v)", op, vrt.Elapsed()-s.t0, got, want, s.adds)
	}
}

func (s *rwSys) apply(op string) {
	switch {
	case op == "add1":
		s.adds = append(s.adds, rwAdd{vrt.Elapsed(), 1})
		s.w.Add(1)
	case op == "add3":
		s.adds = append(s.adds, rwAdd{vrt.Elapsed(), 3})
		s.w.Add(3)
	case op == "reduce":
	case strings.HasPrefix(op, "t"):
		var ms int
		fmt.Sscanf(op, "t%d", &ms)
		vrt.Advance(time.Duration(ms) * time.Millisecond)
	}
	s.check(op)
}

func (s *rwSys) canon() string {
	now := vrt.Elapsed()
	phase := (now - s.t0) % rwInterval
	// implementation view: bucket contents rotated so that the current offset comes first
	var impl []string
	for i := 0; i < s.size; i++ {
		b := s.w.win.buckets[(s.w.offset+1+i)%s.size]
		impl = append(impl, fmt.Sprintf("%g/%d", b.Sum, b.Count))
	}
	lag := timex.Since(s.w.lastTime)
	if lag > time.Duration(s.size+1)*rwInterval {
		lag = time.Duration(s.size+1)*rwInterval + lag%rwInterval
	}
	// model view: adds still inside size+1 buckets (older ones can never be seen again)
	nowB := s.bucket(now)
	var mod []string
	for _, a := range s.adds {
		if b := s.bucket(a.at); b > nowB-s.size-1 {
			mod = append(mod, fmt.Sprintf("%d:%g", nowB-b, a.v))
		}
	}
	sort.Strings(mod)
	return fmt.Sprintf("ph%v|lag%v|%v|%v", phase, lag, impl, mod)
}

func TestVerifRollingWindow(t *testing.T) {
	defer vrt.WriteReport()
	depth := 6
	sizes := []int{1, 2, 3, 4}
	if vrt.Thorough() {
		depth = 9
		sizes = []int{1, 2, 3, 4, 5}
	}
	idx := 0
	for _, size := range sizes {
		for _, ignore := range []bool{false, true} {
			idx++
			if !vrt.Shard(idx) {
				continue
			}
			size, ignore := size, ignore
			ops := []string{"add1", "add3", "reduce", "t40", "t100", "t140", "t300",
				fmt.Sprintf("t%d", size*100), fmt.Sprintf("t%d", size*100+40), fmt.Sprintf("t%d", 3*size*100), fmt.Sprintf("t%d", size*100-40)}
			vrt.BFS(vrt.Options{Name: fmt.Sprintf("rollingwindow/size=%d/ignoreCurrent=%v", size, ignore)}, depth, ops, func(r *vrt.Run, hist []string) vrt.Step {
				s := newRwSys(r, size, ignore)
				for _, op := range hist {
					s.apply(op)
					if r.Failed() {
						return vrt.Step{Canon: "failed"}
					}
				}
				return vrt.Step{Canon: s.canon()}
			})
		}
	}
}

// concurrent adders: nothing lost or counted twice
func TestVerifRollingWindowConcurrent(t *testing.T) {
	defer vrt.WriteReport()
	if !vrt.Shard(0) {
		return
	}
	bound := 2
	if vrt.Thorough() {
		bound = 3
	}
	for _, withTick := range []bool{false, true} {
		withTick := withTick
		vrt.Explore(vrt.Options{Name: fmt.Sprintf("rollingwindow/concurrent-adders/tick=%v", withTick), Bound: bound, Prune: true}, func(r *vrt.Run) {
			w := NewRollingWindow(3, rwInterval)
			var wg sync.WaitGroup
			for i := 0; i < 2; i++ {
				wg.Add(1)
				go func() {
					defer wg.Done()
					w.Add(1)
					w.Add(2)
				}()
			}
			if withTick {
				wg.Add(1)
				go func() {
					defer wg.Done()
					vrt.Advance(rwInterval)
				}()
			}
			wg.Wait()
			var sum float64
			var cnt int64
			w.Reduce(func(b *Bucket) { sum += b.Sum; cnt += b.Count })
			r.Outcome("sum=%g cnt=%d", sum, cnt)
			if sum != 6 || cnt != 4 {
				r.Failf("concurrent adds lost or doubled: sum=%g count=%d, want 6/4", sum, cnt)
			}
		})
	}
}

// Real time does not stand still inside an operation: the clock may have moved on between
// two reads of it within one Add (environment deviation, vrt.SetClockStep).  An add is then
// attributed to any bucket between the one current when it began and the one current when it
// returned; everything else is judged as before: nothing older than `size` buckets is seen,
// nothing recent is lost.
func TestVerifRollingWindowClockMovesInsideAdd(t *testing.T) {
	defer vrt.WriteReport()
	if !vrt.Shard(7) {
		return
	}
	for _, size := range []int{2, 3} {
		for _, startMs := range []int{199, 299, 499} {
			size, startMs := size, startMs
			vrt.Explore(vrt.Options{Name: fmt.Sprintf("rollingwindow/clock-moves-inside-add/size=%d/at=%dms", size, startMs), Bound: 2}, func(r *vrt.Run) {
				w := NewRollingWindow(size, rwInterval)
				t0 := vrt.Elapsed()
				bucket := func(d time.Duration) int { return int((d - t0) / rwInterval) }
				vrt.Advance(150 * time.Millisecond)
				w.Add(1) // bucket 1, no doubt about it
				vrt.Advance(time.Duration(startMs-150) * time.Millisecond)
				vrt.SetClockStep(2 * time.Millisecond)
				lo := bucket(vrt.Elapsed())
				w.Add(3)
				hi := bucket(vrt.Elapsed())
				vrt.SetClockStep(0)
				r.Outcome("second add in bucket %d..%d", lo, hi)
				for k := 0; k < size+3; k++ {
					next := time.Duration((hi+1+k)*100+50)*time.Millisecond + t0
					vrt.Advance(next - vrt.Elapsed())
					now := bucket(vrt.Elapsed())
					var got []string
					w.Reduce(func(b *Bucket) {
						if b.Count != 0 {
							got = append(got, fmt.Sprintf("%g/%d", b.Sum, b.Count))
						}
					})
					sort.Strings(got)
					okAny := false
					var wants []string
					for b2 := lo; b2 <= hi; b2++ {
						agg := map[int]*Bucket{}
						for _, a := range []struct {
							b int
							v float64
						}{{1, 1}, {b2, 3}} {
							if a.b <= now-size || a.b > now {
								continue
							}
							if agg[a.b] == nil {
								agg[a.b] = &Bucket{}
							}
							agg[a.b].Sum += a.v
							agg[a.b].Count++
						}
						var want []string
						for _, x := range agg {
							want = append(want, fmt.Sprintf("%g/%d", x.Sum, x.Count))
						}
						sort.Strings(want)
						wants = append(wants, fmt.Sprint(want))
						if fmt.Sprint(want) == fmt.Sprint(got) {
							okAny = true
						}
					}
					if !okAny {
						r.Failf("window of %d buckets, Add(1) in bucket 1, Add(3) between bucket %d and %d (the clock moved during the call): in bucket %d Reduce sees %v, want one of %v", size, lo, hi, now, got, wants)
						return
					}
				}
			})
		}
	}
}
