package internal

import (
	"context"
	"sort"
	"strings"

	"github.com/gotid/god/lib/syncx"
	"go.etcd.io/etcd/api/v3/etcdserverpb"
	"go.etcd.io/etcd/api/v3/mvccpb"
	clientv3 "go.etcd.io/etcd/client/v3"
	"google.golang.org/grpc"
)

// VerifEtcd is a scripted etcd: a keyspace with revisions, watch channels whose
// delivery the harness controls, and connection loss that makes events go missing.
type VerifEtcd struct {
	KV        map[string]string
	Rev       int64
	Connected bool
	watchers  []*verifWatcher
	Gets      int
}

type verifWatcher struct {
	ch      chan clientv3.WatchResponse
	prefix  string
	pending []*clientv3.Event
	dead    bool
}

func NewVerifEtcd() *VerifEtcd { return &VerifEtcd{KV: map[string]string{}, Rev: 1, Connected: true} }

func (f *VerifEtcd) ActiveConnection() *grpc.ClientConn { return nil }
func (f *VerifEtcd) Close() error                       { return nil }
func (f *VerifEtcd) Ctx() context.Context               { return context.Background() }
func (f *VerifEtcd) Grant(ctx context.Context, ttl int64) (*clientv3.LeaseGrantResponse, error) {
	return nil, nil
}
func (f *VerifEtcd) KeepAlive(ctx context.Context, id clientv3.LeaseID) (<-chan *clientv3.LeaseKeepAliveResponse, error) {
	return nil, nil
}
func (f *VerifEtcd) Put(ctx context.Context, key, val string, opts ...clientv3.OpOption) (*clientv3.PutResponse, error) {
	return nil, nil
}
func (f *VerifEtcd) Revoke(ctx context.Context, id clientv3.LeaseID) (*clientv3.LeaseRevokeResponse, error) {
	return nil, nil
}

func (f *VerifEtcd) Get(ctx context.Context, key string, opts ...clientv3.OpOption) (*clientv3.GetResponse, error) {
	f.Gets++
	var keys []string
	for k := range f.KV {
		if strings.HasPrefix(k, key) {
			keys = append(keys, k)
		}
	}
	sort.Strings(keys)
	resp := &clientv3.GetResponse{Header: &etcdserverpb.ResponseHeader{Revision: f.Rev}}
	for _, k := range keys {
		resp.Kvs = append(resp.Kvs, &mvccpb.KeyValue{Key: []byte(k), Value: []byte(f.KV[k])})
	}
	return resp, nil
}

func (f *VerifEtcd) Watch(ctx context.Context, key string, opts ...clientv3.OpOption) clientv3.WatchChan {
	w := &verifWatcher{ch: make(chan clientv3.WatchResponse, 64), prefix: key, dead: !f.Connected}
	f.watchers = append(f.watchers, w)
	return w.ch
}

func (f *VerifEtcd) queue(ev *clientv3.Event) {
	if !f.Connected {
		return // missed: only the next snapshot shows it
	}
	for _, w := range f.watchers {
		if !w.dead && strings.HasPrefix(string(ev.Kv.Key), w.prefix) {
			w.pending = append(w.pending, ev)
		}
	}
}

func (f *VerifEtcd) PutKV(k, v string) {
	f.Rev++
	f.KV[k] = v
	f.queue(&clientv3.Event{Type: clientv3.EventTypePut, Kv: &mvccpb.KeyValue{Key: []byte(k), Value: []byte(v)}})
}

func (f *VerifEtcd) DelKV(k string) {
	v, ok := f.KV[k]
	if !ok {
		return
	}
	f.Rev++
	delete(f.KV, k)
	f.queue(&clientv3.Event{Type: clientv3.EventTypeDelete, Kv: &mvccpb.KeyValue{Key: []byte(k), Value: []byte(v)}})
}

// Pending reports whether any live watcher has undelivered events.
func (f *VerifEtcd) Pending() bool {
	for _, w := range f.watchers {
		if !w.dead && len(w.pending) > 0 {
			return true
		}
	}
	return false
}

// Deliver hands the queued events to the watch channels (one response per watcher).
func (f *VerifEtcd) Deliver() {
	for _, w := range f.watchers {
		if !w.dead && len(w.pending) > 0 {
			evs := w.pending
			w.pending = nil
			w.ch <- clientv3.WatchResponse{Events: evs}
		}
	}
}

// Disconnect: the watch streams are broken; queued but undelivered events are lost.
func (f *VerifEtcd) Disconnect() {
	f.Connected = false
	for _, w := range f.watchers {
		w.dead = true
		w.pending = nil
	}
}

// ---- hooks into the package-level registry -------------------------------------------

// VerifReset gives every execution a fresh registry.
func VerifReset() {
	registry.lock.Lock()
	registry.clusters = make(map[string]*cluster)
	registry.lock.Unlock()
	connManager = syncx.NewResourceManager()
}

// VerifSeed makes the registry use cli for the given endpoints (no real etcd dial).
func VerifSeed(endpoints []string, cli EtcdClient) {
	connManager.Set(getClusterKey(append([]string{}, endpoints...)), cli)
}

// VerifReconnect is what the connection-state watcher does when the connection comes
// back: it starts a reload.
func VerifReconnect(endpoints []string, f *VerifEtcd) {
	f.Connected = true
	c, _ := registry.getCluster(append([]string{}, endpoints...))
	go c.reload(f)
}

// VerifCached returns the registry's cached key/value view for key (nil if none).
func VerifCached(endpoints []string, key string) map[string]string {
	c, _ := registry.getCluster(append([]string{}, endpoints...))
	c.lock.Lock()
	defer c.lock.Unlock()
	vals, ok := c.values[key]
	if !ok {
		return nil
	}
	out := map[string]string{}
	for k, v := range vals {
		out[k] = v
	}
	return out
}
