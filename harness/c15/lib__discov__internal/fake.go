package internal

import (
	"context"
	"sort"
	"strings"

	"github.com/gotid/god/lib/syncx"
	"go.etcd.io/etcd/api/v3/etcdserverpb"
	"go.etcd.io/etcd/api/v3/mvccpb"
	clientv3 "go.etcd.io/etcd/client/v3"
	"google.golang.org/grpc"
)

// VerifEtcd is a scripted etcd: a keyspace with revisions, watch channels whose
// delivery the harness controls, and connection loss that makes events go missing.
type VerifEtcd struct {
	KV        map[string]string
	Rev       int64
	Connected bool
	watchers  []*verifWatcher
	Gets      int
	// revision history, as etcd keeps it: a watch opened "from revision r" is first fed
	// every logged change of its prefix with revision >= r
	modRev map[string]int64
	log    []verifLogged
	// AfterGet, if set, runs once right after the next snapshot read: a change landing
	// between a subscriber's snapshot and the start of its watch
	AfterGet func()
}

type verifLogged struct {
	rev int64
	ev  *clientv3.Event
}

type verifWatcher struct {
	ch      chan clientv3.WatchResponse
	prefix  string
	pending []*clientv3.Event
	dead    bool
}

func NewVerifEtcd() *VerifEtcd {
	return &VerifEtcd{KV: map[string]string{}, Rev: 1, Connected: true, modRev: map[string]int64{}}
}

func (f *VerifEtcd) ActiveConnection() *grpc.ClientConn { return nil }
func (f *VerifEtcd) Close() error                       { return nil }
func (f *VerifEtcd) Ctx() context.Context               { return context.Background() }
func (f *VerifEtcd) Grant(ctx context.Context, ttl int64) (*clientv3.LeaseGrantResponse, error) {
	return nil, nil
}
func (f *VerifEtcd) KeepAlive(ctx context.Context, id clientv3.LeaseID) (<-chan *clientv3.LeaseKeepAliveResponse, error) {
	return nil, nil
}
func (f *VerifEtcd) Put(ctx context.Context, key, val string, opts ...clientv3.OpOption) (*clientv3.PutResponse, error) {
	return nil, nil
}
func (f *VerifEtcd) Revoke(ctx context.Context, id clientv3.LeaseID) (*clientv3.LeaseRevokeResponse, error) {
	return nil, nil
}

func (f *VerifEtcd) Get(ctx context.Context, key string, opts ...clientv3.OpOption) (*clientv3.GetResponse, error) {
	f.Gets++
	var keys []string
	for k := range f.KV {
		if strings.HasPrefix(k, key) {
			keys = append(keys, k)
		}
	}
	sort.Strings(keys)
	resp := &clientv3.GetResponse{Header: &etcdserverpb.ResponseHeader{Revision: f.Rev}}
	for _, k := range keys {
		resp.Kvs = append(resp.Kvs, &mvccpb.KeyValue{Key: []byte(k), Value: []byte(f.KV[k]), ModRevision: f.modRev[k]})
	}
	if hook := f.AfterGet; hook != nil {
		f.AfterGet = nil
		hook()
	}
	return resp, nil
}

func (f *VerifEtcd) Watch(ctx context.Context, key string, opts ...clientv3.OpOption) clientv3.WatchChan {
	w := &verifWatcher{ch: make(chan clientv3.WatchResponse, 64), prefix: key, dead: !f.Connected}
	if from := clientv3.OpGet(key, opts...).Rev(); from > 0 && !w.dead {
		for _, l := range f.log {
			if l.rev >= from && strings.HasPrefix(string(l.ev.Kv.Key), key) {
				w.pending = append(w.pending, l.ev)
			}
		}
	}
	f.watchers = append(f.watchers, w)
	return w.ch
}

func (f *VerifEtcd) queue(ev *clientv3.Event) {
	f.log = append(f.log, verifLogged{f.Rev, ev})
	if !f.Connected {
		return // missed: only the next snapshot shows it
	}
	for _, w := range f.watchers {
		if !w.dead && strings.HasPrefix(string(ev.Kv.Key), w.prefix) {
			w.pending = append(w.pending, ev)
		}
	}
}

func (f *VerifEtcd) PutKV(k, v string) {
	f.Rev++
	f.KV[k] = v
	f.modRev[k] = f.Rev
	f.queue(&clientv3.Event{Type: clientv3.EventTypePut, Kv: &mvccpb.KeyValue{Key: []byte(k), Value: []byte(v), ModRevision: f.Rev}})
}

func (f *VerifEtcd) DelKV(k string) {
	v, ok := f.KV[k]
	if !ok {
		return
	}
	f.Rev++
	delete(f.KV, k)
	delete(f.modRev, k)
	f.queue(&clientv3.Event{Type: clientv3.EventTypeDelete, Kv: &mvccpb.KeyValue{Key: []byte(k), Value: []byte(v), ModRevision: f.Rev}})
}

// Pending reports whether any live watcher has undelivered events.
func (f *VerifEtcd) Pending() bool {
	for _, w := range f.watchers {
		if !w.dead && len(w.pending) > 0 {
			return true
		}
	}
	return false
}

// Deliver hands the queued events to the watch channels (one response per watcher).
func (f *VerifEtcd) Deliver() {
	for _, w := range f.watchers {
		if !w.dead && len(w.pending) > 0 {
			evs := w.pending
			w.pending = nil
			w.ch <- clientv3.WatchResponse{Events: evs}
		}
	}
}

// Disconnect: the watch streams are broken; queued but undelivered events are lost.
func (f *VerifEtcd) Disconnect() {
	f.Connected = false
	for _, w := range f.watchers {
		w.dead = true
		w.pending = nil
	}
}

// ---- hooks into the package-level registry -------------------------------------------

// VerifReset gives every execution a fresh registry.
func VerifReset() {
	registry.lock.Lock()
	registry.clusters = make(map[string]*cluster)
	registry.lock.Unlock()
	connManager = syncx.NewResourceManager()
}

// VerifSeed makes the registry use cli for the given endpoints (no real etcd dial).
func VerifSeed(endpoints []string, cli EtcdClient) {
	connManager.Set(getClusterKey(append([]string{}, endpoints...)), cli)
}

// VerifReconnect is what the connection-state watcher does when the connection comes
// back: it starts a reload.
func VerifReconnect(endpoints []string, f *VerifEtcd) {
	f.Connected = true
	c, _ := registry.getCluster(append([]string{}, endpoints...))
	go c.reload(f)
}

// VerifCached returns the registry's cached key/value view for key (nil if none).
func VerifCached(endpoints []string, key string) map[string]string {
	c, _ := registry.getCluster(append([]string{}, endpoints...))
	c.lock.Lock()
	defer c.lock.Unlock()
	vals, ok := c.values[key]
	if !ok {
		return nil
	}
	out := map[string]string{}
	for k, v := range vals {
		out[k] = v
	}
	return out
}
