package internal_test

import (
	"fmt"
	"sort"
	"strings"
	"testing"

	vrt "github.com/gotid/god"
	"github.com/gotid/god/lib/discov"
	"github.com/gotid/god/lib/discov/internal"
	"github.com/gotid/god/lib/logx"
)

var dEndpoints = []string{"etcd-1:2379"}

const dKey = "svc"
const dKey2 = "svc.v2" // a second service whose name extends the first one as a string: its keys are not under "svc/"

// each key carries one value during its life (as publishers produce)
// ("k1b" is the key of k1 in a later life of its publisher, now carrying vB: a key carries
// one value during its life, but it may expire and be registered again with another one)
var dValueOf = map[string]string{"k1": "vA", "k2": "vA", "k3": "vB", "o1": "vC", "k1b": "vB"}

type dSub struct {
	s         *discov.Subscriber
	key       string // watched prefix
	exclusive bool
	notified  int
	// exclusive reference: value -> the most recent key that published it, as seen by
	// this subscriber; a value whose arrival order was ambiguous is not asserted
	owner     map[string]string
	ambiguous map[string]bool
	staleJoin bool // joined while the registry's cached view differed from the keyspace
	lastWant  string
	hasLast   bool
}

func (d *dSub) add(key, val string) { d.owner[val] = key }
func (d *dSub) del(key, val string) {
	if d.owner[val] == key {
		delete(d.owner, val)
	}
}

// snapshot applies a reload diff (adds first, then removes, as the registry does)
func (d *dSub) snapshot(old, cur map[string]string) {
	perVal := map[string]int{}
	var adds []string
	for k, v := range cur {
		if ov, ok := old[k]; !ok || ov != v {
			adds = append(adds, k)
			perVal[v]++
		}
	}
	sort.Strings(adds)
	for _, k := range adds {
		if perVal[cur[k]] > 1 {
			d.ambiguous[cur[k]] = true
		}
		d.add(k, cur[k])
	}
	for k, v := range old {
		if nv, ok := cur[k]; !ok || nv != v {
			d.del(k, v)
		}
	}
}

type dSys struct {
	r    *vrt.Run
	f    *internal.VerifEtcd
	subs []*dSub
	// reference
	visible map[string]string   // keyspace as known through delivered events / snapshots
	pending []string            // undelivered ops: "put:k" / "del:k"
	order   map[string][]string // exclusive reference: value -> publishing keys in arrival order, per subscriber index
}

func newDSys(r *vrt.Run) *dSys {
	internal.VerifReset()
	s := &dSys{r: r, f: internal.NewVerifEtcd(), visible: map[string]string{}}
	internal.VerifSeed(dEndpoints, s.f)
	return s
}

func full(k string) string {
	k = strings.TrimSuffix(k, "b")
	if strings.HasPrefix(k, "o") {
		return dKey2 + "/" + k
	}
	return dKey + "/" + k
}

func under(prefix string, m map[string]string) map[string]string {
	out := map[string]string{}
	for k, v := range m {
		if strings.HasPrefix(k, prefix+"/") {
			out[k] = v
		}
	}
	return out
}

func (s *dSys) subscribe(exclusive bool) { s.subscribeKey(exclusive, dKey) }

func (s *dSys) subscribeKey(exclusive bool, key string) {
	staleJoin := false
	if len(s.subs) > 0 {
		if cached := internal.VerifCached(dEndpoints, key); cached != nil {
			staleJoin = fmt.Sprint(sortedKV(cached)) != fmt.Sprint(sortedKV(under(key, s.f.KV)))
		}
	}
	var opts []discov.SubOption
	if exclusive {
		opts = append(opts, discov.Exclusive())
	}
	// what a snapshot read during the join returns (a change may land right after it: subgap)
	atSnapshot := map[string]string{}
	for k, v := range s.f.KV {
		atSnapshot[k] = v
	}
	sub, err := discov.NewSubscriber(append([]string{}, dEndpoints...), key, opts...)
	if err != nil {
		s.r.Failf("NewSubscriber: %v", err)
		return
	}
	d := &dSub{s: sub, key: key, exclusive: exclusive, owner: map[string]string{}, ambiguous: map[string]bool{}, staleJoin: staleJoin}
	sub.AddListener(func() { d.notified++ })
	// a (re)load happened inside Monitor: the snapshot is visible now
	cur := map[string]string{}
	for k, v := range s.visible {
		if !strings.HasPrefix(k, key+"/") {
			cur[k] = v // other prefixes are not reloaded by this join
		}
	}
	for k, v := range under(key, atSnapshot) {
		cur[k] = v
	}
	for _, o := range s.subs {
		if o.key == key {
			o.snapshot(under(key, s.visible), under(key, cur))
		}
	}
	d.snapshot(map[string]string{}, under(key, cur))
	// joining while events are still undelivered: the registry hands over its own
	// (not yet updated) view first; arrival order of the affected values is unspecified
	var keep []string
	for _, p := range s.pending {
		k := strings.Split(p, ":")[1]
		if strings.HasPrefix(full(k), key+"/") {
			d.ambiguous[dValueOf[k]] = true
			// the join's snapshot already contains this change; the queued event is still
			// delivered later and must be harmless
		}
		keep = append(keep, p)
	}
	s.subs = append(s.subs, d)
	s.visible = cur
	s.pending = keep
}

func (s *dSys) applyPending() {
	for _, p := range s.pending {
		f := strings.Split(p, ":")
		if f[0] == "put" {
			s.visible[full(f[1])] = dValueOf[f[1]]
			for _, d := range s.subs {
				if strings.HasPrefix(full(f[1]), d.key+"/") {
					d.add(full(f[1]), dValueOf[f[1]])
				}
			}
		} else {
			delete(s.visible, full(f[1]))
			for _, d := range s.subs {
				if strings.HasPrefix(full(f[1]), d.key+"/") {
					d.del(full(f[1]), dValueOf[f[1]])
				}
			}
		}
	}
	s.pending = nil
}

func (s *dSys) apply(op string) bool {
	f := strings.Split(op, ":")
	before := make([]int, len(s.subs))
	for i, d := range s.subs {
		before[i] = d.notified
	}
	changed := false
	switch f[0] {
	case "sub":
		if len(s.subs) >= 2 {
			return false
		}
		if f[1] == "o" {
			for _, d := range s.subs {
				if d.key == dKey2 {
					return false
				}
			}
			s.subscribeKey(false, dKey2)
		} else {
			s.subscribe(f[1] == "x")
		}
	case "subgap":
		// the first subscriber joins while a publisher registers between the snapshot read
		// and the start of the watch: the watch starts from the snapshot's revision, so the
		// registration is still delivered
		if len(s.subs) != 0 || !s.f.Connected {
			return false
		}
		if _, ok := s.f.KV[full(f[1])]; ok {
			return false
		}
		s.f.AfterGet = func() { s.f.PutKV(full(f[1]), dValueOf[f[1]]) }
		s.subscribe(false)
		vrt.Settle()
		if s.f.AfterGet != nil {
			s.r.Failf("the join did not read a snapshot")
			s.f.AfterGet = nil
			return true
		}
		s.pending = append(s.pending, "put:"+f[1])
	case "reconnectgap":
		// the same during a reload after a connection loss
		if s.f.Connected || len(s.subs) == 0 {
			return false
		}
		for _, d := range s.subs {
			if d.key != dKey {
				return false
			}
		}
		if _, ok := s.f.KV[full(f[1])]; ok {
			return false
		}
		cur := map[string]string{}
		for k, v := range s.f.KV {
			cur[k] = v
		}
		s.f.AfterGet = func() { s.f.PutKV(full(f[1]), dValueOf[f[1]]) }
		internal.VerifReconnect(dEndpoints, s.f)
		vrt.Settle()
		if s.f.AfterGet != nil {
			s.r.Failf("the reload did not read a snapshot")
			s.f.AfterGet = nil
			return true
		}
		old := fmt.Sprint(sortedKV(s.visible))
		for _, d := range s.subs {
			d.snapshot(under(d.key, s.visible), under(d.key, cur))
		}
		s.visible = cur
		changed = old != fmt.Sprint(sortedKV(s.visible))
		s.pending = append(s.pending, "put:"+f[1])
	case "put":
		if _, ok := s.f.KV[full(f[1])]; ok {
			return false
		}
		s.f.PutKV(full(f[1]), dValueOf[f[1]])
		if s.f.Connected && s.watched(f[1]) {
			s.pending = append(s.pending, op)
		}
	case "del":
		cur, ok := s.f.KV[full(f[1])]
		if !ok {
			return false
		}
		if cur != dValueOf[f[1]] {
			op = "del:" + f[1] + "b" // the key is in its later life
		}
		s.f.DelKV(full(f[1]))
		if s.f.Connected && s.watched(f[1]) {
			s.pending = append(s.pending, op)
		}
	case "deliver":
		if !s.f.Pending() {
			if len(s.pending) > 0 {
				s.r.Failf("changes %v happened after the subscriber's snapshot while connected, but no live watch is going to deliver them: the subscriber will not converge", s.pending)
				return true
			}
			return false
		}
		s.f.Deliver()
		changed = len(s.pending) > 0
		s.applyPending()
	case "disconnect":
		if !s.f.Connected || len(s.subs) == 0 {
			return false
		}
		s.f.Disconnect()
		s.pending = nil
	case "reconnect":
		if s.f.Connected || len(s.subs) == 0 {
			return false
		}
		internal.VerifReconnect(dEndpoints, s.f)
		old := fmt.Sprint(sortedKV(s.visible))
		cur := map[string]string{}
		for k, v := range s.f.KV {
			cur[k] = v
		}
		for _, d := range s.subs {
			d.snapshot(under(d.key, s.visible), under(d.key, cur))
		}
		s.visible = cur
		changed = old != fmt.Sprint(sortedKV(s.visible))
	}
	vrt.Settle()
	s.check(op, before, changed)
	return true
}

// watched: is the key's prefix monitored by some subscriber (so that etcd queues events)?
func (s *dSys) watched(k string) bool {
	for _, d := range s.subs {
		if strings.HasPrefix(full(k), d.key+"/") {
			return true
		}
	}
	return false
}

func sortedKV(m map[string]string) []string {
	var out []string
	for k, v := range m {
		out = append(out, k+"="+v)
	}
	sort.Strings(out)
	return out
}

func (s *dSys) check(op string, before []int, changed bool) {
	for i, d := range s.subs {
		want := map[string]bool{}
		for _, v := range under(d.key, s.visible) {
			want[v] = true
		}
		var wl []string
		for v := range want {
			wl = append(wl, v)
		}
		sort.Strings(wl)
		got := append([]string{}, d.s.Values()...)
		sort.Strings(got)
		for j := 1; j < len(got); j++ {
			if got[j] == got[j-1] {
				s.r.Failf("after %s: subscriber %d lists value %s twice", op, i, got[j])
			}
		}
		if d.exclusive {
			// a value is retained only under the most recent key that published it
			gotSet := map[string]bool{}
			for _, g := range got {
				gotSet[g] = true
				if !want[g] {
					s.r.Failf("after %s: exclusive subscriber %d lists %s, live values are %v (keys %v)", op, i, g, wl, sortedKV(s.visible))
				}
			}
			for _, v := range []string{"vA", "vB", "vC"} {
				if d.ambiguous[v] {
					continue
				}
				_, owned := d.owner[v]
				if owned != gotSet[v] {
					if d.staleJoin && owned && !gotSet[v] {
						s.r.Failf("exclusive subscriber that joined on a stale cached view lost value %s whose only present publisher predates the join (after %s: lists %v, keys %v)", v, op, got, sortedKV(s.visible))
					} else {
						s.r.Failf("after %s: exclusive subscriber %d lists %v; value %s: most recent publisher present=%v (keys %v)", op, i, got, v, owned, sortedKV(s.visible))
					}
				}
			}
		} else if fmt.Sprint(got) != fmt.Sprint(wl) {
			s.r.Failf("after %s: subscriber %d (prefix %s) lists %v, the keys present are %v", op, i, d.key, got, sortedKV(under(d.key, s.visible)))
		}
		_ = changed
		if d.hasLast && fmt.Sprint(wl) != d.lastWant && i < len(before) && d.notified == before[i] {
			s.r.Failf("after %s: the view of subscriber %d changed (%s -> %v) but its change listener did not run", op, i, d.lastWant, wl)
		}
		d.lastWant, d.hasLast = fmt.Sprint(wl), true
	}
}

func singlePublisherEach(m map[string]string) bool {
	seen := map[string]bool{}
	for _, v := range m {
		if seen[v] {
			return false
		}
		seen[v] = true
	}
	return true
}

func (s *dSys) canon() string {
	var subs []string
	for _, d := range s.subs {
		v := append([]string{}, d.s.Values()...)
		sort.Strings(v)
		subs = append(subs, fmt.Sprintf("x=%v:%v", d.exclusive, v))
	}
	// the registry's own cached views (the base of its next reload diff)
	cached := ""
	for _, k := range []string{dKey, dKey2} {
		if c := internal.VerifCached(dEndpoints, k); c != nil {
			cached += fmt.Sprintf("%s%v;", k, sortedKV(c))
		}
	}
	return fmt.Sprintf("kv=%v|vis=%v|pend=%v|conn=%v|subs=%v|cached=%s", sortedKV(s.f.KV), sortedKV(s.visible), s.pending, s.f.Connected, subs, cached)
}

func TestVerifDiscovHistories(t *testing.T) {
	defer vrt.WriteReport()
	logx.Disable()
	ops := []string{"sub:n", "sub:x", "sub:o", "subgap:k1", "reconnectgap:k2", "put:o1", "del:o1", "put:k1", "put:k1b", "put:k2", "put:k3", "del:k1", "del:k2", "del:k3", "deliver", "disconnect", "reconnect"}
	depth := 7
	if vrt.Thorough() {
		depth = 9
	}
	for i, first := range []string{"sub:n", "sub:x", "put:k1", "put:k2", "put:k3", "sub:o", "put:o1", "subgap:k1"} {
		if !vrt.Shard(i) {
			continue
		}
		first := first
		vrt.BFS(vrt.Options{Name: "discov/first=" + first, Budget: vrt.FairBudget(1)}, depth-1, ops, func(r *vrt.Run, hist []string) vrt.Step {
			s := newDSys(r)
			if !s.apply(first) {
				return vrt.Step{Canon: "n/a", Terminal: true}
			}
			for _, op := range hist {
				if !s.apply(op) {
					return vrt.Step{}
				}
				if r.Failed() {
					return vrt.Step{Canon: "failed"}
				}
			}
			return vrt.Step{Canon: s.canon()}
		})
	}
}

// schedule search: a reload racing with watch events in flight must neither deadlock
// nor lose the convergence of the view
func TestVerifDiscovReloadRace(t *testing.T) {
	defer vrt.WriteReport()
	logx.Disable()
	if !vrt.Shard(7) {
		return
	}
	bound := 2
	if vrt.Thorough() {
		bound = 3
	}
	// a reader polling Values() while events are being delivered: once everything delivered
	// has been processed the (cached) list must equal the live values
	for _, ev := range []string{"put", "del", "put+del"} {
		ev := ev
		vrt.Explore(vrt.Options{Name: "discov/values-vs-event/" + ev, Bound: bound + 1, Budget: vrt.FairBudget(2), Prune: true}, func(r *vrt.Run) {
			s := newDSys(r)
			s.f.PutKV(full("k1"), "vA")
			s.f.PutKV(full("k2"), "vB")
			s.subscribe(false)
			vrt.Settle()
			want := "[vA vB]"
			switch ev {
			case "put":
				s.f.PutKV(full("k3"), "vC")
				want = "[vA vB vC]"
			case "del":
				s.f.DelKV(full("k2"))
				want = "[vA]"
			default:
				s.f.PutKV(full("k3"), "vC")
				s.f.DelKV(full("k1"))
				want = "[vB vC]"
			}
			vrt.Go(func() {
				s.f.Deliver()
			})
			vrt.Go(func() {
				for i := 0; i < 2; i++ {
					v := s.subs[0].s.Values()
					vrt.Obs()
					_ = v
				}
			})
			vrt.Settle()
			got := append([]string{}, s.subs[0].s.Values()...)
			sort.Strings(got)
			r.Outcome("%v", got)
			if fmt.Sprint(got) != want {
				r.Failf("after all delivered events were processed Values() lists %v, the live keys' values are %s (a concurrent reader polled Values())", got, want)
			}
		})
	}
	// a second subscriber joins the cluster while a watch event is being delivered: once
	// everything delivered has been processed, the newcomer too lists exactly the live values
	for _, ev := range []string{"put", "del"} {
		ev := ev
		vrt.Explore(vrt.Options{Name: "discov/join-vs-event/" + ev, Bound: bound, Budget: vrt.FairBudget(2), Prune: true}, func(r *vrt.Run) {
			s := newDSys(r)
			s.f.PutKV(full("k1"), "vA")
			s.f.PutKV(full("k3"), "vB")
			s.subscribe(false)
			vrt.Settle()
			want := "[vA vB vC]"
			if ev == "put" {
				s.f.PutKV(full("o1"), "vC") // not under svc/
				s.f.PutKV(dKey+"/k4", "vC")
			} else {
				s.f.DelKV(full("k3"))
				want = "[vA]"
			}
			var sub2 *discov.Subscriber
			vrt.Go(func() { s.f.Deliver() })
			vrt.Go(func() {
				var err error
				sub2, err = discov.NewSubscriber(append([]string{}, dEndpoints...), dKey)
				if err != nil {
					r.Failf("NewSubscriber: %v", err)
				}
			})
			vrt.Settle()
			if s.f.Pending() {
				s.f.Deliver() // whatever the join's own watch was handed (changes since its snapshot)
				vrt.Settle()
			}
			if sub2 == nil {
				return
			}
			for i, sub := range []*discov.Subscriber{s.subs[0].s, sub2} {
				got := append([]string{}, sub.Values()...)
				sort.Strings(got)
				if i == 1 {
					r.Outcome("%v", got)
				}
				if fmt.Sprint(got) != want {
					r.Failf("after all delivered events were processed subscriber %d lists %v, the live keys' values are %s", i, got, want)
				}
			}
		})
	}
	// the first subscriber of another prefix attaches while a reload is under way: whatever
	// the interleaving, its prefix is watched afterwards - a later registration reaches it
	vrt.Explore(vrt.Options{Name: "discov/new-prefix-vs-reload", Bound: bound, Budget: vrt.FairBudget(2), Prune: true}, func(r *vrt.Run) {
		s := newDSys(r)
		s.f.PutKV(full("k1"), "vA")
		s.subscribe(false)
		vrt.Settle()
		var sub2 *discov.Subscriber
		vrt.Go(func() { internal.VerifReconnect(dEndpoints, s.f) })
		vrt.Go(func() {
			var err error
			sub2, err = discov.NewSubscriber(append([]string{}, dEndpoints...), dKey2)
			if err != nil {
				r.Failf("NewSubscriber: %v", err)
			}
		})
		vrt.Settle()
		if sub2 == nil {
			return
		}
		s.f.PutKV(full("o1"), "vC")
		s.f.PutKV(full("k3"), "vB")
		for i := 0; i < 3 && s.f.Pending(); i++ {
			s.f.Deliver()
			vrt.Settle()
		}
		for i, x := range []struct {
			sub  *discov.Subscriber
			want string
		}{{s.subs[0].s, "[vA vB]"}, {sub2, "[vC]"}} {
			got := append([]string{}, x.sub.Values()...)
			sort.Strings(got)
			if i == 1 {
				r.Outcome("%v", got)
			}
			if fmt.Sprint(got) != x.want {
				r.Failf("after the reload and the later registrations subscriber %d lists %v, the live values under its prefix are %s", i, got, x.want)
			}
		}
	})
	for _, withDisconnect := range []bool{false, true} {
		withDisconnect := withDisconnect
		vrt.Explore(vrt.Options{Name: fmt.Sprintf("discov/reload-vs-event/disconnect=%v", withDisconnect), Bound: bound, Budget: vrt.FairBudget(2)}, func(r *vrt.Run) {
			s := newDSys(r)
			s.f.PutKV(full("k3"), "vB")
			s.subscribe(false)
			vrt.Settle()
			s.f.PutKV(full("k1"), "vA")
			s.f.DelKV(full("k3"))
			doneA, doneB := false, false
			vrt.Go(func() {
				s.f.Deliver()
				doneA = true
			})
			vrt.Go(func() {
				if withDisconnect {
					s.f.Disconnect()
				}
				internal.VerifReconnect(dEndpoints, s.f)
				doneB = true
			})
			vrt.Settle()
			got := append([]string{}, s.subs[0].s.Values()...)
			sort.Strings(got)
			r.Outcome("%v", got)
			r.AtEnd(func() {
				if !doneA || !doneB {
					r.Failf("driver threads stuck: deliver=%v reconnect=%v", doneA, doneB)
				}
				var stuck []string
				for _, l := range r.Leaked() {
					if strings.Contains(l.Blocked, "Mutex") || strings.Contains(l.Blocked, "WaitGroup") {
						stuck = append(stuck, l.Site+" blocked in "+l.Blocked)
					}
				}
				if len(stuck) > 0 {
					sort.Strings(stuck)
					r.Failf("deadlock between reload and a watch event in flight: %v", stuck)
					return
				}
				if fmt.Sprint(got) != "[vA]" {
					r.Failf("after the race the subscriber lists %v, keys present are [svc/k1=vA]", got)
				}
			})
		})
	}
}
