package p2c

import (
	"context"
	"fmt"
	"sort"
	"strings"
	"sync"
	"sync/atomic"
	"testing"
	"time"

	vrt "github.com/gotid/god"
	"github.com/gotid/god/lib/logx"
	"google.golang.org/grpc/balancer"
	"google.golang.org/grpc/balancer/base"
	"google.golang.org/grpc/codes"
	"google.golang.org/grpc/resolver"
	"google.golang.org/grpc/status"
)

type pcConn struct{ id string }

func (pcConn) UpdateAddresses([]resolver.Address) {}
func (pcConn) Connect()                           {}

type pcPending struct {
	done  func(balancer.DoneInfo)
	start time.Duration
}

type pcSys struct {
	r        *vrt.Run
	n        int
	p        *p2cPicker
	byID     map[string]*subConn
	picks    map[string]int
	dones    map[string]int
	pending  map[string][]pcPending
	lastPick map[string]time.Duration
	everPick map[string]bool
	minLat   map[string]time.Duration
	maxLat   map[string]time.Duration
	draws    []int
}

func newPcSys(r *vrt.Run, n int) *pcSys {
	s := &pcSys{r: r, n: n, byID: map[string]*subConn{}, picks: map[string]int{}, dones: map[string]int{}, pending: map[string][]pcPending{},
		lastPick: map[string]time.Duration{}, everPick: map[string]bool{}, minLat: map[string]time.Duration{}, maxLat: map[string]time.Duration{}}
	ready := map[balancer.SubConn]base.SubConnInfo{}
	for i := 0; i < n; i++ {
		id := fmt.Sprintf("c%d", i)
		ready[pcConn{id}] = base.SubConnInfo{Address: resolver.Address{Addr: id}}
	}
	vrt.SetRandHook(func() (int64, bool) {
		if len(s.draws) == 0 {
			return 0, true
		}
		d := s.draws[0]
		s.draws = s.draws[1:]
		return vrt.IntnDraw(d), true
	})
	vrt.Advance(time.Millisecond)
	s.p = new(p2cPickerBuilder).Build(base.PickerBuildInfo{ReadySCs: ready}).(*p2cPicker)
	// the builder ranges over a map: make the connection order canonical
	sort.Slice(s.p.conns, func(i, j int) bool { return s.p.conns[i].addr.Addr < s.p.conns[j].addr.Addr })
	for _, c := range s.p.conns {
		s.byID[c.addr.Addr] = c
	}
	return s
}

func (s *pcSys) ids() []string {
	var out []string
	for id := range s.byID {
		out = append(out, id)
	}
	sort.Strings(out)
	return out
}

func (s *pcSys) pick(a, b int) {
	now := vrt.Elapsed()
	// candidates as the picker will draw them (same pair for all three tries)
	var cand []string
	switch s.n {
	case 1:
		cand = []string{s.p.conns[0].addr.Addr}
	case 2:
		cand = []string{s.p.conns[0].addr.Addr, s.p.conns[1].addr.Addr}
	default:
		s.draws = []int{a, b, a, b, a, b}
		bb := b
		if bb >= a {
			bb++
		}
		cand = []string{s.p.conns[a].addr.Addr, s.p.conns[bb].addr.Addr}
	}
	stale := map[string]bool{}
	for _, c := range cand {
		if !s.everPick[c] || now-s.lastPick[c] > time.Second {
			stale[c] = true
		}
	}
	res, err := s.p.Pick(balancer.PickInfo{FullMethodName: "/m", Ctx: context.Background()})
	s.draws = nil
	if err != nil {
		s.r.Failf("Pick failed with ready connections: %v", err)
		return
	}
	id := res.SubConn.(pcConn).id
	if _, ok := s.byID[id]; !ok {
		s.r.Failf("Pick returned %s which is not a ready connection", id)
		return
	}
	isCand := false
	for _, c := range cand {
		if c == id {
			isCand = true
		}
	}
	if !isCand {
		s.r.Failf("Pick returned %s, candidates were %v", id, cand)
	}
	if len(stale) > 0 && !stale[id] {
		s.r.Failf("at +%v candidates %v: %v not picked for over a second but %s (picked %v ago) was chosen", now, cand, keysOf(stale), id, now-s.lastPick[id])
	}
	s.picks[id]++
	s.lastPick[id] = now
	s.everPick[id] = true
	s.pending[id] = append(s.pending[id], pcPending{res.Done, now})
}

func keysOf(m map[string]bool) []string {
	var out []string
	for k := range m {
		out = append(out, k)
	}
	sort.Strings(out)
	return out
}

func (s *pcSys) done(id, kind string) bool {
	q := s.pending[id]
	if len(q) == 0 {
		return false
	}
	p := q[0]
	s.pending[id] = q[1:]
	c := s.byID[id]
	before := c.success
	var err error
	switch kind {
	case "fail":
		err = status.Error(codes.Unavailable, "x")
	case "dl":
		err = status.Error(codes.DeadlineExceeded, "x")
	case "acc":
		err = status.Error(codes.NotFound, "x")
	}
	now := vrt.Elapsed()
	lat := now - p.start
	p.done(balancer.DoneInfo{Err: err})
	s.dones[id]++
	if mn, ok := s.minLat[id]; !ok || lat < mn {
		s.minLat[id] = lat
	}
	if lat > s.maxLat[id] {
		s.maxLat[id] = lat
	}
	after := c.success
	if after > initSuccess {
		s.r.Failf("success score of %s left [0,1000]: %d (was %d, completion %s)", id, after, before, kind)
		return true
	}
	good := kind == "ok" || kind == "acc"
	// (the score is an integer obtained by truncating a floating-point average: at the fixed
	// point 1000*w + 1000*(1-w) may come out as 999.99..., i.e. one point below - that is the
	// granularity of the score, not a move away from 1000)
	if good && after+1 < before {
		s.r.Failf("success score of %s moved away from 1000 on an acceptable completion: %d -> %d", id, before, after)
	}
	if !good && after > before {
		s.r.Failf("success score of %s moved away from 0 on an unacceptable completion: %d -> %d", id, before, after)
	}
	lag := time.Duration(c.lag)
	if lag < s.minLat[id]-1 || lag > s.maxLat[id]+1 {
		s.r.Failf("latency estimate of %s is %v, observed latencies lie in [%v, %v]", id, lag, s.minLat[id], s.maxLat[id])
	}
	return true
}

func (s *pcSys) invariants(after string) {
	for _, id := range s.ids() {
		c := s.byID[id]
		if got, want := c.inflight, int64(s.picks[id]-s.dones[id]); got != want {
			s.r.Failf("after %s: in-flight of %s is %d, picks-completions = %d", after, id, got, want)
		}
		if c.success > initSuccess {
			s.r.Failf("after %s: success score of %s is %d, outside [0,1000]", after, id, c.success)
		}
	}
}

func (s *pcSys) apply(op string) bool {
	f := strings.Split(op, ":")
	switch f[0] {
	case "pick":
		a, b := 0, 0
		if len(f) > 2 {
			fmt.Sscan(f[1], &a)
			fmt.Sscan(f[2], &b)
		}
		s.pick(a, b)
	case "done":
		if !s.done(f[1], f[2]) {
			return false
		}
	default:
		var ms int
		fmt.Sscanf(op, "t%d", &ms)
		vrt.Advance(time.Duration(ms) * time.Millisecond)
	}
	s.invariants(op)
	return true
}

func (s *pcSys) canon() string {
	now := vrt.Elapsed()
	var parts []string
	for _, id := range s.ids() {
		c := s.byID[id]
		var pend []string
		for _, p := range s.pending[id] {
			pend = append(pend, fmt.Sprint(now-p.start))
		}
		lp := "never"
		if s.everPick[id] {
			d := now - s.lastPick[id]
			if d > 2*time.Second {
				d = 2 * time.Second
			}
			lp = fmt.Sprint(d)
		}
		last := int64(now) - c.last
		if c.last == 0 {
			last = -1
		} else if last > int64(100*time.Second) {
			last = int64(100 * time.Second)
		}
		parts = append(parts, fmt.Sprintf("%s{s=%d lag=%d pend=%v lp=%s last=%d}", id, c.success, c.lag, pend, lp, last))
	}
	return strings.Join(parts, " ")
}

func TestVerifP2cHistories(t *testing.T) {
	defer vrt.WriteReport()
	logx.Disable()
	for _, n := range []int{1, 2, 3} {
		var ops []string
		if n < 3 {
			ops = append(ops, "pick")
		} else {
			for a := 0; a < n; a++ {
				for b := 0; b < n-1; b++ {
					ops = append(ops, fmt.Sprintf("pick:%d:%d", a, b))
				}
			}
		}
		for i := 0; i < n; i++ {
			for _, k := range []string{"ok", "fail", "acc"} {
				ops = append(ops, fmt.Sprintf("done:c%d:%s", i, k))
			}
		}
		ops = append(ops, "done:c0:dl", "t1", "t100", "t1100", "t10000")
		depth := 5
		if n == 3 {
			depth = 4
		}
		if vrt.Thorough() {
			depth += 2
		}
		for i, first := range ops {
			if !vrt.Shard(i + n*7) {
				continue
			}
			n, first := n, first
			vrt.BFS(vrt.Options{Name: fmt.Sprintf("p2c/conns=%d/first=%s", n, first), Budget: vrt.FairBudget(4)}, depth-1, ops, func(r *vrt.Run, hist []string) vrt.Step {
				s := newPcSys(r, n)
				if !s.apply(first) {
					return vrt.Step{Canon: "n/a", Terminal: true}
				}
				for _, op := range hist {
					if !s.apply(op) {
						return vrt.Step{}
					}
					if r.Failed() {
						return vrt.Step{Canon: "failed"}
					}
				}
				return vrt.Step{Canon: s.canon()}
			})
		}
	}
}

// Sustained traffic on a narrow alphabet, searched deeper: picks, successful completions and
// 600 ms steps only, so that histories in which one connection is both the more loaded
// and the one not picked for over a second are reached (the forced pick must take it).
func TestVerifP2cForcedPick(t *testing.T) {
	defer vrt.WriteReport()
	logx.Disable()
	for _, n := range []int{2, 3} {
		if !vrt.Shard(40 + n) {
			continue
		}
		var ops []string
		depth := 8
		if n == 2 {
			// (t61000: more than the one-minute statistics interval, with calls still open)
			ops = []string{"pick", "done:c0:ok", "done:c1:ok", "t600", "t61000"}
		} else {
			depth = 6
			for a := 0; a < n; a++ {
				for b := 0; b < n-1; b++ {
					ops = append(ops, fmt.Sprintf("pick:%d:%d", a, b))
				}
			}
			ops = append(ops, "done:c0:ok", "done:c1:ok", "done:c2:ok", "t600")
		}
		if vrt.Thorough() {
			depth += 2
		}
		n := n
		vrt.BFS(vrt.Options{Name: fmt.Sprintf("p2c/forced-pick/conns=%d", n), Budget: vrt.FairBudget(1)}, depth, ops, func(r *vrt.Run, hist []string) vrt.Step {
			s := newPcSys(r, n)
			for _, op := range hist {
				if !s.apply(op) {
					return vrt.Step{}
				}
				if r.Failed() {
					return vrt.Step{Canon: "failed"}
				}
			}
			return vrt.Step{Canon: s.canon()}
		})
	}
}

// Concurrent callers: picks racing with completions (and with each other) on every schedule
// within the bound: the in-flight count of every connection equals picks minus completions,
// scores stay in range, nobody crashes.
func TestVerifP2cConcurrent(t *testing.T) {
	defer vrt.WriteReport()
	logx.Disable()
	bound := 2
	if vrt.Thorough() {
		bound = 3
	}
	for _, n := range []int{1, 2} {
		for _, kind := range []string{"pick|done", "pick|pick", "done|done", "pick|done|pick", "done|done|tick", "done|fail|tick", "fail|fail@low", "fail|done@low"} {
			if !vrt.Shard(50 + n) {
				continue
			}
			n, kind := n, kind
			vrt.Explore(vrt.Options{Name: fmt.Sprintf("p2c/concurrent/conns=%d/%s", n, kind), Bound: bound, Prune: true, Budget: vrt.FairBudget(4)}, func(r *vrt.Run) {
				s := newPcSys(r, n)
				// two calls already in flight
				var dones []func(balancer.DoneInfo)
				var ids []string
				for i := 0; i < 2; i++ {
					res, err := s.p.Pick(balancer.PickInfo{FullMethodName: "/m", Ctx: context.Background()})
					if err != nil {
						r.Failf("Pick: %v", err)
						return
					}
					dones = append(dones, res.Done)
					ids = append(ids, res.SubConn.(pcConn).id)
					s.picks[ids[i]]++
				}
				vrt.Advance(3 * time.Millisecond)
				if strings.HasSuffix(kind, "@low") {
					// the backend has been failing for a while: its score is at the bottom of the scale
					for _, c := range s.p.conns {
						atomic.StoreUint64(&c.success, 1)
					}
				}
				var wg sync.WaitGroup
				var mu sync.Mutex
				di := 0
				for _, role := range strings.Split(strings.TrimSuffix(kind, "@low"), "|") {
					role := role
					wg.Add(1)
					go func() {
						defer wg.Done()
						if role == "tick" {
							// the clock moves on while completions are being processed
							vrt.Advance(2 * time.Second)
							return
						}
						if role == "pick" {
							res, err := s.p.Pick(balancer.PickInfo{FullMethodName: "/m", Ctx: context.Background()})
							if err != nil {
								r.Failf("Pick: %v", err)
								return
							}
							mu.Lock()
							s.picks[res.SubConn.(pcConn).id]++
							mu.Unlock()
							return
						}
						mu.Lock()
						i := di
						di++
						mu.Unlock()
						if role == "fail" {
							dones[i](balancer.DoneInfo{Err: status.Error(codes.Unavailable, "down")})
						} else {
							dones[i](balancer.DoneInfo{})
						}
						mu.Lock()
						s.dones[ids[i]]++
						mu.Unlock()
					}()
				}
				wg.Wait()
				var out []string
				for _, id := range s.ids() {
					out = append(out, fmt.Sprintf("%s:%d", id, s.byID[id].inflight))
				}
				r.Outcome("%v", out)
				s.invariants("the concurrent calls")
			})
		}
	}
}

// a backend whose calls all fail becomes unhealthy within a bounded number of
// completions and is then chosen strictly less often than its healthy alternatives,
// counted over every possible sequence of candidate draws.
func TestVerifP2cHealth(t *testing.T) {
	defer vrt.WriteReport()
	logx.Disable()
	if !vrt.Shard(0) {
		return
	}
	c := vrt.NewCases("p2c/failing-backend")
	vrt.RunOnce(vrt.Options{Name: "p2c-health", Horizon: 1 << 30}, func(r *vrt.Run) {
		for _, gap := range []time.Duration{time.Second, 2 * time.Second, 10 * time.Second} {
			s := newPcSys(r, 3)
			bad := s.p.conns[0]
			unhealthyAfter, failures := -1, 0
			for k := 1; k <= 12; k++ {
				// keep the healthy backends fresh, then offer (bad, healthy) as candidates: the bad
				// one is either the less loaded or overdue for its once-per-second pick
				vrt.Advance(gap)
				s.draws = []int{1, 1, 1, 1, 1, 1}
				warm, _ := s.p.Pick(balancer.PickInfo{Ctx: context.Background()})
				s.draws = []int{2, 1, 2, 1, 2, 1}
				warm2, _ := s.p.Pick(balancer.PickInfo{Ctx: context.Background()})
				vrt.Advance(10 * time.Millisecond)
				warm.Done(balancer.DoneInfo{})
				warm2.Done(balancer.DoneInfo{})
				s.draws = []int{0, 0, 0, 0, 0, 0}
				res, _ := s.p.Pick(balancer.PickInfo{Ctx: context.Background()})
				s.draws = nil
				id := res.SubConn.(pcConn).id
				vrt.Advance(10 * time.Millisecond)
				if id == bad.addr.Addr {
					res.Done(balancer.DoneInfo{Err: status.Error(codes.Unavailable, "x")})
					failures++
					if !bad.healthy() && unhealthyAfter < 0 {
						unhealthyAfter = failures
					}
				} else {
					res.Done(balancer.DoneInfo{})
				}
			}
			c.Eval(fmt.Sprintf("gap=%v", gap), func() any {
				return map[string]any{"gap": gap.String(), "unhealthy_after_completions": unhealthyAfter, "score": bad.success}
			})
			if unhealthyAfter < 0 || unhealthyAfter > 8 {
				c.Violation(fmt.Sprintf("gap=%v", gap), "never unhealthy", fmt.Sprintf("backend failing every call (completions %v apart) is still healthy after 12 rounds: score %d, unhealthy after %d", gap, bad.success, unhealthyAfter))
				continue
			}
			// exact pick distribution over all draw sequences (3 tries x (a,b))
			counts := map[string]int{}
			total := 0
			base := *bad
			for seq := 0; seq < 6*6*6; seq++ {
				x := seq
				var draws []int
				for t := 0; t < 3; t++ {
					ab := x % 6
					x /= 6
					draws = append(draws, ab/2, ab%2)
				}
				// fresh picks must not depend on the previous enumeration step
				for _, cn := range s.p.conns {
					cn.pick = int64(vrt.Elapsed()) + int64(timeNowOffset())
					cn.inflight = 0
				}
				*bad = base
				bad.pick = s.p.conns[1].pick
				s.draws = draws
				res, _ := s.p.Pick(balancer.PickInfo{Ctx: context.Background()})
				s.draws = nil
				counts[res.SubConn.(pcConn).id]++
				total++
			}
			b, h1, h2 := counts[s.p.conns[0].addr.Addr], counts[s.p.conns[1].addr.Addr], counts[s.p.conns[2].addr.Addr]
			c.Eval(fmt.Sprintf("dist gap=%v", gap), func() any {
				return map[string]any{"picks_of_failing": b, "picks_of_healthy": []int{h1, h2}, "draw_sequences": total}
			})
			if !(b < h1 && b < h2) {
				c.Violation(fmt.Sprintf("gap=%v", gap), "distribution", fmt.Sprintf("over all %d draw sequences the failing backend is picked %d times, the healthy ones %d and %d", total, b, h1, h2))
			}
		}
	})
	// closely spaced failures (after a first successful completion): the score must still
	// fall by at least one point per failure, so 600 failures always suffice
	vrt.RunOnce(vrt.Options{Name: "p2c-health-fast", Horizon: 1 << 30}, func(r *vrt.Run) {
		for _, gap := range []time.Duration{time.Microsecond, time.Millisecond, 5 * time.Millisecond, 25 * time.Millisecond, 300 * time.Millisecond} {
			s := newPcSys(r, 1)
			conn := s.p.conns[0]
			res, _ := s.p.Pick(balancer.PickInfo{Ctx: context.Background()})
			vrt.Advance(3 * time.Millisecond)
			res.Done(balancer.DoneInfo{})
			after := -1
			for k := 1; k <= 600; k++ {
				res, _ := s.p.Pick(balancer.PickInfo{Ctx: context.Background()})
				vrt.Advance(gap)
				res.Done(balancer.DoneInfo{Err: status.Error(codes.Unavailable, "x")})
				if !conn.healthy() {
					after = k
					break
				}
			}
			c.Eval(fmt.Sprintf("fast gap=%v", gap), func() any {
				return map[string]any{"gap": gap.String(), "unhealthy_after_failures": after, "score": conn.success}
			})
			if after < 0 {
				c.Violation(fmt.Sprintf("fast gap=%v", gap), "never unhealthy (fast)", fmt.Sprintf("backend failing 600 calls in a row %v apart is still healthy (score %d)", gap, conn.success))
			}
		}
	})
	c.Done()
}

// timeNowOffset: timex.Now() = virtual elapsed + a constant; pick stamps use timex.Now()
func timeNowOffset() time.Duration {
	return pcTimexNow() - vrt.Elapsed()
}

// every completion error the balancer can be handed: all seventeen gRPC status codes, no
// error, and an error that carries no status.  The score of a single backend, first brought
// to a middle value by alternating completions, must move towards 0 exactly for the codes
// that mean the backend (not the request) is at fault - deadline exceeded, internal,
// unavailable, data loss, unimplemented - and towards 1000 for everything else.
func TestVerifP2cErrorCodes(t *testing.T) {
	defer vrt.WriteReport()
	logx.Disable()
	if !vrt.Shard(3) {
		return
	}
	c := vrt.NewCases("p2c/completion-error-codes")
	unacceptable := map[codes.Code]bool{codes.DeadlineExceeded: true, codes.Internal: true, codes.Unavailable: true, codes.DataLoss: true, codes.Unimplemented: true}
	type ec struct {
		name string
		err  error
		bad  bool
	}
	var ecs []ec
	for code := codes.OK; code <= codes.Unauthenticated; code++ {
		var err error
		if code != codes.OK {
			err = status.Error(code, "x")
		}
		ecs = append(ecs, ec{code.String(), err, unacceptable[code]})
	}
	ecs = append(ecs, ec{"plain-error", fmt.Errorf("no status"), false})
	vrt.RunOnce(vrt.Options{Name: "p2c-error-codes", Horizon: 1 << 30}, func(r *vrt.Run) {
		for _, k := range ecs {
			for _, gap := range []time.Duration{100 * time.Millisecond, time.Second, 5 * time.Second} {
				s := newPcSys(r, 1)
				conn := s.p.conns[0]
				complete := func(err error) {
					vrt.Advance(gap)
					res, perr := s.p.Pick(balancer.PickInfo{Ctx: context.Background()})
					if perr != nil {
						r.Failf("Pick: %v", perr)
						return
					}
					vrt.Advance(10 * time.Millisecond)
					res.Done(balancer.DoneInfo{Err: err})
				}
				// bring the score strictly inside (0, 1000)
				complete(nil)
				complete(status.Error(codes.Unavailable, "x"))
				complete(nil)
				complete(status.Error(codes.Unavailable, "x"))
				before := conn.success
				if before == 0 || before >= initSuccess {
					r.Failf("warm-up did not leave the score inside (0,1000): %d", before)
					return
				}
				complete(k.err)
				after := conn.success
				// whatever the completion's error code, it is a completion: picks minus completions
				if fl := atomic.LoadInt64(&conn.inflight); fl != 0 {
					c.Violation(fmt.Sprintf("code=%s gap=%v", k.name, gap), "in-flight after completion", fmt.Sprintf("5 picks, 5 completions (the last with %s): in-flight count is %d, want 0", k.name, fl))
				}
				c.Eval(fmt.Sprintf("code=%s gap=%v", k.name, gap), func() any {
					return map[string]any{"code": k.name, "gap": gap.String(), "score_before": before, "score_after": after}
				})
				if k.bad && !(after < before) {
					c.Violation(fmt.Sprintf("code=%s gap=%v", k.name, gap), "unacceptable completion", fmt.Sprintf("completion with %s moved the score %d -> %d, want towards 0", k.name, before, after))
				}
				// (integer score: an acceptable completion soon after the last one may round to no change)
				if !k.bad && !(after >= before) {
					c.Violation(fmt.Sprintf("code=%s gap=%v", k.name, gap), "acceptable completion", fmt.Sprintf("completion with %s moved the score %d -> %d, want towards 1000, never down", k.name, before, after))
				}
			}
		}
	})
	c.Done()
}
