package p2c

import (
	"time"

	"github.com/gotid/god/lib/timex"
)

func pcTimexNow() time.Duration { return timex.Now() }
