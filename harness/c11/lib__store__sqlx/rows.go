package sqlx

import (
	"database/sql/driver"
	"fmt"
	"reflect"
	"strings"
	"testing"

	vrt "github.com/gotid/god"
	"github.com/gotid/god/lib/logx"
	"github.com/gotid/god/lib/stat"
)

type (
	rT3 struct {
		A int64   `db:"a"`
		B string  `db:"b"`
		C float64 `db:"c"`
	}
	rU3 struct {
		A int64
		B string
		C float64
	}
	rDash struct {
		A    int64   `db:"a"`
		Skip string  `db:"-"`
		B    string  `db:"b"`
		C    float64 `db:"c"`
	}
	rDashInner struct {
		A    int64  `db:"a"`
		Skip string `db:"-"`
		B    string `db:"b"`
	}
	rDashE struct {
		rDashInner
		C float64 `db:"c"`
	}
	rP3 struct {
		A *int64   `db:"a"`
		B *string  `db:"b"`
		C *float64 `db:"c"`
	}
	rInner struct {
		A int64  `db:"a"`
		B string `db:"b"`
	}
	rE3 struct {
		rInner
		C float64 `db:"c"`
	}
	rInnerU struct {
		A int64
		B string
	}
	rEU3 struct {
		rInnerU
		C float64
	}
	RInnerP struct {
		A int64  `db:"a"`
		B string `db:"b"`
	}
	rEP3 struct {
		*RInnerP
		C float64 `db:"c"`
	}
	RInnerPU struct {
		A int64
		B string
	}
	rEPU3 struct {
		*RInnerPU
		C float64
	}
)

// column values by column name for row i
func colValue(col string, row int) driver.Value {
	switch col {
	case "a":
		return int64(10 + row)
	case "b":
		return fmt.Sprintf("s%d", row)
	case "c":
		return float64(row) + 0.5
	case "d":
		return int64(99)
	case "n":
		return nil // a column the destination does not map, holding NULL
	case "t":
		return []byte("raw") // another unmapped column, holding bytes
	}
	return nil
}

func perms(in []string) [][]string {
	if len(in) <= 1 {
		return [][]string{append([]string{}, in...)}
	}
	var out [][]string
	for i := range in {
		rest := append(append([]string{}, in[:i]...), in[i+1:]...)
		for _, p := range perms(rest) {
			out = append(out, append([]string{in[i]}, p...))
		}
	}
	return out
}

// flatten a destination struct (or pointer to it) into name->value by our own walk
func flatten(v reflect.Value, out map[string]any, pos *[]any) {
	v = reflect.Indirect(v)
	for i := 0; i < v.NumField(); i++ {
		f := v.Field(i)
		sf := v.Type().Field(i)
		if sf.Anonymous {
			if f.Kind() == reflect.Ptr && f.IsNil() {
				continue
			}
			flatten(f, out, pos)
			continue
		}
		var val any
		if f.Kind() == reflect.Ptr {
			if f.IsNil() {
				val = nil
			} else {
				val = f.Elem().Interface()
			}
		} else {
			val = f.Interface()
		}
		name := strings.ToLower(sf.Name)
		out[name] = val
		*pos = append(*pos, val)
	}
}

func TestVerifRows(t *testing.T) {
	defer vrt.WriteReport()
	logx.Disable()
	stat.SetReporter(nil)
	if !vrt.Shard(1) {
		return
	}
	c := vrt.NewCases("sql/rows-by-column-name")
	type dest struct {
		name   string
		tagged bool
		mk     func() any // pointer to a fresh destination (struct or slice)
		slice  bool
	}
	dests := []dest{
		{"tagged-struct", true, func() any { return &rT3{} }, false},
		{"untagged-struct", false, func() any { return &rU3{} }, false},
		{"pointer-fields", true, func() any { return &rP3{} }, false},
		{"embedded-tagged", true, func() any { return &rE3{} }, false},
		{"embedded-untagged", false, func() any { return &rEU3{} }, false},
		{"embedded-ptr-tagged", true, func() any { return &rEP3{} }, false},
		{"embedded-ptr-untagged", false, func() any { return &rEPU3{} }, false},
		{"slice-of-embedded-ptr-tagged", true, func() any { return &[]rEP3{} }, true},
		{"slice-of-tagged", true, func() any { return &[]rT3{} }, true},
		{"slice-of-ptr-tagged", true, func() any { return &[]*rT3{} }, true},
		{"slice-of-untagged", false, func() any { return &[]rU3{} }, true},
		{"slice-of-embedded-tagged", true, func() any { return &[]rE3{} }, true},
		{"tagged-with-ignored-field/partial-only", true, func() any { return &rDash{} }, false},
		{"embedded-with-ignored-field/partial-only", true, func() any { return &rDashE{} }, false},
		{"slice-of-tagged-with-ignored-field/partial-only", true, func() any { return &[]rDash{} }, true},
	}
	var colSets [][]string
	colSets = append(colSets, perms([]string{"a", "b", "c"})...)
	colSets = append(colSets, perms([]string{"a", "b", "c", "d"})...)
	colSets = append(colSets, perms([]string{"a", "b", "c", "n"})...)
	colSets = append(colSets, perms([]string{"a", "b", "c", "t"})...)
	colSets = append(colSets, []string{"n", "a", "d", "b", "t", "c"})
	colSets = append(colSets, perms([]string{"a", "b"})...)
	colSets = append(colSets, []string{"c"}, []string{"b", "c"})
	for _, d := range dests {
		for _, cols := range colSets {
			for _, nrows := range []int{0, 1, 3} {
				for _, strictPre := range []int{0, 1, 2, 3} {
					// strictPre bit 0: strict mode; bit 1: (slices) the destination already holds an element
					strict, prefilled := strictPre&1 == 1, strictPre&2 == 2
					if prefilled && !d.slice {
						continue
					}
					if !d.tagged && len(cols) >= 3 && fmt.Sprint(cols[:3]) != "[a b c]" {
						continue // untagged: positional - the columns in the declared order of the fields (any extra ones after them)
					}
					if strings.HasSuffix(d.name, "/partial-only") && strict {
						continue // how strict mode counts a field tagged "-" is not stated
					}
					for _, via := range []string{"conn", "stmt", "tx", "txstmt"} {
						f := &fakeDB{columns: cols}
						for r := 0; r < nrows; r++ {
							var row []driver.Value
							for _, col := range cols {
								row = append(row, colValue(col, r))
							}
							f.rows = append(f.rows, row)
						}
						db := f.open()
						conn := NewConnFromDB(db)
						v := d.mk()
						pre := 0
						if prefilled {
							// e.g. pages accumulated into one slice, or a reused destination
							sv := reflect.ValueOf(v).Elem()
							sv.Set(reflect.Append(sv, reflect.Zero(sv.Type().Elem())))
							pre = 1
						}
						var err error
						var pan any
						// the same four queries through every entry point: the connection, a prepared
						// statement, a transaction session, a statement prepared inside a transaction
						type querier interface {
							QueryRow(v any, args ...any) error
							QueryRowPartial(v any, args ...any) error
							QueryRows(v any, args ...any) error
							QueryRowsPartial(v any, args ...any) error
						}
						run := func(q querier, args ...any) {
							switch {
							case d.slice && strict:
								err = q.QueryRows(v, args...)
							case d.slice:
								err = q.QueryRowsPartial(v, args...)
							case strict:
								err = q.QueryRow(v, args...)
							default:
								err = q.QueryRowPartial(v, args...)
							}
						}
						func() {
							defer func() { pan = recover() }()
							switch via {
							case "conn":
								run(connQuerier{conn})
							case "stmt":
								st, perr := conn.Prepare("q")
								if perr != nil {
									err = perr
									return
								}
								defer st.Close()
								run(st)
							case "tx":
								terr := conn.Transact(func(s Session) error {
									run(connQuerier{s})
									return nil
								})
								if err == nil {
									err = terr
								}
							case "txstmt":
								terr := conn.Transact(func(s Session) error {
									st, perr := s.Prepare("q")
									if perr != nil {
										return perr
									}
									defer st.Close()
									run(st)
									return nil
								})
								if err == nil {
									err = terr
								}
							}
						}()
						db.Close()
						in := fmt.Sprintf("dest=%s columns=%v rows=%d strict=%v prefilled=%v via=%s", d.name, cols, nrows, strict, prefilled, via)
						class := fmt.Sprintf("%s/cols=%d/rows=%d/strict=%v/prefilled=%v/via=%s/err=%v", d.name, len(cols), nrows, strict, prefilled, via, err != nil)
						c.Eval(class, func() any {
							return map[string]any{"case": in, "error": fmt.Sprint(err), "dest": fmt.Sprintf("%+v", reflect.ValueOf(v).Elem().Interface())}
						})
						if pan != nil {
							c.Violation(in, "panic", fmt.Sprint(pan))
							continue
						}
						fewer := len(cols) < 3
						if !d.slice && nrows == 0 {
							if err != ErrNotFound {
								c.Violation(in, "empty result", fmt.Sprintf("single-row query on an empty result returned %v, want ErrNotFound", err))
							}
							continue
						}
						if strict && fewer && nrows > 0 {
							if err == nil {
								c.Violation(in, "strict missing columns", fmt.Sprintf("strict mode with %d columns for 3 fields returned no error: %+v", len(cols), reflect.ValueOf(v).Elem().Interface()))
							}
							continue
						}
						if !d.tagged && fewer {
							continue // positional with fewer columns in partial mode: outside the statement
						}
						if err != nil {
							c.Violation(in, "unexpected error", err.Error())
							continue
						}
						// compare every element/field with the column of its name (position for untagged)
						var elems []reflect.Value
						rv := reflect.ValueOf(v).Elem()
						if d.slice {
							// (whether rows are appended to what the destination held or replace it is
							// not stated: the rows read are the last nrows elements either way)
							if rv.Len() != nrows+pre && rv.Len() != nrows {
								c.Violation(in, "row count", fmt.Sprintf("%d elements for %d rows (destination held %d before)", rv.Len(), nrows, pre))
								continue
							}
							for i := rv.Len() - nrows; i < rv.Len(); i++ {
								elems = append(elems, rv.Index(i))
							}
						} else {
							elems = []reflect.Value{rv}
						}
						for r, e := range elems {
							byName := map[string]any{}
							var byPos []any
							flatten(e, byName, &byPos)
							if d.tagged {
								for _, col := range cols {
									if col == "d" || col == "n" || col == "t" {
										continue
									}
									if byName[col] != colValue(col, r) {
										c.Violation(in, "column-name mapping", fmt.Sprintf("row %d: field %s = %v, column %s holds %v (dest %+v)", r, strings.ToUpper(col), byName[col], col, colValue(col, r), e.Interface()))
									}
								}
							} else {
								for i, col := range cols {
									if i >= len(byPos) {
										break // extra columns have no field
									}
									if byPos[i] != colValue(col, r) {
										c.Violation(in, "positional mapping", fmt.Sprintf("row %d: field #%d = %v, column %s holds %v", r, i, byPos[i], col, colValue(col, r)))
									}
								}
							}
						}
					}
				}
			}
		}
	}
	// primitives
	for _, nrows := range []int{0, 1, 3} {
		f := &fakeDB{columns: []string{"a"}}
		for r := 0; r < nrows; r++ {
			f.rows = append(f.rows, []driver.Value{colValue("a", r)})
		}
		db := f.open()
		conn := NewConnFromDB(db)
		var one int64
		err := conn.QueryRow(&one, "q")
		var many []int64
		err2 := conn.QueryRows(&many, "q")
		var manyP []*int64
		err3 := conn.QueryRows(&manyP, "q")
		db.Close()
		in := fmt.Sprintf("primitive rows=%d", nrows)
		c.Eval(in, func() any { return map[string]any{"one": one, "many": many, "err": fmt.Sprint(err, err2, err3)} })
		if nrows == 0 {
			if err != ErrNotFound || err2 != nil || len(many) != 0 {
				c.Violation(in, "empty result", fmt.Sprintf("one: %v, many: %v %v", err, many, err2))
			}
			continue
		}
		if err != nil || one != 10 || err2 != nil || len(many) != nrows || err3 != nil || len(manyP) != nrows {
			c.Violation(in, "primitive mapping", fmt.Sprintf("one=%d (%v) many=%v (%v) manyP=%d (%v)", one, err, many, err2, len(manyP), err3))
			continue
		}
		for i := range many {
			if many[i] != int64(10+i) || *manyP[i] != int64(10+i) {
				c.Violation(in, "primitive mapping", fmt.Sprintf("element %d: %d / %d", i, many[i], *manyP[i]))
			}
		}
	}
	c.Done()
}

// connQuerier gives a connection or a transaction session the shape of a prepared statement
// (the query text is fixed).
type connQuerier struct{ s Session }

func (q connQuerier) QueryRow(v any, args ...any) error { return q.s.QueryRow(v, "q", args...) }
func (q connQuerier) QueryRowPartial(v any, args ...any) error {
	return q.s.QueryRowPartial(v, "q", args...)
}
func (q connQuerier) QueryRows(v any, args ...any) error { return q.s.QueryRows(v, "q", args...) }
func (q connQuerier) QueryRowsPartial(v any, args ...any) error {
	return q.s.QueryRowsPartial(v, "q", args...)
}
