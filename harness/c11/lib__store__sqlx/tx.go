package sqlx

import (
	"context"
	"database/sql"
	"errors"
	"fmt"
	"strings"
	"testing"
	"time"

	vrt "github.com/gotid/god"
	"github.com/gotid/god/lib/logx"
	"github.com/gotid/god/lib/stat"
)

var errBody = errors.New("body error")

// one transaction scenario: faults + body program
type txCase struct {
	beginErr, commitErr, rollbackErr bool
	stmts                            []bool // true = statement fails
	onStmtErr                        string // "return" or "ignore"
	final                            string // nil err panic
	panicAt                          int    // panic before statement i (final=="panic")
	entry                            string // Transact TransactCtx
	ctxMode                          string // live | done-before | done-in-body | deadline (TransactCtx only)
}

// hctx is a hand-made context whose end the harness decides.
type hctx struct {
	done chan struct{}
	err  error
}

func (c *hctx) Deadline() (time.Time, bool) { return time.Time{}, false }
func (c *hctx) Done() <-chan struct{}       { return c.done }
func (c *hctx) Err() error                  { return c.err }
func (c *hctx) Value(any) any               { return nil }
func (c *hctx) end(err error) {
	if c.err == nil {
		c.err = err
		close(c.done)
	}
}

func (c txCase) String() string {
	return fmt.Sprintf("entry=%s ctx=%s begin=%v stmts=%v onerr=%s final=%s@%d commitErr=%v rollbackErr=%v", c.entry, c.ctxMode, !c.beginErr, c.stmts, c.onStmtErr, c.final, c.panicAt, c.commitErr, c.rollbackErr)
}

func txCases() []txCase {
	var out []txCase
	for _, entry := range []string{"Transact", "TransactCtx"} {
		for _, be := range []bool{false, true} {
			stmtSets := [][]bool{{}, {false}, {true}, {false, false}, {false, true}, {true, false}}
			if vrt.Thorough() {
				stmtSets = append(stmtSets, []bool{true, true}, []bool{false, false, false}, []bool{false, false, true}, []bool{false, true, false}, []bool{true, false, false}, []bool{false, true, true}, []bool{true, true, true})
			}
			for _, stmts := range stmtSets {
				for _, onErr := range []string{"return", "ignore"} {
					for _, final := range []string{"nil", "err", "err-notfound", "err-txdone", "err-canceled", "err-wrapped-notfound", "panic", "panic-runtime", "panic-error", "panic-nil-error"} {
						panicPos := []int{0}
						if strings.HasPrefix(final, "panic") {
							panicPos = nil
							for i := 0; i <= len(stmts); i++ {
								panicPos = append(panicPos, i)
							}
						}
						for _, pa := range panicPos {
							for _, ce := range []bool{false, true} {
								for _, re := range []bool{false, true} {
									modes := []string{"live"}
									if entry == "TransactCtx" {
										modes = []string{"live", "done-before", "done-in-body", "deadline"}
									}
									for _, m := range modes {
										out = append(out, txCase{be, ce, re, stmts, onErr, final, pa, entry, m})
									}
								}
							}
						}
					}
				}
			}
		}
	}
	return out
}

// ctxSession routes Exec through ExecCtx with the transaction's context.
type ctxSession struct {
	ctx context.Context
	Session
}

func (c ctxSession) Exec(q string, args ...any) (sql.Result, error) {
	return c.Session.ExecCtx(c.ctx, q, args...)
}

func TestVerifTransact(t *testing.T) {
	defer vrt.WriteReport()
	logx.Disable()
	stat.SetReporter(nil)
	c := vrt.NewCases("sql/transact-fault-enumeration")
	for i, k := range txCases() {
		if !vrt.Shard(i) {
			continue
		}
		f := &fakeDB{}
		if k.beginErr {
			f.beginErr = errDriver
		}
		if k.commitErr {
			f.commitErr = errors.New("commit fault")
		}
		if k.rollbackErr {
			f.rollbackErr = errors.New("rollback fault")
		}
		for _, bad := range k.stmts {
			if bad {
				f.execErrs = append(f.execErrs, errDriver)
			} else {
				f.execErrs = append(f.execErrs, nil)
			}
		}
		db := f.open()
		conn := NewConnFromDB(db)
		bodyRuns := 0
		bodyOutcome := "" // what the body did: nil / err / stmterr / panic
		hc := &hctx{done: make(chan struct{})}
		switch k.ctxMode {
		case "done-before":
			hc.end(context.Canceled)
		case "deadline":
			hc.end(context.DeadlineExceeded)
		}
		body := func(s Session) error {
			bodyRuns++
			if k.ctxMode == "done-in-body" {
				hc.end(context.Canceled)
			}
			for i := range k.stmts {
				if strings.HasPrefix(k.final, "panic") && k.panicAt == i {
					bodyOutcome = "panic"
					txPanic(k.final)
				}
				if _, err := s.Exec("upd"); err != nil && k.onStmtErr == "return" {
					bodyOutcome = "stmterr"
					return err
				}
			}
			switch k.final {
			case "panic", "panic-runtime", "panic-error", "panic-nil-error":
				bodyOutcome = "panic"
				txPanic(k.final)
			case "err":
				bodyOutcome = "err"
				return errBody
			case "err-notfound", "err-txdone", "err-canceled", "err-wrapped-notfound":
				// errors the package's own callers treat as benign elsewhere (breaker, cache): for a
				// transaction they are the body's error like any other - roll back, hand it back
				bodyOutcome = "err"
				return txBodyErr(k.final)
			}
			bodyOutcome = "nil"
			return nil
		}
		var res error
		var pan any
		func() {
			defer func() { pan = recover() }()
			if k.entry == "Transact" {
				res = conn.Transact(body)
			} else {
				res = conn.TransactCtx(hc, func(ctx context.Context, s Session) error {
					// statements run under the caller's context, as a handler would
					return body(ctxSession{ctx, s})
				})
			}
		}()
		db.Close()
		class := fmt.Sprintf("ctx=%s/begin=%v/body=%s/commitErr=%v/rollbackErr=%v", k.ctxMode, !k.beginErr, bodyOutcome, k.commitErr, k.rollbackErr)
		c.Eval(class, func() any {
			return map[string]any{"case": k.String(), "result": fmt.Sprint(res), "panic": fmt.Sprint(pan), "commits": f.commits, "rollbacks": f.rollbacks}
		})
		in := k.String()
		fail := func(cls, msg string) {
			c.Violation(in, cls, fmt.Sprintf("%s (result=%v panic=%v begins=%d commits=%d rollbacks=%d body=%s)", msg, res, pan, f.begins, f.commits, f.rollbacks, bodyOutcome))
		}
		switch {
		case k.beginErr:
			if res == nil || bodyRuns != 0 || f.commits != 0 || f.rollbacks != 0 || pan != nil {
				fail("begin failure", "Begin failed: want its error, no body run, no commit/rollback")
			}
		case bodyOutcome == "nil":
			if f.commits != 1 || f.rollbacks != 0 {
				fail("commit count", "body returned nil: want exactly one Commit and no Rollback")
			}
			if k.commitErr && (res == nil || !strings.Contains(res.Error(), "commit fault")) {
				fail("commit error", "Commit failed: its error must be returned")
			}
			if !k.commitErr && (res != nil || pan != nil) {
				fail("nil result", "body returned nil and Commit succeeded: want nil")
			}
		case bodyOutcome == "err" || bodyOutcome == "stmterr":
			if f.commits != 0 || f.rollbacks != 1 {
				fail("rollback count", "body returned an error: want exactly one Rollback and no Commit")
			}
			want := "body error"
			if k.final != "err" && bodyOutcome == "err" {
				want = txBodyErr(k.final).Error()
			}
			if bodyOutcome == "stmterr" {
				want = "driver fault"
				if k.ctxMode != "live" {
					want = "" // the statement may instead fail with the context's error
				}
			}
			if res == nil || !strings.Contains(res.Error(), want) {
				fail("error result", "body's error must be returned")
			}
		case bodyOutcome == "panic":
			if f.commits != 0 || f.rollbacks != 1 {
				fail("panic rollback", "body panicked: want exactly one Rollback and no Commit")
			}
			if res == nil && pan == nil {
				fail("panic swallowed", "body panicked but the caller got a nil result and no panic")
			}
		}
		if res == nil && pan == nil && !(f.commits == 1 && f.rollbacks == 0 && !k.commitErr) {
			fail("nil means committed", "nil result without exactly one successful Commit")
		}
	}
	c.Done()
}

var errWrappedNotFound = fmt.Errorf("lookup inside the transaction: %w", ErrNotFound)

func txBodyErr(kind string) error {
	switch kind {
	case "err-notfound":
		return ErrNotFound
	case "err-txdone":
		return sql.ErrTxDone
	case "err-canceled":
		return context.Canceled
	case "err-wrapped-notfound":
		return errWrappedNotFound
	}
	return errBody
}

// txPanic panics the way the body outcome says: with a string, with a value raised by the Go
// runtime (a write to a nil map), or with an error value.
func txPanic(kind string) {
	switch kind {
	case "panic-runtime":
		var m map[string]int
		m["x"] = 1
	case "panic-error":
		panic(errors.New("body panic (error value)"))
	case "panic-nil-error":
		// re-raising an error variable that happens to be nil: still a panic of the body (with
		// the module's go 1.19 semantics recover() reports it as nil)
		var e error
		panic(e)
	}
	panic("body panic")
}
