package sqlx

import (
	"context"
	"database/sql"
	"database/sql/driver"
	"errors"
	"io"
)

// fakeDB is a scripted database/sql driver: it counts transaction calls, injects
// faults and serves canned result sets.
type fakeDB struct {
	beginErr, commitErr, rollbackErr error
	execErrs                         []error // per Exec call, nil = ok
	begins, commits, rollbacks, execs int
	columns                          []string
	rows                             [][]driver.Value
}

var errDriver = errors.New("driver fault")

func (f *fakeDB) open() *sql.DB { return sql.OpenDB(fakeConnector{f}) }

type fakeConnector struct{ f *fakeDB }

func (c fakeConnector) Connect(context.Context) (driver.Conn, error) { return &fakeConn{c.f}, nil }
func (c fakeConnector) Driver() driver.Driver                        { return fakeDriver{} }

type fakeDriver struct{}

func (fakeDriver) Open(string) (driver.Conn, error) { return nil, errors.New("use connector") }

type fakeConn struct{ f *fakeDB }

func (c *fakeConn) Prepare(q string) (driver.Stmt, error) { return &fakeStmt{c.f, q}, nil }
func (c *fakeConn) Close() error                           { return nil }
func (c *fakeConn) Begin() (driver.Tx, error) {
	c.f.begins++
	if c.f.beginErr != nil {
		return nil, c.f.beginErr
	}
	return &fakeTx{c.f}, nil
}

type fakeTx struct{ f *fakeDB }

func (t *fakeTx) Commit() error   { t.f.commits++; return t.f.commitErr }
func (t *fakeTx) Rollback() error { t.f.rollbacks++; return t.f.rollbackErr }

type fakeStmt struct {
	f *fakeDB
	q string
}

func (s *fakeStmt) Close() error  { return nil }
func (s *fakeStmt) NumInput() int { return -1 }
func (s *fakeStmt) Exec([]driver.Value) (driver.Result, error) {
	i := s.f.execs
	s.f.execs++
	if i < len(s.f.execErrs) && s.f.execErrs[i] != nil {
		return nil, s.f.execErrs[i]
	}
	return driver.RowsAffected(1), nil
}
func (s *fakeStmt) Query([]driver.Value) (driver.Rows, error) {
	return &fakeRows{cols: s.f.columns, rows: s.f.rows}, nil
}

type fakeRows struct {
	cols []string
	rows [][]driver.Value
	i    int
}

func (r *fakeRows) Columns() []string { return r.cols }
func (r *fakeRows) Close() error      { return nil }
func (r *fakeRows) Next(dest []driver.Value) error {
	if r.i >= len(r.rows) {
		return io.EOF
	}
	copy(dest, r.rows[r.i])
	r.i++
	return nil
}
