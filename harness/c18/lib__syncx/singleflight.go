package syncx

import (
	"fmt"
	"io"
	"sort"
	"sync"
	"testing"

	vrt "github.com/gotid/god"
)

// event log shared by the scenario threads (only one thread runs at a time)
type evlog struct {
	seq   int
	calls map[int]*callRec
}

type callRec struct {
	id, start, end int
	key            string
	val            any
	fresh          bool
	execStart      int
	execEnd        int
	executed       bool
}

func TestVerifSingleFlight(t *testing.T) {
	defer vrt.WriteReport()
	bound := 3
	if vrt.Thorough() {
		bound = 4
	}
	idx := 0
	for _, n := range []int{2, 3} {
		for _, keys := range [][]string{{"a", "a", "a"}, {"a", "b", "a"}} {
			idx++
			if !vrt.Shard(idx) {
				continue
			}
			n, keys := n, keys
			name := fmt.Sprintf("singleflight/doex/n=%d/keys=%v", n, keys[:n])
			vrt.Explore(vrt.Options{Name: name, Bound: bound, MustCollide: n == 3 || keys[1] == "a"}, func(r *vrt.Run) {
				g := NewSingleFlight()
				seq := 0
				recs := make([]*callRec, n)
				execs := 0
				var wg sync.WaitGroup
				for i := 0; i < n; i++ {
					i := i
					recs[i] = &callRec{id: i, key: keys[i]}
					wg.Add(1)
					go func() {
						defer wg.Done()
						rec := recs[i]
						seq++
						rec.start = seq
						v, fresh, _ := g.DoEx(rec.key, func() (any, error) {
							seq++
							rec.execStart = seq
							rec.executed = true
							execs++
							vrt.Yield()
							seq++
							rec.execEnd = seq
							return fmt.Sprintf("v%d", i), nil
						})
						seq++
						rec.end = seq
						rec.val, rec.fresh = v, fresh
					}()
				}
				wg.Wait()
				// oracle
				var out []string
				for _, rec := range recs {
					out = append(out, fmt.Sprintf("%d:%v:%v", rec.id, rec.val, rec.fresh))
					if rec.fresh != rec.executed {
						r.Failf("call %d: fresh=%v but executed=%v", rec.id, rec.fresh, rec.executed)
					}
					// the value must come from an execution with the same key that overlaps this call
					ok := false
					for _, e := range recs {
						if e.executed && e.key == rec.key && rec.val == fmt.Sprintf("v%d", e.id) && e.start < rec.end && rec.start < e.end {
							ok = true
						}
					}
					// a result that some caller has already received must not be handed to a call that
					// starts afterwards: a later call always executes afresh
					if !rec.executed {
						for _, o := range recs {
							if o.id != rec.id && o.key == rec.key && o.val == rec.val && o.end < rec.start {
								r.Failf("call %d (started at %d) was served the result of an execution that caller %d had already received at %d: a later call must execute afresh", rec.id, rec.start, o.id, o.end)
							}
						}
					}
					if !ok {
						for _, e := range recs {
							r.Logf("rec %+v", *e)
						}
						r.Failf("call %d (key %s) got %v which is not the result of an overlapping same-key call's execution", rec.id, rec.key, rec.val)
					}
				}
				// two same-key executions must not overlap in time
				for _, a := range recs {
					for _, b := range recs {
						if a.id < b.id && a.executed && b.executed && a.key == b.key && a.execStart < b.execEnd && b.execStart < a.execEnd {
							r.Failf("executions %d and %d for key %s overlap", a.id, b.id, a.key)
						}
					}
				}
				sort.Strings(out)
				r.Outcome("%v execs=%d", out, execs)
				r.AtEnd(func() {
					if len(r.Leaked()) > 0 {
						r.Failf("threads left: %v", r.Leaked())
					}
				})
			})
		}
	}
}

// "A later call always executes afresh" - also after a call whose function panicked (the
// panic reaching its caller, who recovers): the next call with that key runs its own function
// and gets its own result; the same through ResourceManager.Get, which runs inside a flight.
func TestVerifSingleFlightAfterPanic(t *testing.T) {
	defer vrt.WriteReport()
	if !vrt.Shard(9) {
		return
	}
	for _, entry := range []string{"Do", "DoEx", "ResourceManager.Get"} {
		entry := entry
		vrt.Explore(vrt.Options{Name: "singleflight/later-call-after-panic/" + entry, Bound: 0}, func(r *vrt.Run) {
			g := NewSingleFlight()
			m := NewResourceManager()
			closed := 0
			call := func(panics bool) (val any, executed bool, panicked bool) {
				defer func() {
					if recover() != nil {
						panicked = true
					}
				}()
				fn := func() (any, error) {
					executed = true
					if panics {
						panic("the shared function failed")
					}
					return "v", nil
				}
				switch entry {
				case "Do":
					val, _ = g.Do("k", fn)
				case "DoEx":
					val, _, _ = g.DoEx("k", fn)
				default:
					c, _ := m.Get("k", func() (io.Closer, error) {
						executed = true
						if panics {
							panic("create failed")
						}
						return closer{id: "k1", closed: &closed}, nil
					})
					if c != nil {
						val = "v"
					}
				}
				return
			}
			_, executed, panicked := call(true)
			if !executed || !panicked {
				r.Failf("first call: executed=%v, panic reached the caller=%v", executed, panicked)
			}
			for i := 0; i < 2; i++ {
				val, executed, panicked := call(false)
				r.Outcome("later call %d: executed=%v val=%v", i, executed, val)
				if panicked {
					r.Failf("later call %d panicked", i)
				}
				if entry == "ResourceManager.Get" && i == 1 {
					if executed || val != "v" {
						r.Failf("second Get after the successful one: create ran=%v, resource=%v (want the cached resource)", executed, val)
					}
					continue
				}
				if !executed || val != "v" {
					r.Failf("later call %d after the panicking one: its function ran=%v and it got %v (want a fresh execution and its own result)", i, executed, val)
				}
			}
		})
	}
}
