package syncx

import (
	"fmt"
	"strings"
	"testing"
	"time"

	vrt "github.com/gotid/god"
)

// Pool histories: get / put / time steps against a plain model (held set + idle stack with
// the time each resource was put back): never more live resources than the limit, never
// one resource to two holders, idle resources reused iff younger than the maximum age and
// destroyed otherwise.  A Get that would have to block (limit reached, nothing idle) is not
// part of a sequential history.
func TestVerifPoolHistories(t *testing.T) {
	defer vrt.WriteReport()
	depth := 7
	if vrt.Thorough() {
		depth = 9
	}
	for i, cfg := range []struct {
		limit  int
		maxAge time.Duration
	}{{1, time.Second}, {2, time.Second}, {2, 0}, {3, time.Second}} {
		if !vrt.Shard(20 + i) {
			continue
		}
		cfg := cfg
		ops := []string{"get", "put:first", "put:last", "t500", "t1500"}
		vrt.BFS(vrt.Options{Name: fmt.Sprintf("syncx/pool-histories/limit=%d/maxage=%v", cfg.limit, cfg.maxAge), Budget: vrt.FairBudget(1)}, depth, ops, func(r *vrt.Run, hist []string) vrt.Step {
			created, destroyed := 0, map[int]bool{}
			var opts []PoolOption
			if cfg.maxAge > 0 {
				opts = append(opts, WithMaxAge(cfg.maxAge))
			}
			p := NewPool(cfg.limit, func() any { created++; return created }, func(x any) {
				if destroyed[x.(int)] {
					r.Failf("resource %v destroyed twice", x)
				}
				destroyed[x.(int)] = true
			}, opts...)
			type idle struct {
				id int
				at time.Duration
			}
			var held []int
			var idles []idle // stack: last put is reused first
			live := func() int { return created - len(destroyed) }
			for _, op := range hist {
				now := vrt.Elapsed()
				switch {
				case op == "get":
					fresh := -1
					for j := len(idles) - 1; j >= 0; j-- {
						if cfg.maxAge == 0 || now-idles[j].at <= cfg.maxAge {
							fresh = j
							break
						}
					}
					expired := 0
					if fresh < 0 {
						expired = len(idles)
					} else {
						expired = len(idles) - 1 - fresh
					}
					_ = expired
					if fresh < 0 && len(held)+0 >= cfg.limit && len(idles) == 0 {
						return vrt.Step{} // would block
					}
					if fresh < 0 && len(idles) == 0 && len(held) >= cfg.limit {
						return vrt.Step{}
					}
					before := created
					x := p.Get().(int)
					for _, h := range held {
						if h == x {
							r.Failf("resource %d handed to a second holder", x)
						}
					}
					if destroyed[x] {
						r.Failf("destroyed resource %d handed out", x)
					}
					// which idle resources were consumed: everything above the reused one was too old
					if fresh >= 0 {
						if x != idles[fresh].id {
							r.Failf("Get returned %d, the most recently returned resource young enough is %d (idle %v)", x, idles[fresh].id, idles)
						}
						for _, d := range idles[fresh+1:] {
							if !destroyed[d.id] {
								r.Failf("resource %d idle for %v (max age %v) was skipped but not destroyed", d.id, now-d.at, cfg.maxAge)
							}
						}
						idles = idles[:fresh]
					} else {
						if created != before+1 || x != created {
							r.Failf("no idle resource young enough, yet Get returned %d without creating one", x)
						}
						for _, d := range idles {
							if !destroyed[d.id] {
								r.Failf("resource %d idle for %v (max age %v) was neither reused nor destroyed", d.id, now-d.at, cfg.maxAge)
							}
						}
						idles = nil
					}
					held = append(held, x)
				case strings.HasPrefix(op, "put:"):
					if len(held) == 0 {
						return vrt.Step{}
					}
					k := 0
					if op == "put:last" {
						k = len(held) - 1
					}
					if len(held) == 1 && op == "put:last" {
						return vrt.Step{}
					}
					x := held[k]
					held = append(held[:k], held[k+1:]...)
					p.Put(x)
					idles = append(idles, idle{x, now})
				default:
					var ms int
					fmt.Sscanf(op, "t%d", &ms)
					vrt.Advance(time.Duration(ms) * time.Millisecond)
				}
				if live() > cfg.limit {
					r.Failf("after %s: %d live resources (created %d, destroyed %d), the limit is %d", op, live(), created, len(destroyed), cfg.limit)
				}
				if live() != len(held)+len(idles) {
					r.Failf("after %s: %d live resources, but %d are held and %d idle", op, live(), len(held), len(idles))
				}
				if r.Failed() {
					return vrt.Step{Canon: "failed"}
				}
			}
			var ages []string
			for _, d := range idles {
				a := vrt.Elapsed() - d.at
				if cfg.maxAge > 0 && a > cfg.maxAge {
					a = cfg.maxAge + time.Millisecond
				}
				ages = append(ages, a.String())
			}
			return vrt.Step{Canon: fmt.Sprintf("held=%d|idle=%v|created-live=%d/%d|poolcreated=%d", len(held), ages, created-created, live(), p.created)}
		})
	}
}
