package syncx

import (
	"errors"
	"fmt"
	"io"
	"sort"
	"sync"
	"testing"
	"time"

	vrt "github.com/gotid/god"
)

type pScenario struct {
	name    string
	noPrune bool
	auto    bool
	collide bool
	run     func(r *vrt.Run)
}

type closer struct {
	id     string
	closed *int
}

func (c closer) Close() error { *c.closed++; return nil }

type failingCloser struct {
	id     string
	fails  bool
	counts map[string]int
}

func (c failingCloser) Close() error {
	c.counts[c.id]++
	if c.fails {
		return errors.New("close " + c.id + " failed")
	}
	return nil
}

func pScenarios() []pScenario {
	var out []pScenario
	add := func(name string, run func(r *vrt.Run)) { out = append(out, pScenario{name: name, run: run}) }

	// LockedCalls: same-key executions never overlap and each one runs
	for _, keys := range [][]string{{"k", "k"}, {"k", "k", "k"}, {"k", "j", "k"}} {
		keys := keys
		add(fmt.Sprintf("lockedcalls/keys=%v", keys), func(r *vrt.Run) {
			g := NewLockedCalls()
			inside := map[string]int{}
			ran := 0
			var wg sync.WaitGroup
			for i, k := range keys {
				i, k := i, k
				wg.Add(1)
				go func() {
					defer wg.Done()
					v, _ := g.Do(k, func() (any, error) {
						vrt.Obs()
						inside[k]++
						if inside[k] > 1 {
							r.Failf("two executions for key %s overlap", k)
						}
						ran++
						vrt.Yield()
						vrt.Obs()
						inside[k]--
						return i, nil
					})
					if v != i {
						r.Failf("call %d got %v: locked calls must each run their own function", i, v)
					}
				}()
			}
			wg.Wait()
			r.Outcome("ran=%d", ran)
			if ran != len(keys) {
				r.Failf("%d of %d calls executed", ran, len(keys))
			}
		})
	}

	// Limit
	for _, n := range []int{1, 2} {
		n := n
		add(fmt.Sprintf("limit/n=%d/3borrowers", n), func(r *vrt.Run) {
			l := NewLimit(n)
			out, max, got := 0, 0, 0
			var wg sync.WaitGroup
			for i := 0; i < 3; i++ {
				wg.Add(1)
				go func() {
					defer wg.Done()
					if l.TryBorrow() {
						vrt.Obs()
						out++
						got++
						if out > max {
							max = out
						}
						vrt.Yield()
						vrt.Obs()
						out--
						if err := l.Return(); err != nil {
							r.Failf("Return after a successful borrow failed: %v", err)
						}
					}
				}()
			}
			wg.Wait()
			r.Outcome("max=%d got=%d", max, got)
			if max > n {
				r.Failf("%d outstanding borrows with limit %d", max, n)
			}
			if err := l.Return(); err != ErrLimitReturn {
				r.Failf("Return without a borrow returned %v, want ErrLimitReturn", err)
			}
		})
	}
	// more Returns than outstanding borrows, concurrently (a double Return racing the
	// legitimate one): exactly as many succeed as there were borrows, the others report the
	// error at once (none waits), and the limit still admits exactly n afterwards
	for _, n := range []int{1, 2} {
		n := n
		add(fmt.Sprintf("limit/n=%d/surplus-returns", n), func(r *vrt.Run) {
			l := NewLimit(n)
			l.Borrow()
			okReturns, errReturns := 0, 0
			var wg sync.WaitGroup
			for i := 0; i < 3; i++ {
				wg.Add(1)
				go func() {
					defer wg.Done()
					err := l.Return()
					vrt.Obs()
					switch err {
					case nil:
						okReturns++
					case ErrLimitReturn:
						errReturns++
					default:
						r.Failf("Return: %v", err)
					}
				}()
			}
			wg.Wait()
			r.Outcome("ok=%d err=%d", okReturns, errReturns)
			if okReturns != 1 || errReturns != 2 {
				r.Failf("one borrow outstanding, three Returns: %d succeeded, %d reported ErrLimitReturn", okReturns, errReturns)
			}
			got := 0
			for i := 0; i < n+1; i++ {
				if l.TryBorrow() {
					got++
				}
			}
			if got != n {
				r.Failf("after the surplus Returns a limit of %d admits %d borrowers", n, got)
			}
		})
	}
	add("limit/blocking-borrow", func(r *vrt.Run) {
		l := NewLimit(1)
		out := 0
		var wg sync.WaitGroup
		for i := 0; i < 2; i++ {
			wg.Add(1)
			go func() {
				defer wg.Done()
				l.Borrow()
				vrt.Obs()
				out++
				if out > 1 {
					r.Failf("two holders of a limit of 1")
				}
				vrt.Yield()
				vrt.Obs()
				out--
				l.Return()
			}()
		}
		wg.Wait()
	})

	// TimeoutLimit: a timeout is reported only after the timeout has elapsed
	for _, ret := range []bool{true, false} {
		ret := ret
		out = append(out, pScenario{name: fmt.Sprintf("timeoutlimit/holder-returns=%v", ret), collide: ret, run: func(r *vrt.Run) {
			l := NewTimeoutLimit(1)
			if !l.TryBorrow() {
				r.Failf("first TryBorrow failed")
			}
			var wg sync.WaitGroup
			wg.Add(2)
			go func() {
				defer wg.Done()
				start := vrt.Elapsed()
				err := l.Borrow(100 * time.Millisecond)
				el := vrt.Elapsed() - start
				r.Outcome("borrow=%v after %v", err, el)
				if err == ErrTimeout && el < 100*time.Millisecond {
					r.Failf("ErrTimeout after only %v of a 100ms timeout", el)
				}
				if err != nil && err != ErrTimeout {
					r.Failf("unexpected error %v", err)
				}
				if err == nil {
					if l.TryBorrow() {
						r.Failf("limit of 1 lent twice")
					}
				}
			}()
			go func() {
				defer wg.Done()
				vrt.Advance(40 * time.Millisecond)
				if ret {
					if err := l.Return(); err != nil {
						r.Failf("Return: %v", err)
					}
				}
				vrt.Advance(40 * time.Millisecond)
				vrt.Advance(40 * time.Millisecond)
			}()
			wg.Wait()
		}})
	}

	// TimeoutLimit with a barging third party: the holder returns early, somebody else may
	// take the slot before the woken waiter does; the waiter must then keep waiting for what
	// is left of its timeout and never report a timeout early (late is a matter of scheduling)
	for _, at := range []time.Duration{20 * time.Millisecond, 40 * time.Millisecond, 70 * time.Millisecond} {
		at := at
		out = append(out, pScenario{name: fmt.Sprintf("timeoutlimit/barger/return-at=%v", at), collide: true, run: func(r *vrt.Run) {
			l := NewTimeoutLimit(1)
			if !l.TryBorrow() {
				r.Failf("first TryBorrow failed")
			}
			var wg sync.WaitGroup
			wg.Add(3)
			barged := false
			go func() {
				defer wg.Done()
				start := vrt.Elapsed()
				err := l.Borrow(100 * time.Millisecond)
				el := vrt.Elapsed() - start
				r.Outcome("borrow=%v after %v", err, el)
				if err == ErrTimeout && el < 100*time.Millisecond {
					r.Failf("ErrTimeout after only %v of a 100ms timeout", el)
				}
				if err != nil && err != ErrTimeout {
					r.Failf("unexpected error %v", err)
				}
				vrt.Obs()
				if err == nil && barged {
					r.Failf("limit of 1 lent twice (waiter and barger both hold it)")
				}
			}()
			go func() {
				defer wg.Done()
				vrt.Advance(at)
				if err := l.Return(); err != nil {
					r.Failf("Return: %v", err)
				}
				for el := at; el < 130*time.Millisecond; el += 10 * time.Millisecond {
					vrt.Advance(10 * time.Millisecond)
				}
			}()
			go func() {
				defer wg.Done()
				vrt.Sleep(at)
				ok := l.TryBorrow()
				vrt.Obs()
				barged = ok
			}()
			wg.Wait()
		}})
	}

	// Pool
	add("pool/limit=1/2users", func(r *vrt.Run) {
		created, destroyed := 0, 0
		held := map[any]int{}
		p := NewPool(1, func() any { vrt.Obs(); created++; return created }, func(x any) { vrt.Obs(); destroyed++ })
		var wg sync.WaitGroup
		for i := 0; i < 2; i++ {
			wg.Add(1)
			go func() {
				defer wg.Done()
				x := p.Get()
				vrt.Obs()
				held[x]++
				if held[x] > 1 {
					r.Failf("resource %v handed to two holders", x)
				}
				if created-destroyed > 1 {
					r.Failf("%d live resources, limit 1", created-destroyed)
				}
				vrt.Yield()
				vrt.Obs()
				held[x]--
				p.Put(x)
			}()
		}
		wg.Wait()
		r.Outcome("created=%d", created)
	})
	add("pool/limit=2/3users", func(r *vrt.Run) {
		created := 0
		held := map[any]int{}
		live := 0
		p := NewPool(2, func() any { vrt.Obs(); created++; return created }, func(x any) {})
		var wg sync.WaitGroup
		for i := 0; i < 3; i++ {
			wg.Add(1)
			go func() {
				defer wg.Done()
				x := p.Get()
				vrt.Obs()
				held[x]++
				live++
				if held[x] > 1 {
					r.Failf("resource %v handed to two holders", x)
				}
				if live > 2 || created > 2 {
					r.Failf("live=%d created=%d with limit 2", live, created)
				}
				vrt.Obs()
				held[x]--
				live--
				p.Put(x)
			}()
		}
		wg.Wait()
		r.Outcome("created=%d", created)
	})
	add("pool/maxage", func(r *vrt.Run) {
		created := 0
		var destroyed []any
		p := NewPool(2, func() any { created++; return created }, func(x any) { destroyed = append(destroyed, x) }, WithMaxAge(time.Second))
		a := p.Get()
		p.Put(a)
		vrt.Advance(500 * time.Millisecond)
		if b := p.Get(); b != a {
			r.Failf("resource idle for 0.5s (max age 1s) was not reused: got %v", b)
		} else {
			p.Put(b)
		}
		vrt.Advance(1500 * time.Millisecond)
		c := p.Get()
		if c == a {
			r.Failf("resource idle for 1.5s (max age 1s) was handed out again")
		}
		if len(destroyed) != 1 || destroyed[0] != a {
			r.Failf("stale resource not destroyed: destroyed=%v", destroyed)
		}
	})

	// RefResource
	add("refresource/2users", func(r *vrt.Run) {
		cleaned := 0
		rr := NewRefResource(func() { cleaned++ })
		if err := rr.Use(); err != nil { // the owner's reference
			r.Failf("first Use: %v", err)
		}
		var wg sync.WaitGroup
		var errs []error
		for i := 0; i < 2; i++ {
			wg.Add(1)
			go func() {
				defer wg.Done()
				err := rr.Use()
				vrt.Obs()
				errs = append(errs, err)
				if err == nil {
					if cleaned != 0 {
						r.Failf("resource cleaned while in use")
					}
					rr.Clean()
				}
			}()
		}
		wg.Add(1)
		go func() { defer wg.Done(); rr.Clean() }()
		wg.Wait()
		r.Outcome("errs=%v cleaned=%d", errs, cleaned)
		if cleaned != 1 {
			r.Failf("clean ran %d times after all uses were released", cleaned)
		}
		if err := rr.Use(); err != ErrUseOfCleaned {
			r.Failf("Use after clean returned %v", err)
		}
		for _, e := range errs {
			if e != nil && e != ErrUseOfCleaned {
				r.Failf("unexpected Use error %v", e)
			}
		}
	})

	// ResourceManager
	add("resourcemanager/concurrent-get", func(r *vrt.Run) {
		m := NewResourceManager()
		creates := map[string]int{}
		closed := 0
		var wg sync.WaitGroup
		got := make([]io.Closer, 3)
		for i, k := range []string{"a", "a", "b"} {
			i, k := i, k
			wg.Add(1)
			go func() {
				defer wg.Done()
				c, err := m.Get(k, func() (io.Closer, error) {
					vrt.Obs()
					creates[k]++
					vrt.Yield()
					return closer{id: fmt.Sprintf("%s%d", k, creates[k]), closed: &closed}, nil
				})
				if err != nil {
					r.Failf("Get: %v", err)
				}
				got[i] = c
			}()
		}
		wg.Wait()
		r.Outcome("creates=%v", creates)
		if creates["a"] != 1 || creates["b"] != 1 {
			r.Failf("creates per key %v, want one each", creates)
		}
		if got[0] != got[1] {
			r.Failf("two Gets of key a returned different resources")
		}
		if err := m.Close(); err != nil {
			r.Failf("Close: %v", err)
		}
		if closed != 2 {
			r.Failf("Close closed %d of 2 resources", closed)
		}
	})
	// Close closes all of them - also when closing some of them fails (every subset of three
	// resources failing, whatever the order the manager visits them in)
	for mask := 1; mask < 8; mask++ {
		mask := mask
		add(fmt.Sprintf("resourcemanager/close-with-failing-closers/mask=%03b", mask), func(r *vrt.Run) {
			m := NewResourceManager()
			counts := map[string]int{}
			for i, k := range []string{"a", "b", "c"} {
				k, fails := k, mask&(1<<i) != 0
				if _, err := m.Get(k, func() (io.Closer, error) { return failingCloser{k, fails, counts}, nil }); err != nil {
					r.Failf("Get: %v", err)
				}
			}
			err := m.Close()
			r.Outcome("err=%v closed=%v", err != nil, counts)
			if err == nil {
				r.Failf("Close returned nil although closing failed for some resources (mask %03b)", mask)
			}
			for _, k := range []string{"a", "b", "c"} {
				if counts[k] != 1 {
					r.Failf("resource %s was closed %d times by Close (failing closers: mask %03b over a,b,c)", k, counts[k], mask)
				}
			}
		})
	}
	add("resourcemanager/create-error-then-retry", func(r *vrt.Run) {
		m := NewResourceManager()
		closed := 0
		boom := errors.New("boom")
		if _, err := m.Get("a", func() (io.Closer, error) { return nil, boom }); err != boom {
			r.Failf("failing create returned %v", err)
		}
		c, err := m.Get("a", func() (io.Closer, error) { return closer{id: "a", closed: &closed}, nil })
		if err != nil || c == nil {
			r.Failf("retry after failed create: %v %v", c, err)
		}
		m.Close()
		if closed != 1 {
			r.Failf("closed %d", closed)
		}
	})

	// ManagedResource
	add("managedresource/take+markbroken", func(r *vrt.Run) {
		gen := 0
		mr := NewManagedResource(func() any { vrt.Obs(); gen++; return gen }, func(a, b any) bool { return a == b })
		var wg sync.WaitGroup
		for i := 0; i < 2; i++ {
			wg.Add(1)
			go func() {
				defer wg.Done()
				if x := mr.Take(); x == nil {
					r.Failf("Take returned nil")
				}
			}()
		}
		wg.Wait()
		if gen != 1 {
			r.Failf("generate ran %d times for concurrent first Takes", gen)
		}
		r.Outcome("gen=%d", gen)
		x := mr.Take()
		mr.MarkBroken(x)
		if y := mr.Take(); y == x {
			r.Failf("broken resource handed out again")
		}
	})

	// ImmutableResource on the virtual clock
	add("immutableresource/refresh-interval", func(r *vrt.Run) {
		calls := 0
		fail := true
		boom := errors.New("boom")
		ir := NewImmutableResource(func() (any, error) {
			calls++
			if fail {
				return nil, boom
			}
			return "res", nil
		}, WithRefreshIntervalOnFailure(time.Second))
		vrt.Advance(time.Millisecond)
		if _, err := ir.Get(); err != boom || calls != 1 {
			r.Failf("first Get: err=%v calls=%d", err, calls)
		}
		vrt.Advance(500 * time.Millisecond)
		if _, err := ir.Get(); err != boom || calls != 1 {
			r.Failf("Get within the refresh interval: err=%v calls=%d (must not refetch)", err, calls)
		}
		fail = false
		vrt.Advance(600 * time.Millisecond)
		if v, err := ir.Get(); err != nil || v != "res" || calls != 2 {
			r.Failf("Get after the interval: %v %v calls=%d", v, err, calls)
		}
		vrt.Advance(5 * time.Second)
		if v, _ := ir.Get(); v != "res" || calls != 2 {
			r.Failf("immutable resource refetched: calls=%d", calls)
		}
	})

	// SpinLock (spin loop modelled by fair yields; pruning off: spin fairness is path dependent)
	out = append(out, pScenario{name: "spinlock/3threads", noPrune: true, run: func(r *vrt.Run) {
		var l SpinLock
		in := 0
		var wg sync.WaitGroup
		for i := 0; i < 3; i++ {
			wg.Add(1)
			go func() {
				defer wg.Done()
				l.Lock()
				in++
				if in > 1 {
					r.Failf("spin lock held twice")
				}
				vrt.Yield()
				in--
				l.Unlock()
			}()
		}
		wg.Wait()
		if !l.TryLock() {
			r.Failf("lock not free at the end")
		}
	}})

	add("barrier+donechan+onceguard", func(r *vrt.Run) {
		var b Barrier
		var og OnceGuard
		dc := NewDoneChan()
		in, taken := 0, 0
		var wg sync.WaitGroup
		for i := 0; i < 3; i++ {
			wg.Add(1)
			go func() {
				defer wg.Done()
				b.Guard(func() {
					in++
					if in > 1 {
						r.Failf("barrier let two goroutines in")
					}
					vrt.Yield()
					in--
				})
				if og.Take() {
					vrt.Obs()
					taken++
				}
				dc.Close()
			}()
		}
		<-dc.Done()
		wg.Wait()
		if taken != 1 || !og.Taken() {
			r.Failf("OnceGuard taken %d times", taken)
		}
	})

	// OnceGuard against its sequential specification (Take: true exactly for the first call;
	// Taken: true iff some Take has returned true - or is bound to, once it has begun): a
	// Taken() that starts after a successful Take has returned must report true, whatever
	// other (losing) Takes are under way; a Taken() that reports true implies a Take begun.
	for _, losers := range []int{1, 2} {
		losers := losers
		add(fmt.Sprintf("onceguard/linearizable/losers=%d", losers), func(r *vrt.Run) {
			var og OnceGuard
			if og.Taken() {
				r.Failf("Taken() on a fresh guard")
			}
			if !og.Take() {
				r.Failf("first Take() returned false")
			}
			// the winner has returned: from here on every observer must see the guard taken
			var wg sync.WaitGroup
			extra := 0
			for i := 0; i < losers; i++ {
				wg.Add(1)
				go func() {
					defer wg.Done()
					if og.Take() {
						vrt.Obs()
						extra++
					}
				}()
			}
			wg.Add(1)
			go func() {
				defer wg.Done()
				for i := 0; i < 2; i++ {
					if !og.Taken() {
						r.Failf("Taken() reported false after a Take had returned true (while %d later Take calls were under way)", losers)
					}
				}
			}()
			wg.Wait()
			if extra != 0 {
				r.Failf("%d later Take calls returned true", extra)
			}
			if !og.Taken() {
				r.Failf("Taken() false at the end")
			}
		})
	}
	// all Takes concurrent: exactly one wins; an observer that sees Taken()==true keeps seeing it
	add("onceguard/concurrent-takes", func(r *vrt.Run) {
		var og OnceGuard
		var wg sync.WaitGroup
		wins := 0
		for i := 0; i < 3; i++ {
			wg.Add(1)
			go func() {
				defer wg.Done()
				if og.Take() {
					vrt.Obs()
					wins++
					if !og.Taken() {
						r.Failf("the winner of Take sees Taken()==false")
					}
				}
			}()
		}
		wg.Add(1)
		go func() {
			defer wg.Done()
			seen := false
			for i := 0; i < 3; i++ {
				now := og.Taken()
				if seen && !now {
					r.Failf("Taken() went from true back to false")
				}
				seen = seen || now
			}
		}()
		wg.Wait()
		if wins != 1 || !og.Taken() {
			r.Failf("%d of 3 concurrent Take calls returned true, Taken()=%v", wins, og.Taken())
		}
	})

	add("cond/signal-vs-waitwithtimeout", func(r *vrt.Run) {
		c := NewCond()
		var wg sync.WaitGroup
		wg.Add(2)
		go func() {
			defer wg.Done()
			start := vrt.Elapsed()
			remain, ok := c.WaitWithTimeout(100 * time.Millisecond)
			el := vrt.Elapsed() - start
			r.Outcome("ok=%v remain=%v", ok, remain)
			if !ok && el < 100*time.Millisecond {
				r.Failf("timed out after %v of 100ms", el)
			}
			if ok && (remain < 100*time.Millisecond-el || remain > 100*time.Millisecond) {
				r.Failf("remaining timeout %v after waiting at most %v of 100ms", remain, el)
			}
		}()
		go func() {
			defer wg.Done()
			vrt.Advance(30 * time.Millisecond)
			c.Signal()
			vrt.Advance(100 * time.Millisecond)
		}()
		wg.Wait()
	})
	return out
}

func TestVerifPrimitives(t *testing.T) {
	defer vrt.WriteReport()
	bound := 3
	if vrt.Thorough() {
		bound = 4
	}
	scs := pScenarios()
	sort.SliceStable(scs, func(i, j int) bool { return scs[i].name < scs[j].name })
	var mine []pScenario
	for i, sc := range scs {
		if vrt.Shard(i + 5) {
			mine = append(mine, sc)
		}
	}
	for i, sc := range mine {
		sc := sc
		vrt.Explore(vrt.Options{Name: "syncx/" + sc.name, Bound: bound, AutoAdvance: true, Prune: !sc.noPrune, MustCollide: sc.collide, Budget: vrt.FairBudget(len(mine) - i)}, func(r *vrt.Run) {
			sc.run(r)
			r.AtEnd(func() {
				for _, l := range r.Leaked() {
					r.Failf("thread left blocked: %+v", l)
				}
			})
		})
	}
}
