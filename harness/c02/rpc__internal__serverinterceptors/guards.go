package serverinterceptors

import (
	"context"
	"errors"
	"fmt"
	"sync"
	"testing"
	"time"

	vrt "github.com/gotid/god"
	"github.com/gotid/god/lib/logx"
	"google.golang.org/grpc"
	"google.golang.org/grpc/codes"
	"google.golang.org/grpc/status"
)

const rpcTimeout = 100 * time.Millisecond

// The unary chain in server.Start's order: Crash outermost, Timeout inside.
func rpcChain(h grpc.UnaryHandler) func(ctx context.Context) (interface{}, error) {
	info := &grpc.UnaryServerInfo{FullMethod: "/svc/m"}
	timeout := UnaryTimeoutInterceptor(rpcTimeout)
	return func(ctx context.Context) (interface{}, error) {
		return UnaryCrashInterceptor(ctx, "req", info, func(ctx context.Context, req interface{}) (interface{}, error) {
			return timeout(ctx, req, info, h)
		})
	}
}

func TestVerifRpcGuards(t *testing.T) {
	defer vrt.WriteReport()
	logx.Disable()
	bound := 2
	if vrt.Thorough() {
		bound = 4
	}
	errBiz := errors.New("biz")
	type sc struct {
		name   string
		sleep  time.Duration
		ret    string // ok err panic
		cancel bool
	}
	scs := []sc{
		{"fast-ok", 0, "ok", false}, {"fast-err", 0, "err", false}, {"fast-panic", 0, "panic", false}, {"fast-panic-nil-value", 0, "panicnil", false},
		{"50ms-ok", 50 * time.Millisecond, "ok", false}, {"50ms-panic", 50 * time.Millisecond, "panic", false},
		{"150ms-ok", 150 * time.Millisecond, "ok", false}, {"150ms-err", 150 * time.Millisecond, "err", false}, {"150ms-panic", 150 * time.Millisecond, "panic", false},
		{"150ms-ok/clientcancel", 150 * time.Millisecond, "ok", true}, {"50ms-ok/clientcancel", 50 * time.Millisecond, "ok", true},
	}
	var mine []sc
	for i, s := range scs {
		if vrt.Shard(i + 7) {
			mine = append(mine, s)
		}
	}
	for i, s := range mine {
		s := s
		vrt.Explore(vrt.Options{Name: "guards/rpc/" + s.name, Bound: bound, AutoAdvance: true, Prune: true, Budget: vrt.FairBudget(len(mine) - i)}, func(r *vrt.Run) {
			finished := 0
			fired := false
			call := rpcChain(func(ctx context.Context, req interface{}) (interface{}, error) {
				defer func() { vrt.Obs(); finished++ }()
				if s.sleep > 0 {
					vrt.Sleep(s.sleep)
				}
				switch s.ret {
				case "err":
					return nil, errBiz
				case "panic":
					panic("rpc-panic")
				case "panicnil":
					var e error
					panic(e)
				}
				return "resp", nil
			})
			ctx := context.Background()
			var cancelClient context.CancelFunc
			if s.cancel {
				ctx, cancelClient = context.WithCancel(ctx)
			}
			var wg sync.WaitGroup
			wg.Add(1)
			go func() {
				defer wg.Done()
				if s.cancel {
					vrt.Advance(60 * time.Millisecond)
					vrt.Obs()
					fired = true
					cancelClient()
					vrt.Advance(100 * time.Millisecond)
					return
				}
				vrt.Advance(rpcTimeout - time.Millisecond)
				vrt.Advance(time.Millisecond)
				vrt.Obs()
				fired = true
				vrt.Advance(rpcTimeout)
			}()
			var escaped any
			var resp interface{}
			var err error
			func() {
				defer func() { escaped = recover() }()
				resp, err = call(ctx)
			}()
			vrt.Obs()
			finishedAtReturn, firedAtReturn := finished, fired
			got := fmt.Sprintf("%v|%v", resp, status.Code(err))
			if err != nil && status.Code(err) == codes.Unknown {
				got = fmt.Sprintf("%v|%v", resp, err)
			}
			r.Outcome("%s", got)
			wg.Wait()
			clean := map[string]string{"ok": "resp|OK", "err": "<nil>|biz", "panic": "<nil>|Internal", "panicnil": "<nil>|Internal"}[s.ret]
			deadline := "<nil>|DeadlineExceeded"
			if s.cancel {
				deadline = "<nil>|Canceled"
			}
			if escaped != nil {
				r.Failf("panic escaped the interceptor chain: %v", escaped)
			}
			switch got {
			case clean:
				if finishedAtReturn == 0 {
					r.Failf("caller got the handler's result %s although the handler had not finished", got)
				}
			case deadline:
				if !firedAtReturn {
					r.Failf("caller got %s before the deadline/cancel happened", got)
				}
			default:
				r.Failf("caller got %s: neither the handler's result %s nor %s", got, clean, deadline)
			}
			if finishedAtReturn > 0 && !firedAtReturn && got != clean {
				r.Failf("handler finished, deadline not reached, but caller got %s instead of %s", got, clean)
			}
			if finishedAtReturn == 0 && got != deadline {
				r.Failf("handler still running at return but caller got %s instead of %s", got, deadline)
			}
		})
	}
}

// The crash interceptor on its own (a server without a timeout): every kind of panic of the
// handler becomes an Internal error for the caller.
func TestVerifRpcCrashOnly(t *testing.T) {
	defer vrt.WriteReport()
	logx.Disable()
	if !vrt.Shard(90) {
		return
	}
	info := &grpc.UnaryServerInfo{FullMethod: "/svc/m"}
	for _, kind := range []string{"string", "error", "runtime", "nil-error"} {
		kind := kind
		vrt.Explore(vrt.Options{Name: "guards/rpc/crash-only/panic=" + kind, Bound: 0}, func(r *vrt.Run) {
			var escaped any
			var resp interface{}
			var err error
			func() {
				defer func() { escaped = recover() }()
				resp, err = UnaryCrashInterceptor(context.Background(), "req", info, func(ctx context.Context, req interface{}) (interface{}, error) {
					switch kind {
					case "error":
						panic(errors.New("boom"))
					case "runtime":
						var m map[string]int
						m["x"] = 1
					case "nil-error":
						var e error
						panic(e)
					}
					panic("boom")
				})
			}()
			r.Outcome("%v|%v", resp, status.Code(err))
			if escaped != nil {
				r.Failf("panic escaped the crash interceptor: %v", escaped)
			}
			if status.Code(err) != codes.Internal || resp != nil {
				r.Failf("the handler panicked (%s) but the caller got (%v, %v), want an Internal error", kind, resp, err)
			}
		})
	}
}

// The timeout interceptor on its own, nobody else moving the clock: a handler that panics at
// once makes the call end at once with that panic - the caller is not kept waiting for the
// deadline (virtual time only advances here when the caller itself is blocked).
func TestVerifRpcTimeoutOnlyPanic(t *testing.T) {
	defer vrt.WriteReport()
	logx.Disable()
	if !vrt.Shard(91) {
		return
	}
	info := &grpc.UnaryServerInfo{FullMethod: "/svc/m"}
	for _, kind := range []string{"string", "error", "nil-error"} {
		kind := kind
		vrt.Explore(vrt.Options{Name: "guards/rpc/timeout-only/panic=" + kind, Bound: 1, AutoAdvance: true}, func(r *vrt.Run) {
			var escaped any
			var err error
			panicked := true
			func() {
				defer func() { escaped = recover() }()
				_, err = UnaryTimeoutInterceptor(rpcTimeout)(context.Background(), "req", info, func(ctx context.Context, req interface{}) (interface{}, error) {
					switch kind {
					case "error":
						panic(errors.New("boom"))
					case "nil-error":
						var e error
						panic(e)
					}
					panic("boom")
				})
				panicked = false
			}()
			at := vrt.Elapsed()
			r.Outcome("panicked=%v err=%v at=+%v", panicked, status.Code(err), at)
			_ = escaped
			if !panicked {
				r.Failf("the handler panicked (%s) but the call returned normally with %v at +%v", kind, err, at)
			} else if at >= rpcTimeout {
				r.Failf("the handler panicked (%s) at once but the caller was kept waiting until +%v", kind, at)
			}
		})
	}
}

// Requests do not influence each other: a quick call gets its own result while an earlier
// call (possibly already timed out, its handler still running) is in progress, and two
// concurrent calls both finish within their own deadline.
func TestVerifRpcGuardsIndependence(t *testing.T) {
	defer vrt.WriteReport()
	logx.Disable()
	bound := 1
	if vrt.Thorough() {
		bound = 2
	}
	for i, first := range []time.Duration{0, 50 * time.Millisecond, 150 * time.Millisecond, 400 * time.Millisecond} {
		if !vrt.Shard(i + 30) {
			continue
		}
		first := first
		vrt.Explore(vrt.Options{Name: fmt.Sprintf("guards/rpc/independence/first-handler=%v", first), Bound: bound, AutoAdvance: true, Prune: true, Budget: vrt.FairBudget(2)}, func(r *vrt.Run) {
			started := map[string]bool{}
			var mu sync.Mutex
			call := rpcChain(func(ctx context.Context, req interface{}) (interface{}, error) {
				d := ctx.Value(ctxKey("sleep")).(time.Duration)
				mu.Lock()
				started[ctx.Value(ctxKey("name")).(string)] = true
				mu.Unlock()
				if d > 0 {
					vrt.Sleep(d) // ignores ctx on purpose: a handler that overruns its deadline
				}
				return ctx.Value(ctxKey("name")), nil
			})
			mk := func(name string, d time.Duration) context.Context {
				return context.WithValue(context.WithValue(context.Background(), ctxKey("name"), name), ctxKey("sleep"), d)
			}
			var wg sync.WaitGroup
			res := map[string]string{}
			do := func(name string, d time.Duration) {
				defer wg.Done()
				begin := vrt.Elapsed()
				resp, err := call(mk(name, d))
				mu.Lock()
				res[name] = fmt.Sprintf("%v|%v after %v", resp, status.Code(err), vrt.Elapsed()-begin)
				mu.Unlock()
			}
			wg.Add(2)
			go do("A", first)
			go func() {
				vrt.Sleep(120 * time.Millisecond) // A has finished (0, 50 ms) or timed out (150, 400 ms) by now
				do("B", 10*time.Millisecond)
			}()
			wg.Wait()
			vrt.Obs()
			r.Outcome("A=%s B=%s", res["A"], res["B"])
			if !started["B"] || res["B"] != "B|OK after 10ms" {
				r.Failf("second call (10 ms handler, 100 ms timeout) arriving 120 ms after a first call whose handler takes %v: got %s (handler started: %v), want its own result after 10ms", first, res["B"], started["B"])
			}
			wantA := "A|OK after " + first.String()
			if first == 0 {
				wantA = "A|OK after 0s"
			}
			if first > rpcTimeout {
				wantA = "<nil>|DeadlineExceeded after 100ms"
			}
			if res["A"] != wantA {
				r.Failf("first call: got %s, want %s", res["A"], wantA)
			}
		})
	}
	// two overlapping calls, both well within the deadline
	if vrt.Shard(35) {
		vrt.Explore(vrt.Options{Name: "guards/rpc/independence/two-concurrent-40ms", Bound: bound + 1, AutoAdvance: true, Prune: true, Budget: vrt.FairBudget(2)}, func(r *vrt.Run) {
			call := rpcChain(func(ctx context.Context, req interface{}) (interface{}, error) {
				vrt.Sleep(40 * time.Millisecond)
				return "ok", nil
			})
			var wg sync.WaitGroup
			var mu sync.Mutex
			var out []string
			for i := 0; i < 2; i++ {
				wg.Add(1)
				go func() {
					defer wg.Done()
					begin := vrt.Elapsed()
					resp, err := call(context.Background())
					mu.Lock()
					out = append(out, fmt.Sprintf("%v|%v after %v", resp, status.Code(err), vrt.Elapsed()-begin))
					mu.Unlock()
				}()
			}
			wg.Wait()
			vrt.Obs()
			r.Outcome("%v", out)
			for _, o := range out {
				if o != "ok|OK after 40ms" {
					r.Failf("two concurrent 40 ms calls under a 100 ms timeout: %v", out)
					break
				}
			}
		})
	}
}

type ctxKey string
