package serverinterceptors

import (
	"context"
	"errors"
	"fmt"
	"sync"
	"testing"
	"time"

	vrt "github.com/gotid/god"
	"github.com/gotid/god/lib/logx"
	"google.golang.org/grpc"
	"google.golang.org/grpc/codes"
	"google.golang.org/grpc/status"
)

const rpcTimeout = 100 * time.Millisecond

// The unary chain in server.Start's order: Crash outermost, Timeout inside.
func rpcChain(h grpc.UnaryHandler) func(ctx context.Context) (interface{}, error) {
	info := &grpc.UnaryServerInfo{FullMethod: "/svc/m"}
	timeout := UnaryTimeoutInterceptor(rpcTimeout)
	return func(ctx context.Context) (interface{}, error) {
		return UnaryCrashInterceptor(ctx, "req", info, func(ctx context.Context, req interface{}) (interface{}, error) {
			return timeout(ctx, req, info, h)
		})
	}
}

func TestVerifRpcGuards(t *testing.T) {
	defer vrt.WriteReport()
	logx.Disable()
	bound := 2
	if vrt.Thorough() {
		bound = 4
	}
	errBiz := errors.New("biz")
	type sc struct {
		name   string
		sleep  time.Duration
		ret    string // ok err panic
		cancel bool
	}
	scs := []sc{
		{"fast-ok", 0, "ok", false}, {"fast-err", 0, "err", false}, {"fast-panic", 0, "panic", false},
		{"50ms-ok", 50 * time.Millisecond, "ok", false}, {"50ms-panic", 50 * time.Millisecond, "panic", false},
		{"150ms-ok", 150 * time.Millisecond, "ok", false}, {"150ms-err", 150 * time.Millisecond, "err", false}, {"150ms-panic", 150 * time.Millisecond, "panic", false},
		{"150ms-ok/clientcancel", 150 * time.Millisecond, "ok", true}, {"50ms-ok/clientcancel", 50 * time.Millisecond, "ok", true},
	}
	var mine []sc
	for i, s := range scs {
		if vrt.Shard(i + 7) {
			mine = append(mine, s)
		}
	}
	for i, s := range mine {
		s := s
		vrt.Explore(vrt.Options{Name: "guards/rpc/" + s.name, Bound: bound, AutoAdvance: true, Prune: true, Budget: vrt.FairBudget(len(mine) - i)}, func(r *vrt.Run) {
			finished := 0
			fired := false
			call := rpcChain(func(ctx context.Context, req interface{}) (interface{}, error) {
				defer func() { vrt.Obs(); finished++ }()
				if s.sleep > 0 {
					vrt.Sleep(s.sleep)
				}
				switch s.ret {
				case "err":
					return nil, errBiz
				case "panic":
					panic("rpc-panic")
				}
				return "resp", nil
			})
			ctx := context.Background()
			var cancelClient context.CancelFunc
			if s.cancel {
				ctx, cancelClient = context.WithCancel(ctx)
			}
			var wg sync.WaitGroup
			wg.Add(1)
			go func() {
				defer wg.Done()
				if s.cancel {
					vrt.Advance(60 * time.Millisecond)
					vrt.Obs()
					fired = true
					cancelClient()
					vrt.Advance(100 * time.Millisecond)
					return
				}
				vrt.Advance(rpcTimeout - time.Millisecond)
				vrt.Advance(time.Millisecond)
				vrt.Obs()
				fired = true
				vrt.Advance(rpcTimeout)
			}()
			var escaped any
			var resp interface{}
			var err error
			func() {
				defer func() { escaped = recover() }()
				resp, err = call(ctx)
			}()
			vrt.Obs()
			finishedAtReturn, firedAtReturn := finished, fired
			got := fmt.Sprintf("%v|%v", resp, status.Code(err))
			if err != nil && status.Code(err) == codes.Unknown {
				got = fmt.Sprintf("%v|%v", resp, err)
			}
			r.Outcome("%s", got)
			wg.Wait()
			clean := map[string]string{"ok": "resp|OK", "err": "<nil>|biz", "panic": "<nil>|Internal"}[s.ret]
			deadline := "<nil>|DeadlineExceeded"
			if s.cancel {
				deadline = "<nil>|Canceled"
			}
			if escaped != nil {
				r.Failf("panic escaped the interceptor chain: %v", escaped)
			}
			switch got {
			case clean:
				if finishedAtReturn == 0 {
					r.Failf("caller got the handler's result %s although the handler had not finished", got)
				}
			case deadline:
				if !firedAtReturn {
					r.Failf("caller got %s before the deadline/cancel happened", got)
				}
			default:
				r.Failf("caller got %s: neither the handler's result %s nor %s", got, clean, deadline)
			}
			if finishedAtReturn > 0 && !firedAtReturn && got != clean {
				r.Failf("handler finished, deadline not reached, but caller got %s instead of %s", got, clean)
			}
			if finishedAtReturn == 0 && got != deadline {
				r.Failf("handler still running at return but caller got %s instead of %s", got, deadline)
			}
		})
	}
}
