package handler

import (
	"context"
	"fmt"
	"net/http"
	"net/http/httptest"
	"sort"
	"strings"
	"sync"
	"testing"
	"time"

	vrt "github.com/gotid/god"
	"github.com/gotid/god/lib/logx"
)

const gTimeout = 100 * time.Millisecond

// recWriter records exactly what reaches the client.
type recWriter struct {
	hdr          http.Header
	writeHeaders []int
	hdrAtCommit  http.Header
	body         strings.Builder
}

func newRecWriter() *recWriter { return &recWriter{hdr: http.Header{}} }

func (w *recWriter) Header() http.Header { return w.hdr }
func (w *recWriter) WriteHeader(c int) {
	vrt.Obs()
	w.writeHeaders = append(w.writeHeaders, c)
	if w.hdrAtCommit == nil {
		w.hdrAtCommit = w.hdr.Clone()
	}
}
func (w *recWriter) Write(b []byte) (int, error) {
	vrt.Obs()
	if len(w.writeHeaders) == 0 {
		w.WriteHeader(200)
	}
	w.body.Write(b)
	return len(b), nil
}

// hdrRepr: the X-H value and, when present, every value of the multi-valued X-M in order
func hdrRepr(h http.Header) string {
	x := h.Get("X-H")
	if vs, ok := h["X-M"]; ok {
		x += ";X-M=" + strings.Join(vs, ",")
	}
	return x
}

func hx(hset, mset bool) string {
	x := ""
	if hset {
		x = "1"
	}
	if mset {
		x += ";X-M=a,b"
	}
	return x
}

func (w *recWriter) summary() string {
	st := 0
	if len(w.writeHeaders) > 0 {
		st = w.writeHeaders[0]
	}
	x := ""
	if w.hdrAtCommit != nil {
		x = hdrRepr(w.hdrAtCommit)
	}
	return fmt.Sprintf("%d|X-H=%s|%q", st, x, w.body.String())
}

// behaviour: a sequence of steps the handler performs
// H header, W<code> WriteHeader, B<text> body write, Y yield, S<ms> virtual sleep, P panic
// (PA with http.ErrAbortHandler, PE with an error value, PN a runtime error)
type behaviour []string

func (b behaviour) String() string { return strings.Join(b, ",") }

// expected response if the handler runs to completion untouched by the timeout
func (b behaviour) clean() (summary string, panics bool) {
	st, x, body := 0, "", ""
	hset, mset := false, false
	for _, s := range b {
		switch {
		case s == "H":
			if st == 0 {
				hset = true
			}
		case s == "HM":
			// two values under one key (Set-Cookie, Vary, Link ...): both reach the client, in order
			if st == 0 {
				mset = true
			}
		case s == "W0" || s == "W999":
			// an out-of-range status makes WriteHeader itself panic (net/http's rule): like P
			if st == 0 {
				st = 500
				x = hx(hset, mset)
			}
			return fmt.Sprintf("%d|X-H=%s|%q", st, x, body), true
		case strings.HasPrefix(s, "W"):
			if st == 0 {
				fmt.Sscanf(s, "W%d", &st)
				x = hx(hset, mset)
			}
		case strings.HasPrefix(s, "B"):
			if st == 0 {
				st = 200
				x = hx(hset, mset)
			}
			body += s[1:]
		case strings.HasPrefix(s, "P"):
			if st == 0 {
				// RecoverHandler answers 500 when nothing was committed
				st = 500
				x = hx(hset, mset)
			}
			return fmt.Sprintf("%d|X-H=%s|%q", st, x, body), true
		}
	}
	if st == 0 {
		st = 200
		x = hx(hset, mset)
	}
	return fmt.Sprintf("%d|X-H=%s|%q", st, x, body), false
}

func (b behaviour) handler(o *gObs) http.Handler {
	return http.HandlerFunc(func(w http.ResponseWriter, r *http.Request) {
		vrt.Obs()
		o.started++
		o.running++
		if o.running > o.maxRunning {
			o.maxRunning = o.running
		}
		defer func() { vrt.Obs(); o.running--; o.finished++ }()
		for _, s := range b {
			switch {
			case s == "H":
				w.Header().Set("X-H", "1")
			case s == "HM":
				w.Header().Add("X-M", "a")
				w.Header().Add("X-M", "b")
			case strings.HasPrefix(s, "W"):
				var c int
				fmt.Sscanf(s, "W%d", &c)
				w.WriteHeader(c)
			case strings.HasPrefix(s, "B"):
				w.Write([]byte(s[1:]))
			case s == "Y":
				vrt.Yield()
			case strings.HasPrefix(s, "S"):
				var ms int
				fmt.Sscanf(s, "S%d", &ms)
				vrt.Sleep(time.Duration(ms) * time.Millisecond)
			case s == "P":
				panic("handler-panic")
			case s == "PA":
				// the value net/http itself uses to abort a handler: still a panic of the
				// handler as far as the guards are concerned
				panic(http.ErrAbortHandler)
			case s == "PE":
				panic(fmt.Errorf("handler-panic: %w", context.DeadlineExceeded))
			case s == "PZ":
				// re-raising an error variable that happens to be nil: with the module's go 1.19
				// semantics recover() reports nil for it, but it is a panic of the handler all the same
				var e error
				panic(e)
			case s == "PN":
				var m map[string]int
				m["x"] = 1
			}
		}
	})
}

type gObs struct {
	started, finished, running, maxRunning int
}

const timeoutSummary = `503|X-H=|"Request Timeout"`
const cancelSummary = `499|X-H=|"Request Timeout"`

func guardBehaviours() []behaviour {
	return []behaviour{
		{},
		{"Ba"},
		{"H", "W201", "Ba", "Bb"},
		{"HM", "W201", "Ba"},
		{"H", "HM", "Ba", "S150", "Bb"},
		{"W404"},
		{"H", "Ba", "Y", "Bb"},
		{"S50", "H", "W201", "Ba"},
		{"Ba", "S50", "Bb"},
		{"S150", "Ba"},
		{"H", "Ba", "S150", "Bb"},
		{"P"},
		{"H", "P"},
		{"W201", "Ba", "P"},
		{"S50", "P"},
		{"S150", "P"},
		{"PA"},
		{"H", "PA"},
		{"S50", "PA"},
		{"PE"},
		{"PN"},
		{"PZ"},
		{"H", "PZ"},
		{"W500", "Bx"},
		{"W0"},
		{"S50", "W999"},
	}
}

func TestVerifTimeoutRecover(t *testing.T) {
	defer vrt.WriteReport()
	logx.Disable()
	bound := 2
	if vrt.Thorough() {
		bound = 4
	}
	type sc struct {
		b      behaviour
		cancel bool
	}
	var scs []sc
	for _, b := range guardBehaviours() {
		scs = append(scs, sc{b, false})
	}
	scs = append(scs, sc{behaviour{"S50", "Ba"}, true}, sc{behaviour{"H", "Ba", "S150", "Bb"}, true}, sc{behaviour{"S150", "P"}, true})
	var mine []sc
	for i, s := range scs {
		if vrt.Shard(i) {
			mine = append(mine, s)
		}
	}
	for i, s := range mine {
		s := s
		name := fmt.Sprintf("guards/timeout+recover/handler=[%s]/clientcancel=%v", s.b, s.cancel)
		vrt.Explore(vrt.Options{Name: name, Bound: bound, AutoAdvance: true, Prune: true, Budget: vrt.FairBudget(len(mine) - i)}, func(r *vrt.Run) {
			o := &gObs{}
			chain := TimeoutHandler(gTimeout)(RecoverHandler(s.b.handler(o)))
			rec := newRecWriter()
			req := httptest.NewRequest(http.MethodGet, "/x", nil)
			fired := false
			var cancelClient context.CancelFunc
			if s.cancel {
				var ctx context.Context
				ctx, cancelClient = context.WithCancel(context.Background())
				req = req.WithContext(ctx)
			}
			var wg sync.WaitGroup
			wg.Add(1)
			go func() {
				defer wg.Done()
				if s.cancel {
					vrt.Advance(60 * time.Millisecond)
					vrt.Obs()
					fired = true
					cancelClient()
					vrt.Advance(100 * time.Millisecond)
					return
				}
				vrt.Advance(gTimeout - time.Millisecond)
				vrt.Advance(time.Millisecond)
				vrt.Obs()
				fired = true
				vrt.Advance(gTimeout)
			}()
			returned := false
			finishedAtReturn, firedAtReturn := 0, false
			var escaped any
			func() {
				defer func() { escaped = recover() }()
				chain.ServeHTTP(rec, req)
			}()
			vrt.Obs()
			returned = true
			finishedAtReturn, firedAtReturn = o.finished, fired
			atReturn := rec.summary()
			wg.Wait()
			vrt.Settle()
			r.Outcome("%s", atReturn)
			clean, _ := s.b.clean()
			deadline := timeoutSummary
			if s.cancel {
				deadline = cancelSummary
			}
			r.AtEnd(func() {
				if !returned {
					r.Failf("the request goroutine never returned: %v", r.Leaked())
					return
				}
				if escaped != nil {
					r.Failf("panic escaped the chain into the server goroutine: %v", escaped)
				}
				final := rec.summary()
				if final != atReturn {
					r.Failf("the response changed after ServeHTTP returned: %s -> %s (handler output leaked past the deadline)", atReturn, final)
				}
				if len(rec.writeHeaders) != 1 {
					r.Failf("WriteHeader reached the client %d times (%v)", len(rec.writeHeaders), rec.writeHeaders)
				}
				switch atReturn {
				case clean:
					if finishedAtReturn == 0 {
						r.Failf("client got the handler's response %s although the handler had not finished", atReturn)
					}
				case deadline:
					if !firedAtReturn {
						r.Failf("client got the timeout response before the deadline/cancel happened")
					}
				default:
					r.Failf("client got %s: neither the handler's response %s nor the timeout response %s", atReturn, clean, deadline)
				}
				if finishedAtReturn > 0 && !firedAtReturn && atReturn != clean {
					r.Failf("handler finished, deadline not reached, but client got %s instead of %s", atReturn, clean)
				}
				if finishedAtReturn == 0 && atReturn != deadline {
					r.Failf("handler still running at return but client got %s instead of %s", atReturn, deadline)
				}
			})
		})
	}
}

// Independence from earlier requests: after any first request (including ones that timed
// out, panicked or answered 5xx) a second, quick request gets precisely its own response,
// through the same chain instance and through a freshly built one.
func TestVerifGuardsSequential(t *testing.T) {
	defer vrt.WriteReport()
	logx.Disable()
	quick := []behaviour{{}, {"Ba"}, {"H", "W201", "Ba", "Bb"}, {"W404"}, {"P"}, {"W500", "Bx"}, {"H", "Ba"}}
	n := 0
	for _, a := range guardBehaviours() {
		for _, sameChain := range []bool{true, false} {
			n++
			if !vrt.Shard(n + 200) {
				continue
			}
			a, sameChain := a, sameChain
			vrt.Explore(vrt.Options{Name: fmt.Sprintf("guards/sequential/first=[%s]/same-chain=%v", a, sameChain), Bound: 0, AutoAdvance: true}, func(r *vrt.Run) {
				for _, b := range quick {
					oa, ob := &gObs{}, &gObs{}
					cur := a
					var co *gObs = oa
					dyn := http.HandlerFunc(func(w http.ResponseWriter, req *http.Request) { cur.handler(co).ServeHTTP(w, req) })
					chain := TimeoutHandler(gTimeout)(RecoverHandler(dyn))
					rec1 := newRecWriter()
					func() {
						defer func() { recover() }()
						chain.ServeHTTP(rec1, httptest.NewRequest(http.MethodGet, "/x", nil))
					}()
					vrt.Sleep(3 * gTimeout) // let a timed-out first handler run to its end
					vrt.Settle()
					cur, co = b, ob
					if !sameChain {
						chain = TimeoutHandler(gTimeout)(RecoverHandler(dyn))
					}
					rec2 := newRecWriter()
					var escaped any
					func() {
						defer func() { escaped = recover() }()
						chain.ServeHTTP(rec2, httptest.NewRequest(http.MethodGet, "/x", nil))
					}()
					vrt.Settle()
					want, _ := b.clean()
					r.Outcome("%s", rec2.summary())
					if escaped != nil {
						r.Failf("second request [%s]: panic escaped: %v", b, escaped)
					}
					if got := rec2.summary(); got != want {
						r.Failf("second request [%s] after first [%s]: client got %s, want %s", b, a, got, want)
					}
					if len(rec2.writeHeaders) != 1 {
						r.Failf("second request [%s] after first [%s]: WriteHeader reached the client %d times", b, a, len(rec2.writeHeaders))
					}
					if ob.started != 1 {
						r.Failf("second request [%s]: handler ran %d times", b, ob.started)
					}
				}
			})
		}
	}
}

func TestVerifMaxConns(t *testing.T) {
	defer vrt.WriteReport()
	logx.Disable()
	bound := 2
	if vrt.Thorough() {
		bound = 4
	}
	idx := 100
	for _, n := range []int{1, 2} {
		for _, reqs := range []int{2, 3} {
			for _, pan := range []bool{false, true} {
				idx++
				if !vrt.Shard(idx) {
					continue
				}
				n, reqs, pan := n, reqs, pan
				vrt.Explore(vrt.Options{Name: fmt.Sprintf("guards/maxconns/n=%d/requests=%d/panic=%v", n, reqs, pan), Bound: bound, AutoAdvance: true, Prune: true, Budget: vrt.FairBudget(1)}, func(r *vrt.Run) {
					o := &gObs{}
					b := behaviour{"Y", "Ba"}
					if pan {
						b = behaviour{"Y", "P"}
					}
					chain := MaxConns(n)(RecoverHandler(b.handler(o)))
					var wg sync.WaitGroup
					codes := make([]string, reqs)
					for i := 0; i < reqs; i++ {
						i := i
						wg.Add(1)
						go func() {
							defer wg.Done()
							rec := newRecWriter()
							chain.ServeHTTP(rec, httptest.NewRequest(http.MethodGet, "/x", nil))
							codes[i] = rec.summary()
						}()
					}
					wg.Wait()
					if o.maxRunning > n {
						r.Failf("%d requests inside handlers at once, MaxConns=%d", o.maxRunning, n)
					}
					admitted := 0
					for _, c := range codes {
						switch {
						case strings.HasPrefix(c, "503|"):
						case strings.HasPrefix(c, "200|") && !pan, strings.HasPrefix(c, "500|") && pan:
							admitted++
						default:
							r.Failf("unexpected response %s", c)
						}
					}
					if admitted != o.started {
						r.Failf("%d admitted responses but %d handler runs", admitted, o.started)
					}
					sort.Strings(codes)
					r.Outcome("%v", codes)
					// all tokens returned: n further sequential requests are admitted
					for i := 0; i < n; i++ {
						rec := newRecWriter()
						before := o.started
						chain.ServeHTTP(rec, httptest.NewRequest(http.MethodGet, "/x", nil))
						if o.started != before+1 {
							r.Failf("request after completion rejected (%s): a connection token was lost", rec.summary())
						}
					}
				})
			}
		}
	}
}

// Nobody waits inside the guard: with the handlers held open, once everything has moved as
// far as it can every request is either inside a handler (at most MaxConns of them) or has
// been answered 503 - none is parked in the guard waiting for a slot (that wait would not
// even be covered by the route timeout).
func TestVerifMaxConnsNoWaiting(t *testing.T) {
	defer vrt.WriteReport()
	logx.Disable()
	bound := 2
	if vrt.Thorough() {
		bound = 3
	}
	idx := 150
	for _, n := range []int{1, 2} {
		for _, reqs := range []int{2, 3} {
			idx++
			if !vrt.Shard(idx) {
				continue
			}
			n, reqs := n, reqs
			vrt.Explore(vrt.Options{Name: fmt.Sprintf("guards/maxconns-no-waiting/n=%d/requests=%d", n, reqs), Bound: bound, Prune: true, Budget: vrt.FairBudget(1)}, func(r *vrt.Run) {
				gate := make(chan struct{})
				inside := 0
				chain := MaxConns(n)(http.HandlerFunc(func(w http.ResponseWriter, req *http.Request) {
					vrt.Obs()
					inside++
					<-gate
					w.Write([]byte("ok"))
				}))
				var wg sync.WaitGroup
				codes := make([]string, reqs)
				for i := 0; i < reqs; i++ {
					i := i
					wg.Add(1)
					go func() {
						defer wg.Done()
						rec := newRecWriter()
						chain.ServeHTTP(rec, httptest.NewRequest(http.MethodGet, "/x", nil))
						vrt.Obs()
						codes[i] = rec.summary()
					}()
				}
				vrt.Settle()
				answered := 0
				for _, c := range codes {
					if c != "" {
						answered++
						if !strings.HasPrefix(c, "503|") {
							r.Failf("a request was answered %s while the handlers are still held open", c)
						}
					}
				}
				r.Outcome("inside=%d answered=%d", inside, answered)
				if inside > n {
					r.Failf("%d requests inside handlers at once, MaxConns=%d", inside, n)
				}
				if inside+answered != reqs {
					r.Failf("%d of %d requests are neither inside a handler nor answered: they wait inside the MaxConns guard (inside=%d, answered 503=%d)", reqs-inside-answered, reqs, inside, answered)
				}
				close(gate)
				wg.Wait()
			})
		}
	}
}

func TestVerifMaxBytes(t *testing.T) {
	defer vrt.WriteReport()
	logx.Disable()
	if !vrt.Shard(200) {
		return
	}
	c := vrt.NewCases("guards/maxbytes")
	vrt.RunOnce(vrt.Options{Name: "maxbytes"}, func(r *vrt.Run) {
		for _, limit := range []int64{0, 1, 8, 1024} {
			for _, cl := range []int64{-1, 0, 1, 7, 8, 9, 1023, 1024, 1025, 1 << 40} {
				o := &gObs{}
				chain := MaxBytesHandler(limit)(behaviour{"Ba"}.handler(o))
				rec := newRecWriter()
				req := httptest.NewRequest(http.MethodPost, "/x", strings.NewReader("x"))
				req.ContentLength = cl
				chain.ServeHTTP(rec, req)
				tooBig := limit > 0 && cl > limit
				c.Eval(fmt.Sprintf("limit=%d cl>limit=%v", limit, tooBig), func() any {
					return map[string]any{"limit": limit, "content_length": cl, "response": rec.summary(), "handler_ran": o.started}
				})
				if tooBig && (o.started != 0 || !strings.HasPrefix(rec.summary(), "413|")) {
					c.Violation(fmt.Sprintf("limit=%d cl=%d", limit, cl), "oversized", fmt.Sprintf("Content-Length %d > MaxBytes %d: response %s, handler ran %d times", cl, limit, rec.summary(), o.started))
				}
				if !tooBig && (o.started != 1 || !strings.HasPrefix(rec.summary(), "200|")) {
					c.Violation(fmt.Sprintf("limit=%d cl=%d", limit, cl), "within limit", fmt.Sprintf("Content-Length %d within MaxBytes %d: response %s, handler ran %d times", cl, limit, rec.summary(), o.started))
				}
			}
		}
	})
	c.Done()
}
