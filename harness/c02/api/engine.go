package api

import (
	"fmt"
	"net/http"
	"net/http/httptest"
	"sort"
	"strings"
	"sync"
	"testing"
	"time"

	vrt "github.com/gotid/god"
	"github.com/gotid/god/lib/logx"
	"github.com/gotid/god/lib/stat"
)

type eRec struct {
	hdr          http.Header
	writeHeaders []int
	xAtCommit    string
	body         strings.Builder
}

func (w *eRec) Header() http.Header { return w.hdr }
func (w *eRec) WriteHeader(c int) {
	vrt.Obs()
	if len(w.writeHeaders) == 0 {
		w.xAtCommit = w.hdr.Get("X-H")
	}
	w.writeHeaders = append(w.writeHeaders, c)
}
func (w *eRec) Write(b []byte) (int, error) {
	vrt.Obs()
	if len(w.writeHeaders) == 0 {
		w.WriteHeader(200)
	}
	w.body.Write(b)
	return len(b), nil
}
func (w *eRec) summary() string {
	st := 0
	if len(w.writeHeaders) > 0 {
		st = w.writeHeaders[0]
	}
	return fmt.Sprintf("%d|X-H=%s|%q", st, w.xAtCommit, w.body.String())
}

type eRouter struct{ h http.Handler }

func (r *eRouter) ServeHTTP(w http.ResponseWriter, req *http.Request) { r.h.ServeHTTP(w, req) }
func (r *eRouter) Handle(method, path string, handler http.Handler) error {
	r.h = handler
	return nil
}
func (r *eRouter) SetNotFoundHandler(handler http.Handler)   {}
func (r *eRouter) SetNotAllowedHandler(handler http.Handler) {}

type eObs struct{ started, finished, running, maxRunning int }

func eHandler(o *eObs, steps []string) http.HandlerFunc {
	return func(w http.ResponseWriter, r *http.Request) {
		vrt.Obs()
		o.started++
		o.running++
		if o.running > o.maxRunning {
			o.maxRunning = o.running
		}
		defer func() { vrt.Obs(); o.running--; o.finished++ }()
		for _, s := range steps {
			switch {
			case s == "H":
				w.Header().Set("X-H", "1")
			case strings.HasPrefix(s, "W"):
				var c int
				fmt.Sscanf(s, "W%d", &c)
				w.WriteHeader(c)
			case strings.HasPrefix(s, "B"):
				w.Write([]byte(s[1:]))
			case s == "Y":
				vrt.Yield()
			case strings.HasPrefix(s, "S"):
				var ms int
				fmt.Sscanf(s, "S%d", &ms)
				vrt.Sleep(time.Duration(ms) * time.Millisecond)
			case s == "P":
				panic("handler-panic")
			case s == "PA":
				panic(http.ErrAbortHandler)
			}
		}
	}
}

func buildEngine(r *vrt.Run, maxConns int, o *eObs, steps []string) http.Handler {
	ng := newEngine(Config{Timeout: 100, MaxConns: maxConns, MaxBytes: 8})
	ng.addRoutes(featuredRoutes{routes: []Route{{Method: http.MethodPost, Path: "/x", Handler: eHandler(o, steps)}}})
	rt := &eRouter{}
	if err := ng.bindRoutes(rt); err != nil {
		r.Failf("bindRoutes: %v", err)
	}
	return rt
}

// The real chain built by engine.bindRoute (Tracing, Log, Prometheus, MaxConns, Breaker,
// Shedding, Timeout, Recover, Metric, MaxBytes, Gunzip) around small handler programs.
func TestVerifEngineChain(t *testing.T) {
	defer vrt.WriteReport()
	logx.Disable()
	stat.SetReporter(nil)
	bound := 2
	if vrt.Thorough() {
		bound = 4
	}
	type sc struct {
		steps []string
		clean string
	}
	scs := []sc{
		{[]string{"H", "W201", "Ba"}, `201|X-H=1|"a"`},
		{[]string{"Ba", "S150", "Bb"}, `200|X-H=|"ab"`},
		{[]string{"P"}, `500|X-H=|""`},
		{[]string{"S150", "P"}, `500|X-H=|""`},
		{[]string{"PA"}, `500|X-H=|""`},
	}
	for i, s := range scs {
		if !vrt.Shard(i + 300) {
			continue
		}
		s := s
		vrt.Explore(vrt.Options{Name: fmt.Sprintf("guards/engine-chain/handler=%v", s.steps), Bound: bound, AutoAdvance: true, Prune: true, Budget: vrt.FairBudget(1)}, func(r *vrt.Run) {
			o := &eObs{}
			h := buildEngine(r, 10, o, s.steps)
			rec := &eRec{hdr: http.Header{}}
			fired := false
			var wg sync.WaitGroup
			wg.Add(1)
			go func() {
				defer wg.Done()
				vrt.Advance(99 * time.Millisecond)
				vrt.Advance(time.Millisecond)
				vrt.Obs()
				fired = true
				vrt.Advance(100 * time.Millisecond)
			}()
			var escaped any
			func() {
				defer func() { escaped = recover() }()
				h.ServeHTTP(rec, httptest.NewRequest(http.MethodPost, "/x", strings.NewReader("12345")))
			}()
			vrt.Obs()
			finishedAtReturn, firedAtReturn := o.finished, fired
			atReturn := rec.summary()
			wg.Wait()
			vrt.Settle()
			r.Outcome("%s", atReturn)
			if escaped != nil {
				r.Failf("panic escaped the chain: %v", escaped)
			}
			if final := rec.summary(); final != atReturn {
				r.Failf("response changed after return: %s -> %s", atReturn, final)
			}
			if len(rec.writeHeaders) != 1 {
				r.Failf("WriteHeader reached the client %d times (%v)", len(rec.writeHeaders), rec.writeHeaders)
			}
			deadline := `503|X-H=|"Request Timeout"`
			switch atReturn {
			case s.clean:
				if finishedAtReturn == 0 {
					r.Failf("handler's response delivered before the handler finished")
				}
			case deadline:
				if !firedAtReturn {
					r.Failf("timeout response before the deadline")
				}
			default:
				r.Failf("client got %s: neither %s nor %s", atReturn, s.clean, deadline)
			}
			if finishedAtReturn == 0 && atReturn != deadline {
				r.Failf("handler still running at return but client got %s", atReturn)
			}
		})
	}
	// MaxBytes and MaxConns through the real chain
	if vrt.Shard(310) {
		vrt.Explore(vrt.Options{Name: "guards/engine-chain/maxbytes", Bound: 0}, func(r *vrt.Run) {
			o := &eObs{}
			h := buildEngine(r, 10, o, []string{"Ba"})
			rec := &eRec{hdr: http.Header{}}
			h.ServeHTTP(rec, httptest.NewRequest(http.MethodPost, "/x", strings.NewReader("123456789")))
			if o.started != 0 || !strings.HasPrefix(rec.summary(), "413|") {
				r.Failf("9-byte body with MaxBytes 8: response %s, handler ran %d times", rec.summary(), o.started)
			}
			rec = &eRec{hdr: http.Header{}}
			h.ServeHTTP(rec, httptest.NewRequest(http.MethodPost, "/x", strings.NewReader("12345678")))
			if o.started != 1 || rec.summary() != `200|X-H=|"a"` {
				r.Failf("8-byte body with MaxBytes 8: response %s, handler ran %d times", rec.summary(), o.started)
			}
		})
	}
	if vrt.Shard(311) {
		vrt.Explore(vrt.Options{Name: "guards/engine-chain/maxconns=1/2requests", Bound: bound, AutoAdvance: true, Prune: true, Budget: vrt.FairBudget(1)}, func(r *vrt.Run) {
			o := &eObs{}
			h := buildEngine(r, 1, o, []string{"Y", "Ba"})
			var wg sync.WaitGroup
			res := make([]string, 2)
			for i := 0; i < 2; i++ {
				i := i
				wg.Add(1)
				go func() {
					defer wg.Done()
					rec := &eRec{hdr: http.Header{}}
					h.ServeHTTP(rec, httptest.NewRequest(http.MethodPost, "/x", strings.NewReader("1")))
					res[i] = rec.summary()
				}()
			}
			wg.Wait()
			sort.Strings(res)
			r.Outcome("%v", res)
			if o.maxRunning > 1 {
				r.Failf("%d requests inside the handler with MaxConns=1", o.maxRunning)
			}
			for _, x := range res {
				if x != `200|X-H=|"a"` && !strings.HasPrefix(x, "503|") {
					r.Failf("unexpected response %s", x)
				}
			}
		})
	}
}

// The timeout response has to be deliverable: net/http stops writing to a connection once the
// server's WriteTimeout (counted from the end of the request header) has passed, and the 503 of
// the timeout guard is written Timeout after the handler started, i.e. later than that.  For
// every Timeout setting the server the engine configures must therefore allow writes for longer
// than the guard's deadline; otherwise neither the timeout response nor the response of a
// handler finishing shortly before its deadline reaches the client (it sees the connection
// closed instead).  This is a relation between two settings the engine derives from one
// configuration value, checked for each value; the behaviour of net/http itself is taken from
// its documentation.
func TestVerifServerWriteTimeout(t *testing.T) {
	defer vrt.WriteReport()
	logx.Disable()
	if !vrt.Shard(310) {
		return
	}
	c := vrt.NewCases("guards/server-write-timeout")
	for _, ms := range []int64{1, 2, 5, 10, 50, 99, 100, 999, 1000, 3000, 30000, 600000} {
		ng := newEngine(Config{Timeout: ms})
		svr := &http.Server{}
		ng.withTimeout()(svr)
		guard := time.Duration(ms) * time.Millisecond
		in := fmt.Sprintf("Timeout=%dms", ms)
		c.Eval(in, func() any {
			return map[string]any{"timeout_ms": ms, "server_write_timeout": svr.WriteTimeout.String(), "server_read_timeout": svr.ReadTimeout.String()}
		})
		if svr.WriteTimeout != 0 && svr.WriteTimeout <= guard {
			c.Violation(in, "write timeout before the guard's deadline", fmt.Sprintf("the timeout guard answers 503 after %v, but the server stops writing to the connection %v after the request header: the client gets no response", guard, svr.WriteTimeout))
		}
	}
	ng := newEngine(Config{Timeout: 0})
	svr := &http.Server{}
	ng.withTimeout()(svr)
	if svr.WriteTimeout != 0 || svr.ReadTimeout != 0 {
		c.Violation("Timeout=0", "no timeout configured", fmt.Sprintf("server timeouts %v/%v set although no timeout is configured", svr.ReadTimeout, svr.WriteTimeout))
	}
	c.Done()
}
