package hash

import (
	"fmt"
	"sort"
	"strings"
	"testing"

	vrt "github.com/gotid/god"
)

// Membership changes of *different* nodes running at the same time as each other and as
// lookups.  Each Add of a new node / Remove of a present node is one critical section, so
// every lookup must return the node some membership reachable by a subset of the changes
// assigns to its key, and once all changes are done the ring must be the one a sequential
// history with the same changes builds (virtual nodes, owners, node table) and every probe key
// must be assigned as on that ring.  (Two concurrent changes of the *same* node are outside the
// claim: AddWithReplicas is Remove followed by an add, two critical sections.)  With plain
// accesses announced, a change that moves part of Get/Add/Remove out of its critical section
// shows up as a racy access and is explored.

type chMut struct {
	name string
	do   func(h *ConsistentHash)
}

func chRingDump(h *ConsistentHash) string {
	var parts []string
	for _, k := range h.keys {
		var ns []string
		for _, n := range h.ring[k] {
			ns = append(ns, nodeName(n))
		}
		parts = append(parts, fmt.Sprintf("%d:%s", k, strings.Join(ns, ",")))
	}
	var nodes []string
	for n := range h.nodes {
		nodes = append(nodes, n)
	}
	sort.Strings(nodes)
	sorted := sort.SliceIsSorted(h.keys, func(i, j int) bool { return h.keys[i] < h.keys[j] })
	return fmt.Sprintf("sorted=%v nodes=%v ring=%s", sorted, nodes, strings.Join(parts, ";"))
}

func chBuild(base []string, muts []chMut, mask int) *ConsistentHash {
	h := NewConsistentHash()
	for _, n := range base {
		h.Add(n)
	}
	for i, m := range muts {
		if mask&(1<<i) != 0 {
			m.do(h)
		}
	}
	return h
}

func TestVerifConsistentHashConcurrentMembership(t *testing.T) {
	defer vrt.WriteReport()
	bound := 2
	if vrt.Thorough() {
		bound = 3
	}
	base := []string{"A", "B", "C"}
	addD := chMut{"add:D", func(h *ConsistentHash) { h.Add("D") }}
	addwD := chMut{"addw:D:50", func(h *ConsistentHash) { h.AddWithWeight("D", 50) }}
	addrE := chMut{"addr:E:30", func(h *ConsistentHash) { h.AddWithReplicas("E", 30) }}
	rmC := chMut{"rm:C", func(h *ConsistentHash) { h.Remove("C") }}
	rmB := chMut{"rm:B", func(h *ConsistentHash) { h.Remove("B") }}
	rmZ := chMut{"rm:Z(absent)", func(h *ConsistentHash) { h.Remove("Z") }}
	type scen struct {
		muts    []chMut
		lookups int
	}
	scens := []scen{
		{[]chMut{addD}, 2},
		{[]chMut{rmC}, 2},
		{[]chMut{addwD}, 1},
		{[]chMut{addD, rmC}, 1},
		{[]chMut{addD, addrE}, 1},
		{[]chMut{rmB, rmC}, 1},
		{[]chMut{addD, rmZ}, 1},
		{[]chMut{addD, rmC}, 0},
		{[]chMut{addwD, addrE, rmC}, 0},
	}
	for si, sc := range scens {
		if !vrt.Shard(si + 7) {
			continue
		}
		sc := sc
		var names []string
		for _, m := range sc.muts {
			names = append(names, m.name)
		}
		// sequential references: every subset of the changes
		nsub := 1 << len(sc.muts)
		refs := make([]*ConsistentHash, nsub)
		for mask := 0; mask < nsub; mask++ {
			refs[mask] = chBuild(base, sc.muts, mask)
		}
		full := refs[nsub-1]
		wantRing := chRingDump(full)
		// lookup keys: prefer keys whose assignment differs between the first and the last reference
		var keys []string
		for i := 0; len(keys) < sc.lookups && i < 5000; i++ {
			k := fmt.Sprintf("key-%d", i)
			a, _ := refs[0].Get(k)
			b, _ := full.Get(k)
			if a != b {
				keys = append(keys, k)
			}
		}
		if len(keys) > 1 {
			// the second lookup key: one that stays where it is
			for i := 0; i < 5000; i++ {
				k := fmt.Sprintf("key-%d", i)
				a, _ := refs[0].Get(k)
				b, _ := full.Get(k)
				if a == b {
					keys[1] = k
					break
				}
			}
		}
		probes := chKeys(200)
		vrt.Explore(vrt.Options{Name: fmt.Sprintf("consistenthash/concurrent-membership/%s/lookups=%d", strings.Join(names, "+"), sc.lookups), Bound: bound, Prune: true, Budget: vrt.FairBudget(1)}, func(r *vrt.Run) {
			h := chBuild(base, nil, 0)
			got := make([]any, len(keys))
			found := make([]bool, len(keys))
			var wg vrt.WaitGroup
			for _, m := range sc.muts {
				m := m
				wg.Add(1)
				vrt.Go(func() {
					defer wg.Done()
					m.do(h)
				})
			}
			for i := range keys {
				i := i
				wg.Add(1)
				vrt.Go(func() {
					defer wg.Done()
					got[i], found[i] = h.Get(keys[i])
				})
			}
			wg.Wait()
			r.Outcome("%v", got)
			for i, k := range keys {
				ok := false
				var allowed []any
				for _, ref := range refs {
					w, f := ref.Get(k)
					allowed = append(allowed, w)
					if f == found[i] && w == got[i] {
						ok = true
					}
				}
				if !ok {
					r.Failf("Get(%s) concurrent with %v returned %v (found=%v); the memberships reachable by these changes assign it to one of %v", k, names, got[i], found[i], allowed)
				}
			}
			if g := chRingDump(h); g != wantRing {
				r.Failf("after concurrent %v the ring differs from the ring the same changes build one after another:\n got  %.300s\n want %.300s", names, g, wantRing)
				return
			}
			for _, k := range probes {
				a, fa := h.Get(k)
				b, fb := full.Get(k)
				if a != b || fa != fb {
					r.Failf("after concurrent %v key %v is assigned to %v/%v; sequentially %v/%v", names, k, a, fa, b, fb)
					return
				}
			}
		})
	}
}
