package hash

import (
	"crypto/sha1"
	"fmt"
	"sort"
	"strings"
	"testing"

	vrt "github.com/gotid/god"
)

type chStruct struct {
	Name string
	Zone int
}

type chStringer struct{ n string }

func (s chStringer) String() string { return "node<" + s.n + ">" }

// chPanicKey is a key whose own String method fails.
type chPanicKey struct{}

func (chPanicKey) String() string { panic("key formatting failed") }

func chNode(kind, name string) any {
	switch kind {
	case "struct":
		return chStruct{Name: name, Zone: len(name)}
	case "stringer":
		return chStringer{name}
	case "ptrstruct":
		// a fresh instance with equal content every time (nodes are identified by what they
		// print as, pointers being followed)
		return &chStruct{Name: name, Zone: len(name)}
	}
	return name
}

func chKeys(n int) []any {
	var out []any
	for i := 0; i < n; i++ {
		switch i % 3 {
		case 0:
			out = append(out, fmt.Sprintf("key-%d", i))
		case 1:
			out = append(out, i*7919)
		default:
			out = append(out, chStruct{Name: fmt.Sprintf("k%d", i), Zone: i})
		}
	}
	return out
}

type chSys struct {
	r      *vrt.Run
	kind   string
	h      *ConsistentHash
	model  map[string]int // node name -> replicas (present nodes, possibly 0)
	base   int            // the ring's replica count per full-weight node
	keys   []any
	assign []string // current assignment ("" = absent)
}

func newChSys(r *vrt.Run, kind string, keys []any) *chSys {
	return newChSysReplicas(r, kind, keys, 100)
}

func newChSysReplicas(r *vrt.Run, kind string, keys []any, base int) *chSys {
	s := &chSys{r: r, kind: kind, model: map[string]int{}, keys: keys, base: base}
	if base == 100 {
		s.h = NewConsistentHash()
	} else {
		s.h = NewCustomConsistentHash(base, nil)
	}
	s.assign = s.lookupAll("init")
	return s
}

func nodeName(v any) string {
	switch x := v.(type) {
	case string:
		return x
	case chStruct:
		return x.Name
	case chStringer:
		return x.n
	case *chStruct:
		return x.Name
	}
	return fmt.Sprint(v)
}

func (s *chSys) lookupAll(after string) []string {
	out := make([]string, len(s.keys))
	positive := 0
	for _, r := range s.model {
		if r > 0 {
			positive++
		}
	}
	for i, k := range s.keys {
		v, ok := s.h.Get(k)
		v2, ok2 := s.h.Get(k)
		if ok != ok2 || (ok && nodeName(v) != nodeName(v2)) {
			s.r.Failf("after %s: two lookups of key %v disagree: %v/%v vs %v/%v", after, k, v, ok, v2, ok2)
			return out
		}
		if ok != (positive > 0) {
			s.r.Failf("after %s: lookup of %v reports found=%v with %d nodes of positive weight", after, k, ok, positive)
			return out
		}
		if ok {
			n := nodeName(v)
			if s.model[n] <= 0 {
				s.r.Failf("after %s: key %v assigned to %s which is not a current node with positive weight (nodes %v)", after, k, n, s.model)
				return out
			}
			out[i] = n
		}
	}
	return out
}

// ringCollision reports whether two different nodes share a ring position (outside the claim)
func (s *chSys) ringCollision() bool {
	for _, nodes := range s.h.ring {
		if len(nodes) > 1 {
			return true
		}
	}
	return false
}

func (s *chSys) snapshot() string {
	var parts []string
	for _, k := range s.h.keys {
		var ns []string
		for _, n := range s.h.ring[k] {
			ns = append(ns, nodeName(n))
		}
		parts = append(parts, fmt.Sprintf("%d:%s", k, strings.Join(ns, ",")))
	}
	return strings.Join(parts, ";")
}

func (s *chSys) apply(op string) bool {
	f := strings.Split(op, ":")
	name := f[1]
	node := chNode(s.kind, name)
	var arg int
	if len(f) > 2 {
		fmt.Sscan(f[2], &arg)
	}
	prev := s.assign
	_, wasPresent := s.model[name]
	switch f[0] {
	case "add":
		s.h.Add(node)
		s.model[name] = s.base
	case "addw":
		s.h.AddWithWeight(node, arg)
		s.model[name] = s.base * arg / 100
	case "addr":
		s.h.AddWithReplicas(node, arg)
		if arg > s.base {
			arg = s.base
		}
		s.model[name] = arg
	case "rm":
		s.h.Remove(node)
		delete(s.model, name)
	}
	if s.ringCollision() {
		return false
	}
	// structure: every key on the ring is sorted, and each present node owns exactly its replicas
	count := map[string]int{}
	for i, k := range s.h.keys {
		if i > 0 && s.h.keys[i-1] > k {
			s.r.Failf("after %s: ring keys not sorted", op)
		}
		for _, n := range s.h.ring[k] {
			count[nodeName(n)]++
		}
	}
	onList := map[uint64]bool{}
	for _, k := range s.h.keys {
		onList[k] = true
	}
	for k, owners := range s.h.ring {
		if !onList[k] || len(owners) == 0 {
			s.r.Failf("after %s: the ring keeps position %x (owners %d) that is not on its sorted key list", op, k, len(owners))
		}
	}
	for n, r := range s.model {
		if count[n] != r {
			s.r.Failf("after %s: node %s has %d virtual nodes on the ring, want %d", op, n, count[n], r)
		}
	}
	for n := range count {
		if _, ok := s.model[n]; !ok {
			s.r.Failf("after %s: removed node %s still has virtual nodes", op, n)
		}
	}
	// a lookup that fails inside the caller's own key (its String method panics; the caller
	// recovers) is that caller's problem only: the ring must stay usable - in particular
	// its lock must be free again, or the next membership change never completes
	func() {
		defer func() { recover() }()
		s.h.Get(chPanicKey{})
	}()
	if !s.h.lock.TryLock() {
		s.r.Failf("after %s: a lookup whose key panicked left the ring locked: the next Add/Remove would block for ever", op)
		return true
	}
	s.h.lock.Unlock()
	s.assign = s.lookupAll(op)
	if s.r.Failed() {
		return true
	}
	moved, movedBad := 0, 0
	for i := range s.keys {
		if prev[i] == s.assign[i] {
			continue
		}
		moved++
		switch f[0] {
		case "rm":
			if prev[i] != name {
				movedBad++
			}
		default:
			// (re-)adding N may only move keys onto N, or - when N is re-added with fewer
			// virtual nodes - off N
			if s.assign[i] != name && !(wasPresent && prev[i] == name) {
				movedBad++
			}
		}
	}
	if movedBad > 0 {
		s.r.Failf("after %s: %d of %d moved keys neither came from nor went to %s", op, movedBad, moved, name)
	}
	// share vs weight
	total, sumR := 0, 0
	share := map[string]int{}
	for _, a := range s.assign {
		if a != "" {
			share[a]++
			total++
		}
	}
	for _, r := range s.model {
		sumR += r
	}
	for n, r := range s.model {
		if r == 0 && share[n] != 0 {
			s.r.Failf("after %s: node %s has weight 0 but received %d keys", op, n, share[n])
		}
		if r >= 50 && total > 0 {
			exp := float64(r) / float64(sumR)
			got := float64(share[n]) / float64(total)
			if got < exp*0.5 || got > exp*1.6+0.02 {
				s.r.Failf("after %s: node %s holds %.1f%% of the keys, its weight share is %.1f%% (nodes %v)", op, n, got*100, exp*100, s.model)
			}
		}
	}
	// differential: re-adding a present node == removing it and adding it
	if wasPresent && f[0] != "rm" {
		alt := NewCustomConsistentHash(s.base, nil)
		for n, r := range s.model {
			alt.AddWithReplicas(chNode(s.kind, n), r)
		}
		a := &chSys{h: alt}
		if a.snapshot() != s.snapshot() {
			s.r.Failf("after %s: ring differs from a ring built afresh with the same membership %v (stale virtual nodes?)", op, s.model)
		}
	}
	return true
}

func (s *chSys) canon() string {
	var parts []string
	for n, r := range s.model {
		parts = append(parts, fmt.Sprintf("%s=%d", n, r))
	}
	sort.Strings(parts)
	// the real ring: virtual-node hashes with their owners, and the node index
	var ring []string
	for _, k := range s.h.keys {
		var owners []string
		for _, n := range s.h.ring[k] {
			owners = append(owners, nodeName(n)) // (not %v: pointer nodes would print their addresses)
		}
		ring = append(ring, fmt.Sprintf("%x:%v", k, owners))
	}
	var nodes []string
	for n := range s.h.nodes {
		nodes = append(nodes, n)
	}
	sort.Strings(nodes)
	sum := sha1.Sum([]byte(strings.Join(ring, ";")))
	return strings.Join(parts, ",") + fmt.Sprintf("|ring=%d:%x|nodes=%v", len(s.h.keys), sum[:6], nodes)
}

func TestVerifConsistentHash(t *testing.T) {
	defer vrt.WriteReport()
	nodes := []string{"A", "B", "C"}
	nkeys, depth := 1000, 4
	if vrt.Thorough() {
		nodes = []string{"A", "B", "C", "D"}
		nkeys, depth = 20000, 6
	}
	keys := chKeys(nkeys)
	var ops []string
	for _, n := range nodes {
		ops = append(ops, "add:"+n)
		for _, w := range []int{0, 1, 50, 100} {
			ops = append(ops, fmt.Sprintf("addw:%s:%d", n, w))
		}
		for _, r := range []int{0, 1, 50, 100, 200} {
			ops = append(ops, fmt.Sprintf("addr:%s:%d", n, r))
		}
		ops = append(ops, "rm:"+n)
	}
	type cfg struct {
		kind string
		base int
	}
	for i, c := range []cfg{{"string", 100}, {"struct", 100}, {"stringer", 100}, {"ptrstruct", 100}, {"string", 150}, {"string", 199}, {"string", 333}} {
		if !vrt.Shard(i) {
			continue
		}
		c := c
		d := depth
		if c.base != 100 {
			d = depth - 1 // custom replica counts: one step shallower
		}
		vrt.BFS(vrt.Options{Name: fmt.Sprintf("consistenthash/nodes=%s/replicas=%d", c.kind, c.base), Horizon: 1 << 30, Budget: vrt.FairBudget(1)}, d, ops, func(r *vrt.Run, hist []string) vrt.Step {
			ks := keys
			if c.base != 100 {
				ks = keys[:len(keys)/5] // fewer probe keys for the custom rings (structure checks are exact anyway)
			}
			s := newChSysReplicas(r, c.kind, ks, c.base)
			for _, op := range hist {
				if !s.apply(op) {
					return vrt.Step{}
				}
				if r.Failed() {
					return vrt.Step{Canon: "failed"}
				}
			}
			return vrt.Step{Canon: s.canon()}
		})
	}
}

// Lookups running at the same time (they share the ring under a read lock): each returns the
// node it returns on its own while membership is unchanged.
func TestVerifConsistentHashConcurrentLookups(t *testing.T) {
	defer vrt.WriteReport()
	if !vrt.Shard(0) {
		return
	}
	bound := 2
	if vrt.Thorough() {
		bound = 3
	}
	for _, threads := range []int{2, 3} {
		threads := threads
		vrt.Explore(vrt.Options{Name: fmt.Sprintf("consistenthash/concurrent-lookups/threads=%d", threads), Bound: bound, Prune: true, Budget: vrt.FairBudget(1)}, func(r *vrt.Run) {
			h := NewConsistentHash()
			for _, n := range []string{"A", "B", "C"} {
				h.Add(n)
			}
			// keys that live on different nodes
			var keys []string
			seen := map[any]bool{}
			for i := 0; len(keys) < threads && i < 1000; i++ {
				k := fmt.Sprintf("key-%d", i)
				if n, ok := h.Get(k); ok && !seen[n] {
					seen[n] = true
					keys = append(keys, k)
				}
			}
			if len(keys) < 2 {
				r.Failf("setup: no two keys on different nodes")
				return
			}
			for len(keys) < threads {
				keys = append(keys, keys[0]+"x")
			}
			alone := make([]any, threads)
			for i, k := range keys {
				alone[i], _ = h.Get(k)
			}
			got := make([]any, threads)
			var wg vrt.WaitGroup
			for i := range keys {
				i := i
				wg.Add(1)
				vrt.Go(func() {
					defer wg.Done()
					got[i], _ = h.Get(keys[i])
				})
			}
			wg.Wait()
			r.Outcome("%v", got)
			for i := range keys {
				if got[i] != alone[i] {
					r.Failf("Get(%s) concurrent with %d other lookups returned %v; on its own (same membership) it returns %v", keys[i], threads-1, got[i], alone[i])
				}
			}
		})
	}
}
