package kv

import (
	"context"
	"crypto/sha1"
	"encoding/hex"
	"fmt"
	"os"
	"reflect"
	"sort"
	"strconv"
	"strings"
	"sync"
	"testing"
	"time"

	"github.com/alicebob/miniredis/v2"
	"github.com/alicebob/miniredis/v2/server"
	red "github.com/go-redis/redis/v8"
	vrt "github.com/gotid/god"
	"github.com/gotid/god/lib/breaker"
	"github.com/gotid/god/lib/logx"
	"github.com/gotid/god/lib/stat"
	"github.com/gotid/god/lib/store/cache"
	"github.com/gotid/god/lib/store/redis"
)

func sha1hex(s string) string {
	h := sha1.Sum([]byte(s))
	return hex.EncodeToString(h[:])
}

type twin struct {
	s   *miniredis.Miniredis
	raw *red.Client
}

var nextPort int

// newTwin starts a server on a port that is a function of the shard and of the creation
// order (the sharded store hashes node addresses, so fixed ports make key placement, and
// with it every replay, reproducible); a busy port falls back to a random one.
func newTwin() *twin {
	var k int
	fmt.Sscanf(os.Getenv("VRT_SHARD"), "%d/", &k)
	nextPort++
	s := miniredis.NewMiniRedis()
	if err := s.StartAddr(fmt.Sprintf("127.0.0.1:%d", 21000+k*64+nextPort)); err != nil {
		var err2 error
		if s, err2 = miniredis.Run(); err2 != nil {
			vrt.InfraError("miniredis: %v", err2)
		}
		vrt.AddNote("port %d busy (%v): random port used", 21000+k*64+nextPort, err)
	}
	return &twin{s: s, raw: red.NewClient(&red.Options{Addr: s.Addr()})}
}

func (t *twin) reset() {
	t.s.FlushAll()
	t.s.SetTime(time.Unix(t0, 0))
	t.s.Seed(42)
	t.raw.Do(context.Background(), "SCRIPT", "FLUSH")
}

// dump: keyspace with values and TTLs, one line per key.
func dump(ss ...*miniredis.Miniredis) string {
	var lines []string
	for _, s := range ss {
		for _, k := range s.Keys() {
			lines = append(lines, fmt.Sprintf("%s[%s ttl=%v] %s", k, s.Type(k), s.TTL(k), keyDump(s, k)))
		}
	}
	sort.Strings(lines)
	return strings.Join(lines, "\n")
}

func keyDump(s *miniredis.Miniredis, k string) string {
	switch s.Type(k) {
	case "string":
		v, _ := s.Get(k)
		return strconv.Quote(v)
	case "hash":
		fs, _ := s.HKeys(k)
		sort.Strings(fs)
		var q []string
		for _, f := range fs {
			q = append(q, f+"="+strconv.Quote(s.HGet(k, f)))
		}
		return strings.Join(q, ",")
	case "list":
		l, _ := s.List(k)
		return fmt.Sprintf("%q", l)
	case "set":
		m, _ := s.Members(k)
		sort.Strings(m)
		return fmt.Sprintf("%q", m)
	case "zset":
		m, _ := s.SortedSet(k)
		var q []string
		for mem, sc := range m {
			q = append(q, fmt.Sprintf("%q=%v", mem, sc))
		}
		sort.Strings(q)
		return strings.Join(q, ",")
	case "hll":
		n, _ := s.PfCount(k)
		return fmt.Sprintf("hll~%d", n)
	}
	return "?" + s.Type(k)
}

// sut: what a history is applied to — a plain wrapper, the same through the Ctx methods,
// a cluster-typed wrapper, or a sharded store.
type sut struct {
	node    redis.ClosableNode
	name    string
	target  any
	ctxForm bool
	servers []*twin
	kv      bool
}

func (u *sut) dump() string {
	var ss []*miniredis.Miniredis
	for _, t := range u.servers {
		ss = append(ss, t.s)
	}
	return dump(ss...)
}

// kvArgs adapts an invocation to the sharded store's signature where it differs.
func kvAdapt(i inv) (string, []any, bool) {
	if i.multi {
		if i.m == "Del" {
			return i.m, i.args, true
		}
		return "", nil, false
	}
	switch i.m {
	case "HSetNX":
		return "HSetNx", i.args, true
	case "HDel":
		if len(i.args) != 2 {
			return "", nil, false
		}
	case "Eval":
		keys := i.args[1].([]string)
		if len(keys) != 1 {
			return "", nil, false
		}
		a := append([]any{i.args[0], keys[0]}, i.args[2:]...)
		return i.m, a, true
	}
	return i.m, i.args, true
}

// step applies one invocation to the reference server (raw command) and to every system
// under test, and compares results and keyspaces. Returns false if the invocation does
// not exist for some sut (then nothing was applied).
func step(r *vrt.Run, ref *twin, suts []*sut, i inv) {
	var want string
	var wantNil bool
	var wantErr error
	if len(i.raw) == 1 && i.raw[0] == "none" {
		want = "[]"
	} else {
		reply, err := ref.raw.Do(context.Background(), i.raw...).Result()
		want, wantNil, wantErr = expected(i.conv, reply, err)
	}
	refDump := dump(ref.s)
	if strings.HasPrefix(i.conv, "pipe2") {
		var parts []string
		anyErr := false
		for _, c := range i.raw {
			reply, err := ref.raw.Do(context.Background(), c.([]any)...).Result()
			parts = append(parts, rawResult(reply, err))
			if err != nil {
				anyErr = true
			}
		}
		want, wantNil, wantErr = strings.Join(parts, " ; ")+fmt.Sprintf(" ; overall=%v", anyErr), false, nil
		refDump = dump(ref.s)
	}
	if i.conv == "pipe" {
		want, wantNil, wantErr = "", false, nil
		for _, c := range i.raw {
			if _, err := ref.raw.Do(context.Background(), c.([]any)...).Result(); err != nil && wantErr == nil {
				wantErr = err
			}
		}
		refDump = dump(ref.s)
	}
	for _, u := range suts {
		name, args := i.m, i.args
		if i.conv == "pipe" || i.conv == "blpop" || strings.HasPrefix(i.conv, "pipe2") {
			got, gotErr := special(u, i)
			if wantErr != nil {
				if gotErr == nil || !strings.Contains(gotErr.Error(), wantErr.Error()) {
					r.Failf("%s: %v returned (%s, %v); the raw commands fail with %q", u.name, i, got, gotErr, wantErr)
				}
			} else if gotErr != nil || ((i.conv == "blpop" || strings.HasPrefix(i.conv, "pipe2")) && got != want) {
				r.Failf("%s: %v returned (%s, %v); the raw commands %v answer %s", u.name, i, got, gotErr, i.raw, want)
			}
			if d := u.dump(); d != refDump {
				r.Failf("%s: after %v the keyspace differs from a server given %v\n--- system under test\n%s\n--- reference\n%s", u.name, i, i.raw, d, refDump)
			}
			continue
		}
		if u.kv {
			var ok bool
			if name, args, ok = kvAdapt(i); !ok {
				r.Failf("harness: %v is not in the sharded store's alphabet", i)
				return
			}
		}
		res, ok := callMethod(u.target, name, u.ctxForm, args)
		if !ok {
			r.Failf("harness: %s has no method for %v (ctx=%v)", u.name, i, u.ctxForm)
			return
		}
		got, gotErr := canonResult(i.conv, res)
		switch {
		case wantErr != nil:
			if gotErr == nil || !strings.Contains(gotErr.Error(), wantErr.Error()) {
				r.Failf("%s: %v returned (%s, %v); the raw command fails with %q", u.name, i, got, gotErr, wantErr)
			}
		case wantNil:
			if z := zeroFor(i.conv); z != "" {
				if gotErr != nil || got != z {
					r.Failf("%s: %v on an absent value returned (%s, %v); documented: zero value %s and no error", u.name, i, got, gotErr, z)
				}
			} else if gotErr != redis.Nil {
				r.Failf("%s: %v on an absent value returned (%s, %v); want redis.Nil", u.name, i, got, gotErr)
			}
		default:
			if gotErr != nil {
				r.Failf("%s: %v failed with %v; the raw command answers %s", u.name, i, gotErr, want)
			} else if got != want && !(i.conv == "ok" && got == "") {
				r.Failf("%s: %v returned %s; the raw command %v answers %s", u.name, i, got, i.raw, want)
			}
		}
		if d := u.dump(); d != refDump {
			r.Failf("%s: after %v the keyspace differs from a server given %v\n--- system under test\n%s\n--- reference\n%s", u.name, i, i.raw, d, refDump)
		}
	}
}

// special: invocations whose arguments cannot be tabulated (a pipeline body, a blocking node).
func special(u *sut, i inv) (string, error) {
	rds := u.target.(*redis.Redis)
	ctx := context.Background()
	if i.conv == "pipe" {
		fn := func(p redis.Pipeliner) error {
			p.Set(ctx, "p", "1", 0)
			p.Incr(ctx, "p")
			p.RPush(ctx, "l", "pp")
			p.HSet(ctx, "h", "pf", "pv")
			p.Expire(ctx, "p", 44*time.Second)
			return nil
		}
		if u.ctxForm {
			return "", rds.PipelinedCtx(ctx, fn)
		}
		return "", rds.Pipelined(fn)
	}
	if strings.HasPrefix(i.conv, "pipe2") {
		var cmds []red.Cmder
		fn := func(p redis.Pipeliner) error {
			if i.conv == "pipe2b" {
				// the middle command is refused on arrival (wrong number of arguments): in a plain
				// pipeline that is this command's own failure, its neighbours take effect
				cmds = []red.Cmder{p.Set(ctx, "p3", "v", 0), p.Do(ctx, "GET"), p.Incr(ctx, "p")}
				return nil
			}
			cmds = []red.Cmder{p.Get(ctx, "nokey"), p.Incr(ctx, "p"), p.HGet(ctx, "h", "f1"), p.LPop(ctx, "nokey"), p.Set(ctx, "p2", "v", 0), p.Incr(ctx, "h")}
			return nil
		}
		var err error
		if u.ctxForm {
			err = rds.PipelinedCtx(ctx, fn)
		} else {
			err = rds.Pipelined(fn)
		}
		var parts []string
		for _, c := range cmds {
			parts = append(parts, cmdResult(c))
		}
		return strings.Join(parts, " ; ") + fmt.Sprintf(" ; overall=%v", err != nil), nil
	}
	if u.node == nil {
		n, err := redis.CreateBlockingNode(rds)
		if err != nil {
			return "", err
		}
		u.node = n
	}
	key := i.args[0].(string)
	var v string
	var err error
	ok := true
	switch i.m {
	case "BLPop":
		if u.ctxForm {
			v, err = rds.BLPopCtx(ctx, u.node, key)
		} else {
			v, err = rds.BLPop(u.node, key)
		}
	case "BLPopEx":
		if u.ctxForm {
			v, ok, err = rds.BLPopExCtx(ctx, u.node, key)
		} else {
			v, ok, err = rds.BLPopEx(u.node, key)
		}
	case "BLPopWithTimeout":
		if u.ctxForm {
			v, err = rds.BLPopWithTimeoutCtx(ctx, u.node, time.Second, key)
		} else {
			v, err = rds.BLPopWithTimeout(u.node, time.Second, key)
		}
	}
	if err == nil && !ok {
		return strconv.Quote(v) + " | false", nil
	}
	return strconv.Quote(v), err
}

// cmdResult renders one pipelined command's own outcome.
func cmdResult(c red.Cmder) string {
	if err := c.Err(); err != nil {
		if err == red.Nil {
			return "nil"
		}
		return "err:" + err.Error()
	}
	switch x := c.(type) {
	case *red.StringCmd:
		return strconv.Quote(x.Val())
	case *red.IntCmd:
		return strconv.FormatInt(x.Val(), 10)
	case *red.StatusCmd:
		return x.Val()
	}
	return fmt.Sprint(c)
}

// rawResult renders the reply of the same command issued on its own.
func rawResult(reply any, err error) string {
	if err == red.Nil {
		return "nil"
	}
	if err != nil {
		return "err:" + err.Error()
	}
	switch x := reply.(type) {
	case string:
		if x == "OK" {
			return "OK"
		}
		return strconv.Quote(x)
	case int64:
		return strconv.FormatInt(x, 10)
	}
	return fmt.Sprint(reply)
}

// enabled: blocking pops only on a non-empty list.
func enabled(ref *twin, i inv) bool {
	if i.conv != "blpop" {
		return true
	}
	key := i.args[0].(string)
	if ref.s.Type(key) != "list" {
		return false
	}
	l, _ := ref.s.List(key)
	return len(l) > 0
}

type world struct {
	ref  *twin
	suts []*sut
}

var (
	worldsMu sync.Mutex
	worlds   = map[string]*world{}
)

func getWorld(kind string) *world {
	worldsMu.Lock()
	defer worldsMu.Unlock()
	if w, ok := worlds[kind]; ok {
		return w
	}
	w := &world{ref: newTwin()}
	switch {
	case kind == "wrapper":
		a, b := newTwin(), newTwin()
		w.suts = []*sut{
			{name: "redis.Redis (plain methods)", target: redis.New(a.s.Addr()), servers: []*twin{a}},
			{name: "redis.Redis (Ctx methods)", target: redis.New(b.s.Addr()), ctxForm: true, servers: []*twin{b}},
		}
	case kind == "cluster-type":
		a := newTwin()
		w.suts = []*sut{{name: "redis.Redis (cluster type, plain methods)", target: redis.New(a.s.Addr(), redis.WithCluster()), servers: []*twin{a}}}
	case strings.HasPrefix(kind, "kv/"):
		var weights []int
		for _, f := range strings.Split(strings.TrimPrefix(kind, "kv/"), ",") {
			n, _ := strconv.Atoi(f)
			weights = append(weights, n)
		}
		mk := func(ctxForm bool) *sut {
			var conf cache.ClusterConfig
			var servers []*twin
			for _, wgt := range weights {
				t := newTwin()
				servers = append(servers, t)
				conf = append(conf, cache.NodeConfig{Config: redis.Config{Host: t.s.Addr(), Type: redis.NodeType}, Weight: wgt})
			}
			return &sut{name: fmt.Sprintf("kv.Store weights=%v ctx=%v", weights, ctxForm), target: New(conf), ctxForm: ctxForm, servers: servers, kv: true}
		}
		w.suts = []*sut{mk(false), mk(true)}
	}
	worlds[kind] = w
	return w
}

func (w *world) reset() {
	w.ref.reset()
	for _, u := range w.suts {
		for _, t := range u.servers {
			t.reset()
		}
	}
}

func pinBreaker() {
	// the per-address breaker never sheds here: its draw is pinned high
	vrt.SetRandHook(func() (int64, bool) { return vrt.FloatDraw(1 - 1.0/(1<<53)), true })
}

func historySearch(kind, start string, depth int, kvOnly bool) {
	all := alphabet()
	var table []inv
	for _, i := range all {
		if kvOnly {
			name, args, ok := kvAdapt(i)
			if !ok {
				continue
			}
			// only what the Store interface offers (checked against its method set)
			if m, has := reflect.TypeOf((*Store)(nil)).Elem().MethodByName(name); !has || (!m.Type.IsVariadic() && m.Type.NumIn() != len(args)) {
				continue
			}
		}
		table = append(table, i)
	}
	meths := map[string]bool{}
	for _, i := range table {
		meths[i.m] = true
	}
	vrt.AddNote("%s: alphabet of %d invocations of %d methods", kind, len(table), len(meths))
	ops := make([]string, len(table))
	for i := range table {
		ops[i] = strconv.Itoa(i)
	}
	vrt.BFS(vrt.Options{Name: fmt.Sprintf("transparent/%s/start=%s", kind, start), Horizon: 1 << 30, Budget: vrt.FairBudget(1)}, depth, ops, func(r *vrt.Run, hist []string) vrt.Step {
		pinBreaker()
		w := getWorld(kind)
		w.reset()
		if start == "populated" {
			for _, i := range populate() {
				step(r, w.ref, w.suts, i)
			}
			if !kvOnly {
				for _, i := range populateGeo() {
					step(r, w.ref, w.suts, i)
				}
			}
		}
		if start == "populated" && len(hist) == 0 && len(w.suts) > 0 && w.suts[0].kv {
			var per []int
			for _, t := range w.suts[0].servers {
				per = append(per, len(t.s.Keys()))
			}
			vrt.AddNote(fmt.Sprintf("%s: keys per shard after populate = %v", kind, per))
		}
		for _, h := range hist {
			n, _ := strconv.Atoi(h)
			if !enabled(w.ref, table[n]) {
				return vrt.Step{}
			}
			step(r, w.ref, w.suts, table[n])
			if r.Failed() {
				return vrt.Step{Canon: "failed"}
			}
		}
		return vrt.Step{Canon: dump(w.ref.s)}
	})
}

func TestVerifWrapperTransparent(t *testing.T) {
	defer vrt.WriteReport()
	logx.Disable()
	stat.SetReporter(nil)
	depth := 2
	if vrt.Thorough() {
		depth = 3
	}
	if vrt.Shard(0) {
		historySearch("wrapper", "populated", depth, false)
	}
	if vrt.Shard(1) {
		historySearch("wrapper", "empty", depth, false)
	}
	if vrt.Shard(13) {
		historySearch("cluster-type", "populated", depth-1, false)
	}
}

func TestVerifShardedStoreTransparent(t *testing.T) {
	defer vrt.WriteReport()
	logx.Disable()
	stat.SetReporter(nil)
	depth := 2
	if vrt.Thorough() {
		depth = 3
	}
	n := 2
	for _, weights := range []string{"100", "100,100", "100,50,10", "1,1000", "7,7,7,7,7"} {
		for _, start := range []string{"populated", "empty"} {
			if vrt.Shard(n) {
				historySearch("kv/"+weights, start, depth, true)
			}
			n++
		}
	}
}

// The per-address breaker: command failures trip it, redis.Nil and context cancellation
// never do. The breaker's draw is pinned low, so it sheds as soon as its drop ratio is
// positive at all.
func TestVerifBreakerAcceptable(t *testing.T) {
	defer vrt.WriteReport()
	logx.Disable()
	stat.SetReporter(nil)
	if !vrt.Shard(12) {
		return
	}
	c := vrt.NewCases("transparent/breaker-acceptable")
	for _, kind := range []string{"nil", "canceled", "error", "mixed-nil-then-error"} {
		kind := kind
		vrt.RunOnce(vrt.Options{Name: "breaker/" + kind, Horizon: 1 << 30}, func(r *vrt.Run) {
			vrt.SetRandHook(func() (int64, bool) { return 0, true })
			s, err := miniredis.Run()
			if err != nil {
				vrt.InfraError("miniredis: %v", err)
			}
			defer s.Close()
			var mu sync.Mutex
			failing, served := false, 0
			s.Server().SetPreHook(func(p *server.Peer, cmd string, args ...string) bool {
				mu.Lock()
				defer mu.Unlock()
				served++
				if failing {
					p.WriteError("ERR verif injected failure")
					return true
				}
				return false
			})
			rds := redis.New(s.Addr())
			canceled, cancel := context.WithCancel(context.Background())
			cancel()
			shed := 0
			for n := 0; n < 60; n++ {
				var err error
				switch kind {
				case "nil":
					_, err = rds.HGet("nokey", "f")
					if err != redis.Nil {
						c.Violation(kind, "result", fmt.Sprintf("call %d: HGet on an absent key returned %v", n, err))
					}
				case "canceled":
					_, err = rds.GetCtx(canceled, "k")
					if err == nil {
						c.Violation(kind, "result", fmt.Sprintf("call %d with a cancelled context succeeded", n))
					}
				case "error", "mixed-nil-then-error":
					if kind == "error" || n >= 30 {
						mu.Lock()
						failing = true
						mu.Unlock()
						_, err = rds.Get("k")
					} else {
						_, err = rds.HGet("nokey", "f")
					}
				}
				if err == breaker.ErrServiceUnavailable {
					shed++
				}
			}
			mu.Lock()
			failing = false
			mu.Unlock()
			before := served
			_, err = rds.Get("k")
			c.Eval("breaker/"+kind, func() any {
				return map[string]any{"kind": kind, "calls": 60, "shed_by_breaker": shed, "probe_after": fmt.Sprint(err)}
			})
			switch kind {
			case "nil", "canceled":
				if shed != 0 || err != nil || served != before+1 {
					c.Violation(kind, "tripped", fmt.Sprintf("after 60 %s outcomes the breaker shed %d calls; probe call: err=%v reached server=%v", kind, shed, err, served == before+1))
				}
			default:
				if shed == 0 {
					c.Violation(kind, "not tripped", "60 failing commands and the breaker never rejected a call")
				}
			}
		})
	}
	c.Done()
	perMethodBreaker()
}

// Every command method, one by one, on a fresh wrapper (own breaker) with the breaker's
// draw pinned low: a run of redis.Nil answers or of cancelled contexts must never make
// the breaker shed, a run of failing commands must.
func perMethodBreaker() {
	c := vrt.NewCases("transparent/breaker-per-method")
	vrt.RunOnce(vrt.Options{Name: "breaker/per-method"}, func(r *vrt.Run) {
		vrt.SetRandHook(func() (int64, bool) { return 0, true })
		t := newTwin()
		defer t.s.Close()
		var mu sync.Mutex
		failing := false
		t.s.Server().SetPreHook(func(p *server.Peer, cmd string, args ...string) bool {
			mu.Lock()
			defer mu.Unlock()
			if failing {
				p.WriteError("ERR verif injected failure")
				return true
			}
			return false
		})
		setFailing := func(b bool) { mu.Lock(); failing = b; mu.Unlock() }
		canceled, cancel := context.WithCancel(context.Background())
		cancel()
		const runs = 12
		for _, i := range alphabet() {
			if i.conv == "blpop" {
				continue // documented: blocking pops bypass the breaker
			}
			if len(i.raw) == 1 && i.raw[0] == "none" {
				continue // size 0: answered without contacting the server
			}
			if strings.HasPrefix(i.conv, "pipe2") {
				continue // the plain pipeline stands for pipelines here
			}
			for _, kind := range []string{"nil", "canceled", "error"} {
				t.reset()
				for _, p := range append(populate(), populateGeo()...) {
					t.raw.Do(context.Background(), p.raw...)
				}
				if kind == "nil" {
					if len(i.raw) == 0 || i.conv == "pipe" || i.raw[0] == "none" {
						continue
					}
					if _, err := t.raw.Do(context.Background(), i.raw...).Result(); err != red.Nil {
						continue
					}
					if z := zeroFor(i.conv); z != "" {
						continue // the wrapper swallows the Nil itself
					}
				}
				if kind == "error" && i.m == "Ping" {
					continue // Ping reports failure as false and, by design, never counts it
				}
				rds := redis.New(t.s.Addr())
				u := &sut{name: "redis.Redis", target: rds, servers: []*twin{t}, ctxForm: kind == "canceled"}
				shed, other := 0, 0
				setFailing(kind == "error")
				for n := 0; n < runs; n++ {
					var err error
					switch {
					case i.conv == "pipe":
						if kind == "canceled" {
							err = rds.PipelinedCtx(canceled, func(p redis.Pipeliner) error { p.Incr(canceled, "p"); return nil })
						} else {
							_, err = special(u, i)
						}
					case kind == "canceled":
						m := reflect.ValueOf(rds).MethodByName(i.m + "Ctx")
						res, ok := callMethodCtx(m, canceled, i.args)
						if !ok {
							c.Violation(i.String(), "harness", "no Ctx form")
							continue
						}
						_, err = canonResult(i.conv, res)
					default:
						res, ok := callMethod(rds, i.m, false, i.args)
						if !ok {
							c.Violation(i.String(), "harness", "no plain form")
							continue
						}
						_, err = canonResult(i.conv, res)
					}
					if err == breaker.ErrServiceUnavailable {
						shed++
					} else if err != nil {
						other++
					}
				}
				setFailing(false)
				_, probeErr := rds.Exists("s")
				c.Eval(fmt.Sprintf("%s/%s", i.m, kind), func() any {
					return map[string]any{"invocation": i.String(), "kind": kind, "runs": runs, "shed_by_breaker": shed, "probe": fmt.Sprint(probeErr)}
				})
				switch kind {
				case "nil", "canceled":
					if i.m == "Ping" {
						other = runs
					}
					if shed != 0 || probeErr != nil {
						c.Violation(i.String()+" "+kind, "tripped", fmt.Sprintf("%d consecutive %s outcomes of %s made the breaker shed %d calls (probe afterwards: %v)", runs, kind, i.m, shed, probeErr))
					} else if other == 0 && kind == "canceled" {
						c.Violation(i.String()+" "+kind, "harness", "a cancelled context did not fail the call")
					}
				case "error":
					if shed == 0 {
						c.Violation(i.String()+" "+kind, "not tripped", fmt.Sprintf("%d consecutive failing %s commands and the breaker never rejected a call", runs, i.m))
					}
				}
			}
		}
	})
	c.Done()
}

// The context forms honour their context: with a context that is already cancelled every
// command method of the wrapper and of the sharded store fails with the context's error and
// leaves every keyspace untouched — what go-redis does with the same context.
func TestVerifCancelledContext(t *testing.T) {
	defer vrt.WriteReport()
	logx.Disable()
	stat.SetReporter(nil)
	if !vrt.Shard(14) {
		return
	}
	c := vrt.NewCases("transparent/cancelled-context")
	vrt.RunOnce(vrt.Options{Name: "cancelled-context"}, func(r *vrt.Run) {
		pinBreaker()
		canceled, cancel := context.WithCancel(context.Background())
		cancel()
		for _, kind := range []string{"wrapper", "kv/100,50,10"} {
			w := getWorld(kind)
			for _, i := range alphabet() {
				if i.conv == "blpop" || strings.HasPrefix(i.conv, "pipe") || (len(i.raw) == 1 && i.raw[0] == "none") || i.m == "Ping" {
					continue
				}
				for _, u := range w.suts {
					if !u.ctxForm {
						continue
					}
					name, args := i.m, i.args
					if u.kv {
						var ok bool
						if name, args, ok = kvAdapt(i); !ok {
							continue
						}
					}
					m := reflect.ValueOf(u.target).MethodByName(name + "Ctx")
					if !m.IsValid() {
						continue
					}
					w.reset()
					for _, p := range populate() {
						step(r, w.ref, w.suts, p)
					}
					before := u.dump()
					res, ok := callMethodCtx(m, canceled, args)
					if !ok {
						continue
					}
					_, err := canonResult(i.conv, res)
					after := u.dump()
					in := fmt.Sprintf("%s %v with a cancelled context", u.name, i)
					c.Eval(fmt.Sprintf("%s/%s", kind, i.m), func() any {
						return map[string]any{"call": in, "err": fmt.Sprint(err), "keyspace_changed": before != after}
					})
					if err == nil || !strings.Contains(err.Error(), context.Canceled.Error()) {
						c.Violation(in, "result", fmt.Sprintf("returned error %v, want %v", err, context.Canceled))
					}
					if before != after {
						c.Violation(in, "effect", fmt.Sprintf("the keyspace changed:\n--- before\n%s\n--- after\n%s", before, after))
					}
				}
			}
		}
	})
	c.Done()
}

// Multi-key delete with one shard failing: every named key that lives on a healthy shard is
// removed (and counted), whatever its position in the argument list; the failure is
// reported; nothing on the failing shard is reported as deleted.
func TestVerifShardedDeleteWithFailingShard(t *testing.T) {
	defer vrt.WriteReport()
	logx.Disable()
	stat.SetReporter(nil)
	if !vrt.Shard(15) {
		return
	}
	c := vrt.NewCases("transparent/kv-multi-delete-with-failing-shard")
	vrt.RunOnce(vrt.Options{Name: "kv-del-failing-shard"}, func(r *vrt.Run) {
		pinBreaker()
		for _, kind := range []string{"kv/100,100", "kv/100,50,10", "kv/7,7,7,7,7"} {
			w := getWorld(kind)
			for _, u := range w.suts {
				for failing := range u.servers {
					for _, order := range []string{"sorted", "reversed", "failing-first", "failing-last"} {
						w.reset()
						for _, p := range populate() {
							step(r, w.ref, w.suts, p)
						}
						where := map[string]int{}
						var keys []string
						for si, t := range u.servers {
							for _, k := range t.s.Keys() {
								where[k] = si
								keys = append(keys, k)
							}
						}
						sort.Strings(keys)
						switch order {
						case "reversed":
							for i, j := 0, len(keys)-1; i < j; i, j = i+1, j-1 {
								keys[i], keys[j] = keys[j], keys[i]
							}
						case "failing-first", "failing-last":
							sort.SliceStable(keys, func(i, j int) bool {
								fi, fj := where[keys[i]] == failing, where[keys[j]] == failing
								if order == "failing-first" {
									return fi && !fj
								}
								return !fi && fj
							})
						}
						onFailing := 0
						for _, k := range keys {
							if where[k] == failing {
								onFailing++
							}
						}
						if onFailing == 0 || onFailing == len(keys) {
							continue
						}
						u.servers[failing].s.SetError("ERR verif: shard down")
						var n int
						var err error
						args := make([]reflect.Value, 0, len(keys)+1)
						name := "Del"
						if u.ctxForm {
							name = "DelCtx"
							args = append(args, reflect.ValueOf(context.Background()))
						}
						for _, k := range keys {
							args = append(args, reflect.ValueOf(k))
						}
						out := reflect.ValueOf(u.target).MethodByName(name).Call(args)
						n = int(out[0].Int())
						if !out[1].IsNil() {
							err = out[1].Interface().(error)
						}
						u.servers[failing].s.SetError("")
						var left []string
						for si, t := range u.servers {
							if si == failing {
								continue
							}
							left = append(left, t.s.Keys()...)
						}
						in := fmt.Sprintf("%s failing-shard=%d keys=%v", u.name, failing, keys)
						c.Eval(fmt.Sprintf("%s/ctx=%v/failing=%d/%s", kind, u.ctxForm, failing, order), func() any {
							return map[string]any{"case": in, "deleted_reported": n, "error": fmt.Sprint(err), "left_on_healthy_shards": left}
						})
						if len(left) != 0 {
							c.Violation(in, "keys survive", fmt.Sprintf("keys %v live on healthy shards and were named, but survived the delete (reported %d deleted, error %v)", left, n, err))
						}
						if err == nil {
							c.Violation(in, "error", "one shard failed but no error was reported")
						}
						if want := len(keys) - onFailing; n != want {
							c.Violation(in, "count", fmt.Sprintf("reported %d keys deleted, %d were removed from healthy shards", n, want))
						}
						if got := len(u.servers[failing].s.Keys()); got != onFailing {
							c.Violation(in, "failing shard", fmt.Sprintf("the failing shard holds %d keys afterwards, had %d", got, onFailing))
						}
					}
				}
			}
		}
	})
	c.Done()
}
