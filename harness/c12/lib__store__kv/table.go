package kv

import (
	"context"
	"fmt"
	"reflect"
	"sort"
	"strconv"
	"strings"

	red "github.com/go-redis/redis/v8"
	"github.com/gotid/god/lib/store/redis"
)

// One invocation of the alphabet: a wrapper method with concrete arguments and, as the
// oracle, the raw Redis command it stands for (sent through go-redis's generic Do on the
// twin server) plus the documented conversion of its reply.
type inv struct {
	m     string
	args  []any
	raw   []any
	conv  string
	multi bool // touches more than one key (not part of the sharded store's alphabet)
}

func (i inv) String() string { return fmt.Sprintf("%s%v", i.m, i.args) }

const t0 = 1_700_000_000 // server clock (seconds) pinned on every miniredis

const (
	luaGet  = `return redis.call('GET', KEYS[1])`
	luaEcho = `return {KEYS[1], ARGV[1], 7}`
	luaIncr = `return redis.call('INCRBY', KEYS[1], ARGV[1])`
)

func alphabet() []inv {
	var t []inv
	add := func(m string, conv string, args []any, raw ...any) {
		t = append(t, inv{m: m, args: args, raw: raw, conv: conv})
	}
	addM := func(m string, conv string, args []any, raw ...any) {
		t = append(t, inv{m: m, args: args, raw: raw, conv: conv, multi: true})
	}
	A := func(a ...any) []any { return a }

	// strings / counters
	for _, k := range []string{"s", "nokey", "h"} {
		add("Get", "str0", A(k), "GET", k)
		add("Incr", "int", A(k), "INCR", k)
		add("Decr", "int", A(k), "DECR", k)
	}
	add("Get", "str0", A("t"), "GET", "t")
	add("IncrBy", "int", A("s", int64(5)), "INCRBY", "s", 5)
	add("IncrBy", "int", A("nokey", int64(-3)), "INCRBY", "nokey", -3)
	add("DecrBy", "int", A("s", int64(4)), "DECRBY", "s", 4)
	add("DecrBy", "int", A("nokey", int64(-2)), "DECRBY", "nokey", -2)
	add("Set", "ok", A("s", "v2"), "SET", "s", "v2")
	add("Set", "ok", A("nokey", "7"), "SET", "nokey", "7")
	add("Set", "ok", A("l", ""), "SET", "l", "")
	add("SetEx", "ok", A("s", "v3", 50), "SET", "s", "v3", "EX", 50)
	add("SetEx", "ok", A("nokey", "v3", 7), "SET", "nokey", "v3", "EX", 7)
	add("SetNX", "bool", A("s", "n"), "SETNX", "s", "n")
	add("SetNX", "bool", A("nokey", "n"), "SETNX", "nokey", "n")
	add("SetNXEx", "okbool", A("s", "n", 9), "SET", "s", "n", "EX", 9, "NX")
	add("SetNXEx", "okbool", A("nokey", "n", 9), "SET", "nokey", "n", "EX", 9, "NX")
	add("GetSet", "str0", A("s", "gs"), "GETSET", "s", "gs")
	add("GetSet", "str0", A("nokey", "gs"), "GETSET", "nokey", "gs")
	add("GetSet", "str0", A("h", "gs"), "GETSET", "h", "gs")
	addM("MGet", "strs", A("s", "nokey", "t"), "MGET", "s", "nokey", "t")
	addM("MGet", "strs", A("h"), "MGET", "h")
	addM("Del", "int", A("s", "nokey", "h"), "DEL", "s", "nokey", "h")
	add("Del", "int", A("z"), "DEL", "z")
	add("Del", "int", A("nokey"), "DEL", "nokey")
	for _, k := range []string{"s", "t", "nokey", "z"} {
		add("Exists", "bool", A(k), "EXISTS", k)
		add("TTL", "int", A(k), "TTL", k)
		add("Persist", "bool", A(k), "PERSIST", k)
	}
	add("Expire", "ok", A("s", 30), "EXPIRE", "s", 30)
	add("Expire", "ok", A("nokey", 30), "EXPIRE", "nokey", 30)
	add("Expire", "ok", A("t", 1), "EXPIRE", "t", 1)
	add("ExpireAt", "ok", A("s", int64(t0+77)), "EXPIREAT", "s", t0+77)
	add("ExpireAt", "ok", A("h", int64(t0-1)), "EXPIREAT", "h", t0-1)
	addM("Keys", "set", A("*"), "KEYS", "*")
	addM("Keys", "set", A("s*"), "KEYS", "s*")
	addM("Scan", "scan", A(uint64(0), "*", int64(100)), "SCAN", 0, "MATCH", "*", "COUNT", 100)
	addM("Scan", "scan", A(uint64(0), "z*", int64(100)), "SCAN", 0, "MATCH", "z*", "COUNT", 100)

	// bitmaps
	add("SetBit", "int", A("bm", int64(3), 0), "SETBIT", "bm", 3, 0)
	add("SetBit", "int", A("bm", int64(9), 1), "SETBIT", "bm", 9, 1)
	add("SetBit", "int", A("nokey", int64(1), 1), "SETBIT", "nokey", 1, 1)
	add("GetBit", "int", A("bm", int64(3)), "GETBIT", "bm", 3)
	add("GetBit", "int", A("bm", int64(4)), "GETBIT", "bm", 4)
	add("GetBit", "int", A("nokey", int64(0)), "GETBIT", "nokey", 0)
	add("BitCount", "int", A("bm", int64(0), int64(-1)), "BITCOUNT", "bm", 0, -1)
	add("BitCount", "int", A("bm", int64(1), int64(1)), "BITCOUNT", "bm", 1, 1)
	add("BitCount", "int", A("bm", int64(0), int64(0)), "BITCOUNT", "bm", 0, 0)
	add("BitPos", "int", A("bm", int64(1), int64(0), int64(-1)), "BITPOS", "bm", 1, 0, -1)
	add("BitPos", "int", A("bm", int64(0), int64(0), int64(1)), "BITPOS", "bm", 0, 0, 1)
	add("BitPos", "int", A("bm", int64(1), int64(1), int64(1)), "BITPOS", "bm", 1, 1, 1)
	// an explicit end is not the same command as no end: with an end, a clear bit is not
	// looked for beyond the string (all-ones value => -1), without one it is
	for _, k := range []string{"bmf", "bm", "nokey"} {
		for _, bit := range []int64{0, 1} {
			add("BitPos", "int", A(k, bit, int64(0), int64(-1)), "BITPOS", k, bit, 0, -1)
		}
	}
	add("BitPos", "int", A("bmf", int64(0), int64(1), int64(-1)), "BITPOS", "bmf", 0, 1, -1)
	add("BitPos", "int", A("bmf", int64(0), int64(-1), int64(-1)), "BITPOS", "bmf", 0, -1, -1)
	add("BitPos", "int", A("bmf", int64(0), int64(0), int64(0)), "BITPOS", "bmf", 0, 0, 0)
	add("BitCount", "int", A("bmf", int64(0), int64(-1)), "BITCOUNT", "bmf", 0, -1)
	addM("BitOpAnd", "int", A("bd", "bm", "bm2"), "BITOP", "AND", "bd", "bm", "bm2")
	addM("BitOpOr", "int", A("bd", "bm", "bm2"), "BITOP", "OR", "bd", "bm", "bm2")
	addM("BitOpXor", "int", A("bd", "bm", "bm2"), "BITOP", "XOR", "bd", "bm", "bm2")
	addM("BitOpNot", "int", A("bd", "bm"), "BITOP", "NOT", "bd", "bm")

	// hashes
	for _, k := range []string{"h", "nokey", "s"} {
		add("HGetAll", "map", A(k), "HGETALL", k)
		add("HKeys", "set", A(k), "HKEYS", k)
		add("HVals", "set", A(k), "HVALS", k)
		add("HLen", "int", A(k), "HLEN", k)
		add("HGet", "str", A(k, "f1"), "HGET", k, "f1")
	}
	add("HGet", "str", A("h", "nofield"), "HGET", "h", "nofield")
	add("HExists", "bool", A("h", "f1"), "HEXISTS", "h", "f1")
	add("HExists", "bool", A("h", "nofield"), "HEXISTS", "h", "nofield")
	add("HDel", "bool1", A("h", "f1"), "HDEL", "h", "f1")
	add("HDel", "bool1", A("h", "nofield"), "HDEL", "h", "nofield")
	add("HDel", "bool1", A("h", "f1", "f2"), "HDEL", "h", "f1", "f2")
	add("HIncrBy", "int", A("h", "f1", 4), "HINCRBY", "h", "f1", 4)
	add("HIncrBy", "int", A("h", "f2", 1), "HINCRBY", "h", "f2", 1)
	add("HIncrBy", "int", A("nokey", "n", -6), "HINCRBY", "nokey", "n", -6)
	add("HMGet", "strs", A("h", "f2", "nofield", "f1"), "HMGET", "h", "f2", "nofield", "f1")
	add("HMGet", "strs", A("nokey", "f1"), "HMGET", "nokey", "f1")
	add("HSet", "ok", A("h", "f3", "v3"), "HSET", "h", "f3", "v3")
	add("HSet", "ok", A("h", "f1", "9"), "HSET", "h", "f1", "9")
	add("HSet", "ok", A("s", "f", "v"), "HSET", "s", "f", "v")
	add("HSetNX", "bool", A("h", "f1", "nx"), "HSETNX", "h", "f1", "nx")
	add("HSetNX", "bool", A("h", "f4", "nx"), "HSETNX", "h", "f4", "nx")
	add("HMSet", "ok", A("h", map[string]string{"f5": "v5"}), "HMSET", "h", "f5", "v5")
	add("HMSet", "ok", A("nokey", map[string]string{"a": "1"}), "HMSET", "nokey", "a", "1")
	add("HScan", "scan", A("h", uint64(0), "*", int64(100)), "HSCAN", "h", 0, "MATCH", "*", "COUNT", 100)
	add("HScan", "scan", A("h", uint64(0), "f1*", int64(100)), "HSCAN", "h", 0, "MATCH", "f1*", "COUNT", 100)

	// lists
	for _, k := range []string{"l", "nokey", "s"} {
		add("LLen", "int", A(k), "LLEN", k)
		add("LPop", "str", A(k), "LPOP", k)
		add("RPop", "str", A(k), "RPOP", k)
		add("LRange", "strs", A(k, 0, -1), "LRANGE", k, 0, -1)
	}
	add("LRange", "strs", A("l", 1, 2), "LRANGE", "l", 1, 2)
	add("LRange", "strs", A("l", -2, -1), "LRANGE", "l", -2, -1)
	add("LIndex", "str", A("l", int64(0)), "LINDEX", "l", 0)
	add("LIndex", "str", A("l", int64(-1)), "LINDEX", "l", -1)
	add("LIndex", "str", A("l", int64(9)), "LINDEX", "l", 9)
	add("LPush", "int", A("l", "x", "y"), "LPUSH", "l", "x", "y")
	add("LPush", "int", A("nokey", 5), "LPUSH", "nokey", 5)
	add("RPush", "int", A("l", "x", "y"), "RPUSH", "l", "x", "y")
	add("RPush", "int", A("nokey", "q"), "RPUSH", "nokey", "q")
	add("LRem", "int", A("l", 1, "a"), "LREM", "l", 1, "a")
	add("LRem", "int", A("l", -1, "a"), "LREM", "l", -1, "a")
	add("LRem", "int", A("l", 0, "a"), "LREM", "l", 0, "a")
	add("LTrim", "ok", A("l", int64(1), int64(2)), "LTRIM", "l", 1, 2)
	add("LTrim", "ok", A("l", int64(0), int64(-2)), "LTRIM", "l", 0, -2)
	add("LTrim", "ok", A("l", int64(2), int64(1)), "LTRIM", "l", 2, 1)

	// sets
	for _, k := range []string{"st", "nokey", "s"} {
		add("SCard", "int", A(k), "SCARD", k)
		add("SMembers", "set", A(k), "SMEMBERS", k)
		add("SPop", "str", A(k), "SPOP", k)
	}
	add("SAdd", "int", A("st", "a", "x", "y"), "SADD", "st", "a", "x", "y")
	add("SAdd", "int", A("nokey", 1), "SADD", "nokey", 1)
	add("SRem", "int", A("st", "a", "nomember"), "SREM", "st", "a", "nomember")
	add("SRem", "int", A("st", "a", "b", "c"), "SREM", "st", "a", "b", "c")
	add("SIsMember", "bool", A("st", "a"), "SISMEMBER", "st", "a")
	add("SIsMember", "bool", A("st", "nomember"), "SISMEMBER", "st", "nomember")
	add("SRandMember", "set", A("st", 10), "SRANDMEMBER", "st", 10)
	add("SRandMember", "set", A("st", 2), "SRANDMEMBER", "st", 2)
	add("SRandMember", "set", A("nokey", 1), "SRANDMEMBER", "nokey", 1)
	add("SScan", "scan", A("st", uint64(0), "*", int64(100)), "SSCAN", "st", 0, "MATCH", "*", "COUNT", 100)
	add("SScan", "scan", A("st", uint64(0), "a*", int64(100)), "SSCAN", "st", 0, "MATCH", "a*", "COUNT", 100)
	addM("SUnion", "set", A("st", "st2"), "SUNION", "st", "st2")
	addM("SDiff", "set", A("st", "st2"), "SDIFF", "st", "st2")
	addM("SDiff", "set", A("st2", "st"), "SDIFF", "st2", "st")
	addM("SInter", "set", A("st", "st2"), "SINTER", "st", "st2")
	addM("SUnionStore", "int", A("sd", "st", "st2"), "SUNIONSTORE", "sd", "st", "st2")
	addM("SDiffStore", "int", A("sd", "st", "st2"), "SDIFFSTORE", "sd", "st", "st2")
	addM("SDiffStore", "int", A("sd", "st2", "st"), "SDIFFSTORE", "sd", "st2", "st")
	addM("SInterStore", "int", A("sd", "st", "st2"), "SINTERSTORE", "sd", "st", "st2")

	// hyperloglog
	add("PFAdd", "bool1", A("hl", "a", "b"), "PFADD", "hl", "a", "b")
	add("PFAdd", "bool1", A("hl", "zz"), "PFADD", "hl", "zz")
	add("PFAdd", "bool1", A("nokey", "a"), "PFADD", "nokey", "a")
	add("PFCount", "int", A("hl"), "PFCOUNT", "hl")
	add("PFCount", "int", A("nokey"), "PFCOUNT", "nokey")
	add("PFCount", "int", A("s"), "PFCOUNT", "s")
	addM("PFMerge", "ok", A("hd", "hl", "hl2"), "PFMERGE", "hd", "hl", "hl2")

	// sorted sets
	for _, k := range []string{"z", "nokey", "s"} {
		add("ZCard", "int", A(k), "ZCARD", k)
		add("ZRange", "strs", A(k, int64(0), int64(-1)), "ZRANGE", k, 0, -1)
		add("ZScore", "score", A(k, "b"), "ZSCORE", k, "b")
		add("ZRank", "int", A(k, "b"), "ZRANK", k, "b")
		add("ZRevRank", "int", A(k, "b"), "ZREVRANK", k, "b")
	}
	add("ZScore", "score", A("z", "f"), "ZSCORE", "z", "f")
	add("ZScore", "score", A("z", "nomember"), "ZSCORE", "z", "nomember")
	add("ZRank", "int", A("z", "nomember"), "ZRANK", "z", "nomember")
	add("ZAdd", "bool", A("z", int64(4), "n"), "ZADD", "z", 4, "n")
	add("ZAdd", "bool", A("z", int64(-5), "a"), "ZADD", "z", -5, "a")
	add("ZAdd", "bool", A("nokey", int64(1), "m"), "ZADD", "nokey", 1, "m")
	add("ZAddFloat", "bool", A("z", 2.5, "f"), "ZADD", "z", "2.5", "f")
	add("ZAddFloat", "bool", A("z", -0.5, "b"), "ZADD", "z", "-0.5", "b")
	add("ZAdds", "int", A("z", redis.Pair{Member: "a", Score: 9}, redis.Pair{Member: "p", Score: 3}), "ZADD", "z", 9, "a", 3, "p")
	add("ZAdds", "int", A("nokey", redis.Pair{Member: "p", Score: -1}), "ZADD", "nokey", -1, "p")
	add("ZIncrBy", "score", A("z", int64(3), "a"), "ZINCRBY", "z", 3, "a")
	add("ZIncrBy", "score", A("z", int64(-2), "f"), "ZINCRBY", "z", -2, "f")
	add("ZIncrBy", "score", A("nokey", int64(2), "n"), "ZINCRBY", "nokey", 2, "n")
	add("ZCount", "int", A("z", int64(2), int64(3)), "ZCOUNT", "z", 2, 3)
	add("ZCount", "int", A("z", int64(3), int64(2)), "ZCOUNT", "z", 3, 2)
	add("ZCount", "int", A("z", int64(-100), int64(100)), "ZCOUNT", "z", -100, 100)
	add("ZRem", "int", A("z", "a", "nomember"), "ZREM", "z", "a", "nomember")
	add("ZRem", "int", A("z", "a", "b", "c", "d", "f"), "ZREM", "z", "a", "b", "c", "d", "f")
	add("ZRemRangeByScore", "int", A("z", int64(2), int64(3)), "ZREMRANGEBYSCORE", "z", 2, 3)
	add("ZRemRangeByScore", "int", A("z", int64(3), int64(2)), "ZREMRANGEBYSCORE", "z", 3, 2)
	add("ZRemRangeByRank", "int", A("z", int64(0), int64(1)), "ZREMRANGEBYRANK", "z", 0, 1)
	add("ZRemRangeByRank", "int", A("z", int64(-1), int64(-1)), "ZREMRANGEBYRANK", "z", -1, -1)
	add("ZRange", "strs", A("z", int64(1), int64(2)), "ZRANGE", "z", 1, 2)
	add("ZRange", "strs", A("z", int64(-2), int64(-1)), "ZRANGE", "z", -2, -1)
	add("ZRevRange", "strs", A("z", int64(0), int64(-1)), "ZREVRANGE", "z", 0, -1)
	add("ZRevRange", "strs", A("z", int64(1), int64(2)), "ZREVRANGE", "z", 1, 2)
	add("ZRangeWithScores", "pairs", A("z", int64(0), int64(-1)), "ZRANGE", "z", 0, -1, "WITHSCORES")
	add("ZRangeWithScores", "pairs", A("z", int64(1), int64(2)), "ZRANGE", "z", 1, 2, "WITHSCORES")
	add("ZRevRangeWithScores", "pairs", A("z", int64(0), int64(-1)), "ZREVRANGE", "z", 0, -1, "WITHSCORES")
	add("ZRevRangeWithScores", "pairs", A("z", int64(0), int64(1)), "ZREVRANGE", "z", 0, 1, "WITHSCORES")
	add("ZRangeByScoreWithScores", "pairs", A("z", int64(2), int64(10)), "ZRANGEBYSCORE", "z", 2, 10, "WITHSCORES")
	add("ZRangeByScoreWithScores", "pairs", A("z", int64(10), int64(2)), "ZRANGEBYSCORE", "z", 10, 2, "WITHSCORES")
	add("ZRevRangeByScoreWithScores", "pairs", A("z", int64(2), int64(10)), "ZREVRANGEBYSCORE", "z", 10, 2, "WITHSCORES")
	add("ZRevRangeByScoreWithScores", "pairs", A("z", int64(10), int64(2)), "ZREVRANGEBYSCORE", "z", 2, 10, "WITHSCORES")
	add("ZRangeByScoreWithScoresAndLimit", "pairs", A("z", int64(1), int64(10), 0, 2), "ZRANGEBYSCORE", "z", 1, 10, "WITHSCORES", "LIMIT", 0, 2)
	add("ZRangeByScoreWithScoresAndLimit", "pairs", A("z", int64(1), int64(10), 1, 2), "ZRANGEBYSCORE", "z", 1, 10, "WITHSCORES", "LIMIT", 2, 2)
	add("ZRangeByScoreWithScoresAndLimit", "pairs", A("z", int64(1), int64(10), 1, 3), "ZRANGEBYSCORE", "z", 1, 10, "WITHSCORES", "LIMIT", 3, 3)
	add("ZRangeByScoreWithScoresAndLimit", "pairs", A("z", int64(1), int64(10), 1, 0), "none")
	add("ZRevRangeByScoreWithScoresAndLimit", "pairs", A("z", int64(1), int64(10), 0, 2), "ZREVRANGEBYSCORE", "z", 10, 1, "WITHSCORES", "LIMIT", 0, 2)
	add("ZRevRangeByScoreWithScoresAndLimit", "pairs", A("z", int64(1), int64(10), 1, 2), "ZREVRANGEBYSCORE", "z", 10, 1, "WITHSCORES", "LIMIT", 2, 2)
	add("ZRevRangeByScoreWithScoresAndLimit", "pairs", A("z", int64(1), int64(10), 2, 0), "none")
	addM("ZUnionStore", "int", A("zd", &redis.ZStore{Keys: []string{"z", "z2"}, Weights: []float64{1, 2}, Aggregate: "SUM"}),
		"ZUNIONSTORE", "zd", 2, "z", "z2", "WEIGHTS", 1, 2, "AGGREGATE", "SUM")
	addM("ZUnionStore", "int", A("zd", &redis.ZStore{Keys: []string{"z", "z2"}, Aggregate: "MAX"}),
		"ZUNIONSTORE", "zd", 2, "z", "z2", "AGGREGATE", "MAX")

	// scripts
	add("Eval", "any", A(luaGet, []string{"s"}), "EVAL", luaGet, 1, "s")
	add("Eval", "any", A(luaGet, []string{"nokey"}), "EVAL", luaGet, 1, "nokey")
	add("Eval", "any", A(luaEcho, []string{"k"}, "argv1"), "EVAL", luaEcho, 1, "k", "argv1")
	add("Eval", "any", A(luaIncr, []string{"s"}, 12), "EVAL", luaIncr, 1, "s", 12)
	addM("ScriptLoad", "str", A(luaGet), "SCRIPT", "LOAD", luaGet)
	addM("EvalSha", "any", A(sha1hex(luaGet), []string{"s"}), "EVALSHA", sha1hex(luaGet), 1, "s")
	addM("EvalSha", "any", A(sha1hex(luaIncr), []string{"s"}, 2), "EVALSHA", sha1hex(luaIncr), 1, "s", 2)

	// geo (miniredis has no GEOHASH: GeoHash is not exercised)
	addM("GeoAdd", "int", A("geo", &redis.GeoLocation{Name: "rome", Longitude: 12.5, Latitude: 41.9}), "GEOADD", "geo", "12.5", "41.9", "rome")
	addM("GeoDist", "float", A("geo", "paris", "berlin", "km"), "GEODIST", "geo", "paris", "berlin", "km")
	addM("GeoDist", "float", A("geo", "paris", "nowhere", "m"), "GEODIST", "geo", "paris", "nowhere", "m")
	addM("GeoPos", "geopos", A("geo", "paris", "nowhere"), "GEOPOS", "geo", "paris", "nowhere")
	addM("GeoRadius", "geonames", A("geo", 2.3, 48.8, &redis.GeoRadiusQuery{Radius: 1000, Unit: "km", Sort: "ASC"}), "GEORADIUS", "geo", "2.3", "48.8", 1000, "km", "ASC")
	addM("GeoRadiusByMember", "geonames", A("geo", "berlin", &redis.GeoRadiusQuery{Radius: 900, Unit: "km", Sort: "DESC"}), "GEORADIUSBYMEMBER", "geo", "berlin", 900, "km", "DESC")

	addM("Ping", "ping", A(), "PING")

	// a pipeline: equivalent to its commands issued one after the other
	addM("Pipelined", "pipe", A(),
		[]any{"SET", "p", "1"}, []any{"INCR", "p"}, []any{"RPUSH", "l", "pp"}, []any{"HSET", "h", "pf", "pv"}, []any{"EXPIRE", "p", 44})
	// a pipeline in which some commands answer nil / fail while others succeed: every
	// command keeps its own result
	addM("Pipelined", "pipe2", A(),
		[]any{"GET", "nokey"}, []any{"INCR", "p"}, []any{"HGET", "h", "f1"}, []any{"LPOP", "nokey"}, []any{"SET", "p2", "v"}, []any{"INCR", "h"})
	addM("Pipelined", "pipe2b", A(),
		[]any{"SET", "p3", "v"}, []any{"GET"}, []any{"INCR", "p"})
	// blocking pops through a blocking node (enabled only while the list is non-empty:
	// an empty list would block for real seconds)
	addM("BLPop", "blpop", A("l"), "LPOP", "l")
	addM("BLPopEx", "blpop", A("l"), "LPOP", "l")
	addM("BLPopWithTimeout", "blpop", A("l"), "LPOP", "l")
	return t
}

// populate is the history that builds the non-empty start state (applied through the
// system under test and through raw commands alike, and compared like any other step).
func populate() []inv {
	var t []inv
	add := func(m string, conv string, args []any, raw ...any) {
		t = append(t, inv{m: m, args: args, raw: raw, conv: conv})
	}
	A := func(a ...any) []any { return a }
	add("Set", "ok", A("s", "10"), "SET", "s", "10")
	add("SetEx", "ok", A("t", "abc", 100), "SET", "t", "abc", "EX", 100)
	add("HMSet", "ok", A("h", map[string]string{"f1": "1", "f2": "x"}), "HMSET", "h", "f1", "1", "f2", "x")
	add("RPush", "int", A("l", "a", "b", "a", "c"), "RPUSH", "l", "a", "b", "a", "c")
	add("SAdd", "int", A("st", "a", "b", "c"), "SADD", "st", "a", "b", "c")
	add("SAdd", "int", A("st2", "b", "c", "d"), "SADD", "st2", "b", "c", "d")
	add("ZAdds", "int", A("z", redis.Pair{Member: "a", Score: 1}, redis.Pair{Member: "b", Score: 2}, redis.Pair{Member: "c", Score: 3}, redis.Pair{Member: "d", Score: 10}),
		"ZADD", "z", 1, "a", 2, "b", 3, "c", 10, "d")
	add("ZAdds", "int", A("z2", redis.Pair{Member: "b", Score: 5}, redis.Pair{Member: "e", Score: 7}), "ZADD", "z2", 5, "b", 7, "e")
	add("PFAdd", "bool1", A("hl", "a", "b", "c"), "PFADD", "hl", "a", "b", "c")
	add("PFAdd", "bool1", A("hl2", "c", "d"), "PFADD", "hl2", "c", "d")
	add("Set", "ok", A("bm", "\xf0\x0f"), "SET", "bm", "\xf0\x0f")
	add("Set", "ok", A("bm2", "\x3c"), "SET", "bm2", "\x3c")
	add("Set", "ok", A("bmf", "\xff\xff"), "SET", "bmf", "\xff\xff")
	return t
}

func populateGeo() []inv {
	return []inv{
		{m: "GeoAdd", conv: "int", multi: true, args: []any{"geo", &redis.GeoLocation{Name: "paris", Longitude: 2.35, Latitude: 48.85}, &redis.GeoLocation{Name: "berlin", Longitude: 13.4, Latitude: 52.5}},
			raw: []any{"GEOADD", "geo", "2.35", "48.85", "paris", "13.4", "52.5", "berlin"}},
	}
}

// ---- calling the system under test through reflection ----

func callMethod(target any, name string, ctxForm bool, args []any) (results []reflect.Value, ok bool) {
	if ctxForm {
		name += "Ctx"
	}
	m := reflect.ValueOf(target).MethodByName(name)
	if !m.IsValid() {
		return nil, false
	}
	mt := m.Type()
	var in []reflect.Value
	if ctxForm {
		in = append(in, reflect.ValueOf(context.Background()))
	}
	for _, a := range args {
		pi := len(in) // position among params
		var pt reflect.Type
		if mt.IsVariadic() && pi >= mt.NumIn()-1 {
			pt = mt.In(mt.NumIn() - 1).Elem()
		} else if pi < mt.NumIn() {
			pt = mt.In(pi)
		} else {
			return nil, false
		}
		v := reflect.ValueOf(a)
		if pt.Kind() != reflect.Interface {
			if !v.Type().AssignableTo(pt) {
				if v.Type().ConvertibleTo(pt) && v.Kind() != reflect.String {
					v = v.Convert(pt)
				} else {
					return nil, false
				}
			}
		}
		in = append(in, v)
	}
	if !mt.IsVariadic() && len(in) != mt.NumIn() {
		return nil, false
	}
	if mt.IsVariadic() && len(in) < mt.NumIn()-1 {
		return nil, false
	}
	return m.Call(in), true
}

// callMethodCtx calls an already resolved Ctx method with the given context.
func callMethodCtx(m reflect.Value, ctx context.Context, args []any) ([]reflect.Value, bool) {
	if !m.IsValid() {
		return nil, false
	}
	mt := m.Type()
	in := []reflect.Value{reflect.ValueOf(ctx)}
	for _, a := range args {
		pi := len(in)
		var pt reflect.Type
		if mt.IsVariadic() && pi >= mt.NumIn()-1 {
			pt = mt.In(mt.NumIn() - 1).Elem()
		} else if pi < mt.NumIn() {
			pt = mt.In(pi)
		} else {
			return nil, false
		}
		v := reflect.ValueOf(a)
		if pt.Kind() != reflect.Interface && !v.Type().AssignableTo(pt) {
			if v.Type().ConvertibleTo(pt) && v.Kind() != reflect.String {
				v = v.Convert(pt)
			} else {
				return nil, false
			}
		}
		in = append(in, v)
	}
	return m.Call(in), true
}

// canonResult renders the non-error results of a wrapper call.
func canonResult(conv string, res []reflect.Value) (string, error) {
	var err error
	var parts []string
	for _, v := range res {
		if v.Type().Implements(reflect.TypeOf((*error)(nil)).Elem()) {
			if !v.IsNil() {
				err = v.Interface().(error)
			}
			continue
		}
		parts = append(parts, canonValue(conv, v.Interface()))
	}
	return strings.Join(parts, " | "), err
}

func canonValue(conv string, x any) string {
	switch v := x.(type) {
	case nil:
		return "<nil>"
	case string:
		return strconv.Quote(v)
	case bool:
		return strconv.FormatBool(v)
	case int:
		return strconv.Itoa(v)
	case int64:
		return strconv.FormatInt(v, 10)
	case uint64:
		return strconv.FormatUint(v, 10)
	case float64:
		return strconv.FormatFloat(v, 'f', 2, 64)
	case []string:
		q := make([]string, len(v))
		for i, s := range v {
			q[i] = strconv.Quote(s)
		}
		if conv == "set" || conv == "scan" {
			sort.Strings(q)
		}
		return "[" + strings.Join(q, ",") + "]"
	case map[string]string:
		var q []string
		for k, s := range v {
			q = append(q, strconv.Quote(k)+":"+strconv.Quote(s))
		}
		sort.Strings(q)
		return "{" + strings.Join(q, ",") + "}"
	case []redis.Pair:
		q := make([]string, len(v))
		for i, p := range v {
			q[i] = fmt.Sprintf("%q=%d", p.Member, p.Score)
		}
		return "[" + strings.Join(q, ",") + "]"
	case []any:
		q := make([]string, len(v))
		for i, e := range v {
			q[i] = canonValue(conv, e)
		}
		return "[" + strings.Join(q, ",") + "]"
	case []*redis.GeoPos:
		q := make([]string, len(v))
		for i, p := range v {
			if p == nil {
				q[i] = "<nil>"
			} else {
				q[i] = fmt.Sprintf("(%.2f,%.2f)", p.Longitude, p.Latitude)
			}
		}
		return "[" + strings.Join(q, ",") + "]"
	case []redis.GeoLocation:
		q := make([]string, len(v))
		for i, p := range v {
			q[i] = strconv.Quote(p.Name)
		}
		return "[" + strings.Join(q, ",") + "]"
	}
	return fmt.Sprintf("?%T:%v", x, x)
}

// expected renders the raw reply after the documented conversion. nilReply reports a
// null reply (redis.Nil).
func expected(conv string, reply any, err error) (canon string, nilReply bool, rerr error) {
	if err == red.Nil {
		switch conv {
		case "okbool":
			return "false", false, nil
		case "float":
			return "", true, nil
		}
		return "", true, nil
	}
	if err != nil {
		return "", false, err
	}
	toStr := func(x any) string {
		switch v := x.(type) {
		case nil:
			return ""
		case string:
			return v
		case int64:
			return strconv.FormatInt(v, 10)
		}
		return fmt.Sprint(x)
	}
	list := func(x any) []string {
		arr, _ := x.([]any)
		out := make([]string, len(arr))
		for i, e := range arr {
			out[i] = toStr(e)
		}
		return out
	}
	switch conv {
	case "ok":
		return "", false, nil
	case "int":
		return strconv.FormatInt(reply.(int64), 10), false, nil
	case "bool":
		return strconv.FormatBool(reply.(int64) == 1), false, nil
	case "bool1":
		return strconv.FormatBool(reply.(int64) >= 1), false, nil
	case "okbool":
		return strconv.FormatBool(toStr(reply) == "OK"), false, nil
	case "ping":
		return strconv.FormatBool(toStr(reply) == "PONG"), false, nil
	case "str", "str0", "blpop":
		return strconv.Quote(toStr(reply)), false, nil
	case "strs", "set":
		return canonValue(conv, list(reply)), false, nil
	case "map":
		l := list(reply)
		m := map[string]string{}
		for i := 0; i+1 < len(l); i += 2 {
			m[l[i]] = l[i+1]
		}
		return canonValue(conv, m), false, nil
	case "pairs":
		l := list(reply)
		ps := []redis.Pair{}
		for i := 0; i+1 < len(l); i += 2 {
			f, _ := strconv.ParseFloat(l[i+1], 64)
			ps = append(ps, redis.Pair{Member: l[i], Score: int64(f)})
		}
		return canonValue(conv, ps), false, nil
	case "score":
		f, _ := strconv.ParseFloat(toStr(reply), 64)
		return strconv.FormatInt(int64(f), 10), false, nil
	case "float":
		f, _ := strconv.ParseFloat(toStr(reply), 64)
		return strconv.FormatFloat(f, 'f', 2, 64), false, nil
	case "scan":
		arr := reply.([]any)
		cur, _ := strconv.ParseUint(toStr(arr[0]), 10, 64)
		return canonValue(conv, list(arr[1])) + " | " + strconv.FormatUint(cur, 10), false, nil
	case "any":
		return canonValue(conv, reply), false, nil
	case "geopos":
		arr, _ := reply.([]any)
		q := make([]string, len(arr))
		for i, e := range arr {
			if e == nil {
				q[i] = "<nil>"
				continue
			}
			p := list(e)
			lo, _ := strconv.ParseFloat(p[0], 64)
			la, _ := strconv.ParseFloat(p[1], 64)
			q[i] = fmt.Sprintf("(%.2f,%.2f)", lo, la)
		}
		return "[" + strings.Join(q, ",") + "]", false, nil
	case "geonames":
		l := list(reply)
		q := make([]string, len(l))
		for i, s := range l {
			q[i] = strconv.Quote(s)
		}
		return "[" + strings.Join(q, ",") + "]", false, nil
	}
	return "", false, fmt.Errorf("unknown conversion %q", conv)
}

// zero value rendering when the wrapper swallows redis.Nil
func zeroFor(conv string) string {
	switch conv {
	case "str0":
		return `""`
	}
	return ""
}
