package stat

import (
	"fmt"
	"testing"
	"time"

	vrt "github.com/gotid/god"
	"github.com/gotid/god/lib/logx"
)

type mWriter struct{ reports []StatReport }

func (w *mWriter) Write(r *StatReport) error {
	vrt.Obs()
	w.reports = append(w.reports, *r)
	return nil
}

// stat.Metrics (a periodical executor with its own container): every task and every drop
// handed to it is reported exactly once, whichever flush carries it — the minute tick, an
// explicit flush, or the flush of a retiring flusher — over every history of tasks, drops,
// ticks, flushes and idle periods.
func TestVerifMetricsExactlyOnce(t *testing.T) {
	defer vrt.WriteReport()
	logx.Disable()
	DisableLog()
	ops := []string{"task", "drop", "tick", "flush", "idle11"}
	depth := 6
	if vrt.Thorough() {
		depth = 8
	}
	if !vrt.Shard(7) {
		return
	}
	vrt.BFS(vrt.Options{Name: "executors/stat-metrics/exactly-once", Horizon: 1 << 30, Budget: vrt.FairBudget(1)}, depth, ops, func(r *vrt.Run, hist []string) vrt.Step {
		w := &mWriter{}
		SetReportWriter(w)
		r.Cleanup(func() { SetReportWriter(nil) })
		m := NewMetrics("verif")
		tasks, drops := 0, 0
		var total time.Duration
		for _, op := range hist {
			switch op {
			case "task":
				tasks++
				d := time.Duration(tasks) * 10 * time.Millisecond
				total += d
				m.Add(Task{Duration: d})
			case "drop":
				drops++
				m.AddDrop()
			case "tick":
				vrt.AdvanceSettle(logInterval)
			case "flush":
				m.executor.Flush()
			case "idle11":
				for i := 0; i < 11; i++ {
					vrt.AdvanceSettle(logInterval)
				}
			}
			vrt.Settle()
		}
		pending := fmt.Sprintf("%d/%d", len(m.container.tasks), m.container.drops)
		reportedBefore := len(w.reports)
		m.executor.Flush()
		m.executor.Wait()
		vrt.Settle()
		gotTasks, gotDrops := 0, 0
		var gotTotal float64
		for _, rep := range w.reports {
			n := int(rep.ReqsPerSecond*float32(logInterval/time.Second) + 0.5)
			gotTasks += n
			gotDrops += rep.Drops
			gotTotal += float64(rep.Average) * float64(n)
		}
		if gotTasks != tasks || gotDrops != drops {
			r.Failf("%d tasks and %d drops were added; the reports account for %d tasks and %d drops (%d reports: %+v)", tasks, drops, gotTasks, gotDrops, len(w.reports), w.reports)
		}
		if want := float64(total / time.Millisecond); tasks > 0 && (gotTotal < want-0.01*float64(tasks)-1 || gotTotal > want+0.01*float64(tasks)+1) {
			r.Failf("reported durations add up to %.1f ms, the tasks took %.1f ms", gotTotal, want)
		}
		return vrt.Step{Canon: fmt.Sprintf("pending=%s|reports=%d|guarded=%v|t=%v", pending, reportedBefore, m.executor != nil, vrt.Elapsed()%logInterval)}
	})
}
