package sqlx

import (
	"database/sql"
	"fmt"
	"regexp"
	"strconv"
	"strings"
	"testing"

	vrt "github.com/gotid/god"
	"github.com/gotid/god/lib/logx"
)

// The SQL bulk inserter is a periodical executor whose size threshold is maxBulkRows rows:
// the row that completes a batch flushes it (no tick, no Flush needed), no statement carries
// more rows than that, and after Flush every row has been sent exactly once, in order.

type bulkConn struct {
	Conn
	stmts []string
}

func (c *bulkConn) Exec(q string, args ...any) (sql.Result, error) {
	vrt.Obs()
	c.stmts = append(c.stmts, q)
	return nil, nil
}

var bulkRow = regexp.MustCompile(`\((\d+)\)`)

func bulkRows(stmt string) []int {
	var out []int
	i := strings.Index(strings.ToLower(stmt), "values")
	for _, m := range bulkRow.FindAllStringSubmatch(stmt[i:], -1) {
		n, _ := strconv.Atoi(m[1])
		out = append(out, n)
	}
	return out
}

func TestVerifBulkInserterThreshold(t *testing.T) {
	defer vrt.WriteReport()
	logx.Disable()
	if !vrt.Shard(11) {
		return
	}
	c := vrt.NewCases("executors/sql-bulk-inserter/size-threshold")
	vrt.RunOnce(vrt.Options{Name: "sql-bulk-inserter", Horizon: 1 << 30}, func(r *vrt.Run) {
		for _, n := range []int{1, maxBulkRows - 1, maxBulkRows, maxBulkRows + 1, 2 * maxBulkRows, 2*maxBulkRows + 5} {
			conn := &bulkConn{}
			bi, err := NewBulkInserter(conn, "insert into t(a) values(?)")
			if err != nil {
				r.Failf("NewBulkInserter: %v", err)
				return
			}
			for i := 0; i < n; i++ {
				if err := bi.Insert(i); err != nil {
					r.Failf("Insert: %v", err)
					return
				}
			}
			vrt.Settle() // no tick has fired: only the size threshold can have flushed
			input := fmt.Sprintf("rows=%d", n)
			early := len(conn.stmts)
			if want := n / maxBulkRows; early != want {
				c.Violation(input, "size threshold", fmt.Sprintf("%d rows inserted, no tick, no Flush: %d statements executed, want %d (one per %d rows)", n, early, want, maxBulkRows))
			}
			bi.Flush()
			vrt.Settle()
			var all []int
			for i, st := range conn.stmts {
				rows := bulkRows(st)
				if len(rows) > maxBulkRows || len(rows) == 0 {
					c.Violation(input, "batch size", fmt.Sprintf("statement %d carries %d rows (threshold %d)", i, len(rows), maxBulkRows))
				}
				all = append(all, rows...)
			}
			ok := len(all) == n
			for i := 0; ok && i < n; i++ {
				ok = all[i] == i
			}
			if !ok {
				c.Violation(input, "exactly once in order", fmt.Sprintf("%d rows inserted, %d rows sent in %d statements (first rows %v)", n, len(all), len(conn.stmts), all[:bulkMin(len(all), 5)]))
			}
			c.Eval(fmt.Sprintf("rows=%d/early=%d/total=%d", n, early, len(conn.stmts)), func() any {
				return map[string]any{"rows": n, "statements_before_flush": early, "statements": len(conn.stmts)}
			})
		}
	})
	c.Done()
}

func bulkMin(a, b int) int {
	if a < b {
		return a
	}
	return b
}
