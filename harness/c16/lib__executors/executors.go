package executors

import (
	"fmt"
	"os"
	"sort"
	"strings"
	"sync"
	"testing"
	"time"

	vrt "github.com/gotid/god"
	"github.com/gotid/god/lib/logx"
)

const exInterval = 100 * time.Millisecond

type exBatch struct {
	tasks      []string
	start, end int
	bytes      int
}

// exObs is the shared observation log (every update is noted for HB pruning).
type exObs struct {
	seq      int
	batches  []*exBatch
	addStart map[string]int
	addEnd   map[string]int
	size     map[string]int
}

func newExObs() *exObs {
	return &exObs{addStart: map[string]int{}, addEnd: map[string]int{}, size: map[string]int{}}
}

func (o *exObs) tick() int { vrt.Obs(); o.seq++; return o.seq }

func (o *exObs) execute(slow bool) Execute {
	return func(tasks []any) {
		b := &exBatch{start: o.tick()}
		for _, t := range tasks {
			b.tasks = append(b.tasks, t.(string))
			b.bytes += o.size[t.(string)]
		}
		o.batches = append(o.batches, b)
		if slow {
			vrt.Yield()
		}
		b.end = o.tick()
	}
}

// checkAll is the end-of-run oracle common to every scenario.
func (o *exObs) checkAll(r *vrt.Run, added []string, maxTasks, maxBytes int) {
	count := map[string]int{}
	for _, b := range o.batches {
		if len(b.tasks) == 0 {
			r.Failf("execute called with an empty batch")
		}
		if maxTasks > 0 && len(b.tasks) > maxTasks {
			r.Failf("bulk batch %v exceeds the configured %d tasks", b.tasks, maxTasks)
		}
		if maxBytes > 0 {
			last := o.size[b.tasks[len(b.tasks)-1]]
			if b.bytes-last >= maxBytes {
				r.Failf("chunk batch %v has %d bytes: exceeds the limit %d by at least its last task (%d)", b.tasks, b.bytes, maxBytes, last)
			}
		}
		for i, t := range b.tasks {
			count[t]++
			for _, u := range b.tasks[i+1:] {
				// u is after t in the batch: it must not have been completely added before t's Add began
				if o.addEnd[u] != 0 && o.addEnd[u] < o.addStart[t] {
					r.Failf("batch %v: %s precedes %s although Add(%s) returned before Add(%s) started", b.tasks, t, u, u, t)
				}
			}
		}
	}
	for _, t := range added {
		if count[t] != 1 {
			r.Failf("task %s executed %d times (batches %v)", t, count[t], o.batchList())
		}
	}
	if len(count) != len(added) {
		r.Failf("executed %d distinct tasks, added %d", len(count), len(added))
	}
}

func (o *exObs) batchList() string {
	var out []string
	for _, b := range o.batches {
		out = append(out, strings.Join(b.tasks, "+"))
	}
	return strings.Join(out, " | ")
}

func (o *exObs) add(name string, f func()) {
	o.addStart[name] = o.tick()
	f()
	o.addEnd[name] = o.tick()
}

type exScenario struct {
	name string
	run  func(r *vrt.Run)
}

func exScenarios() []exScenario {
	var out []exScenario
	// bulk executor: concurrent adders + one tick
	for _, cfg := range []struct{ max, adders, per, ticks int }{{2, 2, 2, 1}, {3, 2, 2, 1}, {2, 1, 3, 2}, {2, 3, 1, 1}, {2, 2, 3, 1}} {
		cfg := cfg
		out = append(out, exScenario{fmt.Sprintf("bulk/max=%d/adders=%d/per=%d/ticks=%d", cfg.max, cfg.adders, cfg.per, cfg.ticks), func(r *vrt.Run) {
			o := newExObs()
			be := NewBulkExecutor(o.execute(false), WithBulkTasks(cfg.max), WithBulkInterval(exInterval))
			var wg sync.WaitGroup
			var added []string
			for a := 0; a < cfg.adders; a++ {
				a := a
				for i := 0; i < cfg.per; i++ {
					added = append(added, fmt.Sprintf("a%d.%d", a, i))
				}
				wg.Add(1)
				go func() {
					defer wg.Done()
					for i := 0; i < cfg.per; i++ {
						n := fmt.Sprintf("a%d.%d", a, i)
						o.add(n, func() { be.Add(n) })
					}
				}()
			}
			wg.Add(1)
			go func() {
				defer wg.Done()
				for i := 0; i < cfg.ticks; i++ {
					vrt.Advance(exInterval)
				}
			}()
			wg.Wait()
			be.Wait()
			r.Outcome("%s", o.batchList())
			o.checkAll(r, added, cfg.max, 0)
		}})
	}
	// explicit Flush racing adders
	out = append(out, exScenario{"bulk/max=3/adder+flush+tick", func(r *vrt.Run) {
		o := newExObs()
		be := NewBulkExecutor(o.execute(false), WithBulkTasks(3), WithBulkInterval(exInterval))
		var wg sync.WaitGroup
		added := []string{"t0", "t1", "t2", "t3"}
		wg.Add(3)
		go func() {
			defer wg.Done()
			for _, n := range added {
				n := n
				o.add(n, func() { be.Add(n) })
			}
		}()
		go func() { defer wg.Done(); be.Flush() }()
		go func() { defer wg.Done(); vrt.Advance(exInterval) }()
		wg.Wait()
		be.Wait()
		r.Outcome("%s", o.batchList())
		o.checkAll(r, added, 3, 0)
	}})
	// chunk executor
	for _, sizes := range [][]int{{1, 3, 5, 1}, {5, 5}, {1, 1, 1, 1, 1}} {
		sizes := sizes
		out = append(out, exScenario{fmt.Sprintf("chunk/limit=4/sizes=%v", sizes), func(r *vrt.Run) {
			o := newExObs()
			ce := NewChunkExecutor(o.execute(false), WithChunkBytes(4), WithFlushInterval(exInterval))
			var wg sync.WaitGroup
			var added []string
			for i, sz := range sizes {
				n := fmt.Sprintf("c%d", i)
				added = append(added, n)
				o.size[n] = sz
			}
			wg.Add(2)
			go func() {
				defer wg.Done()
				for i, sz := range sizes {
					n, sz := fmt.Sprintf("c%d", i), sz
					o.add(n, func() { ce.Add(n, sz) })
				}
			}()
			go func() { defer wg.Done(); vrt.Advance(exInterval) }()
			wg.Wait()
			ce.Wait()
			r.Outcome("%s", o.batchList())
			o.checkAll(r, added, 0, 4)
		}})
	}
	// Wait is a barrier: it returns only after every task added before it has finished executing
	out = append(out, exScenario{"bulk/max=3/wait-barrier", func(r *vrt.Run) {
		o := newExObs()
		be := NewBulkExecutor(o.execute(true), WithBulkTasks(3), WithBulkInterval(exInterval))
		var wg sync.WaitGroup
		added := []string{"w0", "w1", "x0", "x1"}
		waitReturned, waitCalled := 0, 0
		wg.Add(3)
		go func() {
			defer wg.Done()
			o.add("w0", func() { be.Add("w0") })
			o.add("w1", func() { be.Add("w1") })
			waitCalled = o.tick()
			be.Wait()
			waitReturned = o.tick()
		}()
		go func() {
			defer wg.Done()
			o.add("x0", func() { be.Add("x0") })
			o.add("x1", func() { be.Add("x1") })
		}()
		go func() { defer wg.Done(); vrt.Advance(exInterval) }()
		wg.Wait()
		for _, b := range o.batches {
			for _, t := range b.tasks {
				if (t == "w0" || t == "w1") && !(b.end > 0 && b.end < waitReturned) {
					last := b.tasks[len(b.tasks)-1]
					if strings.HasPrefix(last, "x") && (o.addEnd[last] == 0 || o.addEnd[last] > waitCalled) {
						// the batch was cut by the other adder's Add, which had not been confirmed
						// by the flusher when Wait was called: in transit on the commander channel
						r.Failf("Wait returned before a batch still in transit from another adder's Add to the flusher had executed: batch %v (start %d end %d), Wait called %d returned %d", b.tasks, b.start, b.end, waitCalled, waitReturned)
					} else {
						r.Failf("Wait returned at %d before the batch %v containing %s finished (start %d end %d)", waitReturned, b.tasks, t, b.start, b.end)
					}
				}
			}
		}
		be.Wait()
		r.Outcome("%s", o.batchList())
		o.checkAll(r, added, 3, 0)
	}})
	// two adders, each cutting a batch of its own with its Add (bulk size 1) and then waiting:
	// each Wait covers at least the waiter's own task
	out = append(out, exScenario{"bulk/max=1/own-batch-wait", func(r *vrt.Run) {
		o := newExObs()
		be := NewBulkExecutor(o.execute(true), WithBulkTasks(1), WithBulkInterval(exInterval))
		var wg sync.WaitGroup
		returned := map[string]int{}
		wg.Add(2)
		for _, n := range []string{"a0", "b0"} {
			n := n
			go func() {
				defer wg.Done()
				o.add(n, func() { be.Add(n) })
				be.Wait()
				vrt.Obs()
				returned[n] = o.tick()
			}()
		}
		wg.Wait()
		for _, b := range o.batches {
			for _, t := range b.tasks {
				if !(b.end > 0 && b.end < returned[t]) {
					r.Failf("Wait of the adder of %s returned at %d before its own batch %v had executed (start %d end %d): the confirmation of another adder's batch let its Add return", t, returned[t], b.tasks, b.start, b.end)
				}
			}
		}
		be.Wait()
		r.Outcome("%s", o.batchList())
		o.checkAll(r, []string{"a0", "b0"}, 1, 0)
	}})
	// single adder fills a batch (commander path) and then waits
	out = append(out, exScenario{"bulk/max=2/single-adder-wait", func(r *vrt.Run) {
		o := newExObs()
		be := NewBulkExecutor(o.execute(true), WithBulkTasks(2), WithBulkInterval(exInterval))
		o.add("s0", func() { be.Add("s0") })
		o.add("s1", func() { be.Add("s1") })
		be.Wait()
		waitReturned := o.tick()
		for _, b := range o.batches {
			if !(b.end > 0 && b.end < waitReturned) {
				r.Failf("Wait returned at %d before the batch %v finished (start %d end %d)", waitReturned, b.tasks, b.start, b.end)
			}
		}
		r.Outcome("%s", o.batchList())
		o.checkAll(r, []string{"s0", "s1"}, 2, 0)
	}})
	// idle flusher retires and a late Add restarts it
	for _, max := range []int{2, 3} {
		max := max
		out = append(out, exScenario{fmt.Sprintf("bulk/max=%d/idle-quit-then-late-add", max), func(r *vrt.Run) {
			o := newExObs()
			be := NewBulkExecutor(o.execute(false), WithBulkTasks(max), WithBulkInterval(exInterval))
			o.add("e0", func() { be.Add("e0") })
			for i := 0; i < idleRound+1; i++ { // e0 flushed by the first tick; idle ever since
				vrt.AdvanceSettle(exInterval)
			}
			var wg sync.WaitGroup
			wg.Add(2)
			go func() {
				defer wg.Done()
				o.add("late0", func() { be.Add("late0") })
				o.add("late1", func() { be.Add("late1") })
			}()
			go func() {
				defer wg.Done()
				vrt.Advance(exInterval) // the tick on which the flusher decides to quit
				vrt.Advance(exInterval)
			}()
			wg.Wait()
			vrt.Settle()
			// no explicit Flush/Wait here: a restarted flusher must pick the late tasks up on a tick
			for i := 0; i < 3; i++ {
				vrt.AdvanceSettle(exInterval)
			}
			r.Outcome("%s", o.batchList())
			o.checkAll(r, []string{"e0", "late0", "late1"}, max, 0)
		}})
	}
	// two full batches in transit at the same time (bulk size 1: every Add cuts one), while a
	// long stretch of time passes in which the flusher gets to see only a tick or two (a
	// ticker drops ticks nobody receives): the flusher may not retire with a batch still
	// waiting for it - every Add returns and every task is executed once
	out = append(out, exScenario{"bulk/max=1/two-batches-in-transit+idle-stretch", func(r *vrt.Run) {
		o := newExObs()
		be := NewBulkExecutor(o.execute(false), WithBulkTasks(1), WithBulkInterval(exInterval))
		var wg sync.WaitGroup
		wg.Add(3)
		for _, n := range []string{"a0", "b0"} {
			n := n
			go func() {
				defer wg.Done()
				o.add(n, func() { be.Add(n) })
			}()
		}
		go func() {
			defer wg.Done()
			vrt.Advance((idleRound + 1) * exInterval)
			vrt.Advance(exInterval)
			vrt.Advance(exInterval)
		}()
		wg.Wait()
		be.Wait()
		r.Outcome("%s", o.batchList())
		o.checkAll(r, []string{"a0", "b0"}, 1, 0)
	}})
	// plain periodical executor with a recording container (flush when 2 tasks are cached)
	out = append(out, exScenario{"periodical/container-threshold=2", func(r *vrt.Run) {
		o := newExObs()
		c := &exContainer{o: o}
		pe := NewPeriodicalExecutor(exInterval, c)
		var wg sync.WaitGroup
		added := []string{"p0", "p1", "p2"}
		wg.Add(2)
		go func() {
			defer wg.Done()
			for _, n := range added {
				n := n
				o.add(n, func() { pe.Add(n) })
			}
		}()
		go func() { defer wg.Done(); vrt.Advance(exInterval) }()
		wg.Wait()
		pe.Wait()
		r.Outcome("%s", o.batchList())
		o.checkAll(r, added, 0, 0)
	}})
	return out
}

type exContainer struct {
	o     *exObs
	tasks []any
}

func (c *exContainer) AddTask(task any) bool {
	c.tasks = append(c.tasks, task)
	return len(c.tasks) >= 2
}
func (c *exContainer) Execute(tasks any) { c.o.execute(false)(tasks.([]any)) }
func (c *exContainer) RemoveAll() any {
	t := c.tasks
	c.tasks = nil
	return t
}

func TestVerifExecutors(t *testing.T) {
	defer vrt.WriteReport()
	logx.Disable()
	bound := 2
	if vrt.Thorough() {
		bound = 3
	}
	scs := exScenarios()
	sort.SliceStable(scs, func(i, j int) bool { return scs[i].name < scs[j].name })
	for i, sc := range scs {
		if !vrt.Shard(i) {
			continue
		}
		vrt.Explore(vrt.Options{Name: "executors/" + sc.name, Bound: bound, Prune: os.Getenv("VRT_NOPRUNE") == ""}, func(r *vrt.Run) {
			sc.run(r)
			r.AtEnd(func() {
				for _, l := range r.Leaked() {
					if l.ID == 0 {
						r.Failf("driver stuck (deadlock): %v", r.Leaked())
					}
				}
			})
		})
	}
}
