package clientinterceptors

import (
	"context"
	"errors"
	"fmt"
	"testing"

	vrt "github.com/gotid/god"
	"github.com/gotid/god/lib/breaker"
	"github.com/gotid/god/lib/logx"
	"github.com/gotid/god/lib/stat"
	"google.golang.org/grpc"
	"google.golang.org/grpc/codes"
	"google.golang.org/grpc/status"
)

func benignCode(c codes.Code) bool {
	switch c {
	case codes.DeadlineExceeded, codes.Internal, codes.Unavailable, codes.DataLoss, codes.Unimplemented:
		return false
	}
	return true
}

func TestVerifClientBreakerCodes(t *testing.T) {
	defer vrt.WriteReport()
	logx.Disable()
	stat.SetReporter(nil)
	if !vrt.Shard(0) {
		return
	}
	c := vrt.NewCases("rpc-client-breaker/code-classification")
	vrt.RunOnce(vrt.Options{Name: "client-breaker"}, func(r *vrt.Run) {
		vrt.SetRandHook(func() (int64, bool) { return 0, true })
		cc := new(grpc.ClientConn)
		type tc struct {
			name   string
			err    error
			benign bool
		}
		var cases []tc
		for code := codes.OK; code <= codes.Unauthenticated; code++ {
			var err error
			if code != codes.OK {
				err = status.Error(code, "x")
			}
			cases = append(cases, tc{code.String(), err, benignCode(code)})
		}
		cases = append(cases, tc{"plain-error(Unknown)", errors.New("plain"), true}, tc{"context.Canceled", context.Canceled, true})
		for i, k := range cases {
			method := fmt.Sprintf("/svc/m%d", i)
			ran := 0
			probe := false
			invoker := func(ctx context.Context, method string, req, reply interface{}, cc *grpc.ClientConn, opts ...grpc.CallOption) error {
				ran++
				if probe {
					return nil
				}
				return k.err
			}
			for j := 0; j < 8; j++ {
				BreakerInterceptor(context.Background(), method, nil, nil, cc, invoker)
			}
			loaded := ran
			probe = true
			perr := BreakerInterceptor(context.Background(), method, nil, nil, cc, invoker)
			admitted := ran == loaded+1
			c.Eval(fmt.Sprintf("%s/admitted=%v", k.name, admitted), func() any {
				return map[string]any{"code": k.name, "probe_admitted": admitted}
			})
			if admitted != k.benign {
				c.Violation("code="+k.name, "code classification", fmt.Sprintf("8 calls failing with %s, probe admitted=%v want %v", k.name, admitted, k.benign))
			}
			if !admitted && perr != breaker.ErrServiceUnavailable {
				c.Violation("code="+k.name, "rejected error", fmt.Sprintf("rejected probe returned %v", perr))
			}
		}
	})
	c.Done()
}
