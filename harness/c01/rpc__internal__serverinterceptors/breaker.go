package serverinterceptors

import (
	"context"
	"errors"
	"fmt"
	"testing"

	vrt "github.com/gotid/god"
	"github.com/gotid/god/lib/breaker"
	"github.com/gotid/god/lib/logx"
	"github.com/gotid/god/lib/stat"
	"google.golang.org/grpc"
	"google.golang.org/grpc/codes"
	"google.golang.org/grpc/status"
)

func benignCodeS(c codes.Code) bool {
	switch c {
	case codes.DeadlineExceeded, codes.Internal, codes.Unavailable, codes.DataLoss, codes.Unimplemented:
		return false
	}
	return true
}

func TestVerifServerBreakerCodes(t *testing.T) {
	defer vrt.WriteReport()
	logx.Disable()
	stat.SetReporter(nil)
	if !vrt.Shard(0) {
		return
	}
	c := vrt.NewCases("rpc-server-breaker/code-classification")
	vrt.RunOnce(vrt.Options{Name: "server-breaker"}, func(r *vrt.Run) {
		vrt.SetRandHook(func() (int64, bool) { return 0, true })
		type tc struct {
			name   string
			err    error
			benign bool
		}
		var cases []tc
		for code := codes.OK; code <= codes.Unauthenticated; code++ {
			var err error
			if code != codes.OK {
				err = status.Error(code, "x")
			}
			cases = append(cases, tc{code.String(), err, benignCodeS(code)})
		}
		cases = append(cases, tc{"plain-error(Unknown)", errors.New("plain"), true})
		for _, kind := range []string{"unary", "stream"} {
			for i, k := range cases {
				method := fmt.Sprintf("/%s/m%d", kind, i)
				ran := 0
				probe := false
				call := func() error {
					if kind == "unary" {
						_, err := UnaryBreakerInterceptor(context.Background(), nil, &grpc.UnaryServerInfo{FullMethod: method}, func(ctx context.Context, req interface{}) (interface{}, error) {
							ran++
							if probe {
								return nil, nil
							}
							return nil, k.err
						})
						return err
					}
					return StreamBreakerInterceptor(nil, nil, &grpc.StreamServerInfo{FullMethod: method}, func(srv interface{}, stream grpc.ServerStream) error {
						ran++
						if probe {
							return nil
						}
						return k.err
					})
				}
				for j := 0; j < 8; j++ {
					call()
				}
				loaded := ran
				probe = true
				perr := call()
				admitted := ran == loaded+1
				c.Eval(fmt.Sprintf("%s/%s/admitted=%v", kind, k.name, admitted), func() any {
					return map[string]any{"kind": kind, "code": k.name, "probe_admitted": admitted}
				})
				if admitted != k.benign {
					c.Violation(kind+"/code="+k.name, "code classification", fmt.Sprintf("8 %s calls failing with %s, probe admitted=%v want %v", kind, k.name, admitted, k.benign))
				}
				if !admitted && perr != breaker.ErrServiceUnavailable {
					c.Violation(kind+"/code="+k.name, "rejected error", fmt.Sprintf("rejected probe returned %v", perr))
				}
			}
		}
	})
	c.Done()
}
