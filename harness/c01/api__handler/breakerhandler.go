package handler

import (
	"fmt"
	"net/http"
	"net/http/httptest"
	"testing"

	vrt "github.com/gotid/god"
	"github.com/gotid/god/lib/logx"
	"github.com/gotid/god/lib/stat"
)

// For every HTTP status a handler can produce: 8 identical responses through a fresh
// BreakerHandler, then one probe with the drop draw forced to 0 (reject whenever the
// drop ratio is positive): the probe reaches the handler iff the status is < 500.
func TestVerifBreakerHandlerStatuses(t *testing.T) {
	defer vrt.WriteReport()
	logx.Disable()
	stat.SetReporter(nil)
	if !vrt.Shard(0) {
		return
	}
	c := vrt.NewCases("breakerhandler/status-classification")
	vrt.RunOnce(vrt.Options{Name: "breakerhandler"}, func(r *vrt.Run) {
		vrt.SetRandHook(func() (int64, bool) { return 0, true })
		modes := []string{"explicit", "implicit200", "write-only"}
		// what another route served just before (the classification of a route's responses
		// must not depend on any other request the process has handled)
		priors := []string{"none", "500", "503", "200", "write-only", "nothing"}
		for _, prior := range priors {
			for code := 100; code <= 599; code++ {
				for _, mode := range modes {
					if mode != "explicit" && code != 200 {
						continue
					}
					if code < 200 && code != 101 {
						// 1xx informational headers are not final statuses for httptest's recorder; 101 is
						continue
					}
					if prior != "none" {
						other := BreakerHandler(http.MethodGet, fmt.Sprintf("/other%d%s%s", code, mode, prior), stat.NewMetrics("verif"))(http.HandlerFunc(func(w http.ResponseWriter, req *http.Request) {
							switch prior {
							case "500":
								w.WriteHeader(500)
							case "503":
								w.WriteHeader(503)
							case "200":
								w.WriteHeader(200)
							case "write-only":
								w.Write([]byte("y"))
							}
						}))
						other.ServeHTTP(httptest.NewRecorder(), httptest.NewRequest(http.MethodGet, "/", nil))
					}
					ran := 0
					probe := false
					h := BreakerHandler(http.MethodGet, fmt.Sprintf("/p%d%s%s", code, mode, prior), stat.NewMetrics("verif"))(http.HandlerFunc(func(w http.ResponseWriter, req *http.Request) {
						ran++
						if probe {
							return
						}
						switch mode {
						case "explicit":
							w.WriteHeader(code)
						case "write-only":
							w.Write([]byte("x"))
						}
					}))
					for i := 0; i < 8; i++ {
						rec := httptest.NewRecorder()
						h.ServeHTTP(rec, httptest.NewRequest(http.MethodGet, "/", nil))
					}
					loaded := ran
					probe = true
					rec := httptest.NewRecorder()
					h.ServeHTTP(rec, httptest.NewRequest(http.MethodGet, "/", nil))
					admitted := ran == loaded+1
					benign := code < 500
					c.Eval(fmt.Sprintf("prior=%s/%dxx/%s/admitted=%v", prior, code/100, mode, admitted), func() any {
						return map[string]any{"other_route_before": prior, "status": code, "mode": mode, "loaded": loaded, "probe_admitted": admitted, "probe_status": rec.Code}
					})
					if admitted != benign {
						c.Violation(fmt.Sprintf("status=%d mode=%s other-route-before=%s", code, mode, prior), "status classification", fmt.Sprintf("8 responses with status %d (%s), probe admitted=%v, want %v", code, mode, admitted, benign))
					}
					if !admitted && rec.Code != http.StatusServiceUnavailable {
						c.Violation(fmt.Sprintf("status=%d mode=%s other-route-before=%s", code, mode, prior), "rejected status", fmt.Sprintf("rejected probe answered %d, want 503", rec.Code))
					}
					if loaded != 8 && benign {
						c.Violation(fmt.Sprintf("status=%d mode=%s other-route-before=%s", code, mode, prior), "benign rejected", fmt.Sprintf("only %d of 8 benign requests reached the handler", loaded))
					}
				}
			}
		}
	})
	c.Done()
}

// A handler that panics: the panic reaches the caller unchanged and the admitted request is
// recorded as a failure (never as a success, whatever the handler had written before), so a
// route whose handler keeps panicking is cut off like one that keeps answering 5xx.  8
// panicking requests through a fresh BreakerHandler, then one probe with the drop draw
// forced to 0: the probe must be rejected.
func TestVerifBreakerHandlerPanics(t *testing.T) {
	defer vrt.WriteReport()
	logx.Disable()
	stat.SetReporter(nil)
	if !vrt.Shard(1) {
		return
	}
	c := vrt.NewCases("breakerhandler/panicking-handler")
	vrt.RunOnce(vrt.Options{Name: "breakerhandler-panics"}, func(r *vrt.Run) {
		vrt.SetRandHook(func() (int64, bool) { return 0, true })
		values := map[string]any{"string": "boom", "error": fmt.Errorf("boom"), "abort": http.ErrAbortHandler}
		for _, vname := range []string{"string", "error", "abort"} {
			for _, before := range []string{"nothing", "header200", "body", "header404", "header500"} {
				// mixed: how many of the 8 requests panic (the others answer 200)
				for _, npanic := range []int{8, 6} {
					ran, probe, i := 0, false, 0
					nok := 8 - npanic // the non-panicking requests come first
					h := BreakerHandler(http.MethodGet, fmt.Sprintf("/panic-%s-%s-%d", vname, before, npanic), stat.NewMetrics("verif"))(http.HandlerFunc(func(w http.ResponseWriter, req *http.Request) {
						ran++
						if probe || i < nok {
							return
						}
						switch before {
						case "header200":
							w.WriteHeader(200)
						case "body":
							w.Write([]byte("x"))
						case "header404":
							w.WriteHeader(404)
						case "header500":
							w.WriteHeader(500)
						}
						panic(values[vname])
					}))
					input := fmt.Sprintf("panic value=%s after=%s panicking=%d/8", vname, before, npanic)
					// the statement's rule with the draw pinned to 0: rejected iff (total-5) > 1.5*successes
					total, succ := 0, 0
					rejects := func() bool { return float64(total-5) > 1.5*float64(succ) }
					bad := false
					for i = 0; i < 8; i++ {
						var got any
						before := ran
						func() {
							defer func() { got = recover() }()
							h.ServeHTTP(httptest.NewRecorder(), httptest.NewRequest(http.MethodGet, "/", nil))
						}()
						admitted := ran == before+1
						if admitted == rejects() {
							c.Violation(input, "panic outcome", fmt.Sprintf("request %d after %d outcomes (%d successes, every panic a failure): admitted=%v, want %v", i, total, succ, admitted, !rejects()))
							bad = true
							break
						}
						if !admitted {
							continue
						}
						total++
						if i < nok {
							succ++
						} else if got != values[vname] {
							c.Violation(input, "panic not re-raised", fmt.Sprintf("request %d: the caller recovered %v, want the handler's panic value %v", i, got, values[vname]))
							bad = true
							break
						}
					}
					if bad {
						continue
					}
					loaded := ran
					probe = true
					rec := httptest.NewRecorder()
					h.ServeHTTP(rec, httptest.NewRequest(http.MethodGet, "/", nil))
					admitted := ran == loaded+1
					c.Eval(fmt.Sprintf("value=%s/after=%s/panicking=%d/admitted=%v", vname, before, npanic, admitted), func() any {
						return map[string]any{"panic_value": vname, "written_before_panic": before, "panicking_requests": npanic, "loaded": loaded, "probe_admitted": admitted, "probe_status": rec.Code}
					})
					want := rejects()
					if admitted == want {
						c.Violation(input, "panic outcome", fmt.Sprintf("%d recorded outcomes, %d successes (each panic is a failure), probe with draw 0 admitted=%v, want rejected=%v", total, succ, admitted, want))
					}
				}
			}
		}
	})
	c.Done()
}
