package sqlx

import (
	"context"
	"database/sql"
	"errors"
	"fmt"
	"testing"

	"github.com/DATA-DOG/go-sqlmock"
	vrt "github.com/gotid/god"
	"github.com/gotid/god/lib/breaker"
	"github.com/gotid/god/lib/logx"
	"github.com/gotid/god/lib/stat"
)

func TestVerifSqlBreakerErrors(t *testing.T) {
	defer vrt.WriteReport()
	logx.Disable()
	stat.SetReporter(nil)
	if !vrt.Shard(0) {
		return
	}
	c := vrt.NewCases("sqlx-breaker/error-classification")
	custom := errors.New("custom-accepted")
	type tc struct {
		name   string
		err    error
		benign bool
	}
	cases := []tc{
		{"nil", nil, true},
		{"sql.ErrNoRows", sql.ErrNoRows, true},
		{"sql.ErrTxDone", sql.ErrTxDone, true},
		{"context.Canceled", context.Canceled, true},
		{"driver-error", errors.New("bad connection"), false},
		{"sql.ErrConnDone", sql.ErrConnDone, false},
		{"custom-accepted", custom, true},
	}
	vrt.RunOnce(vrt.Options{Name: "sqlx-breaker"}, func(r *vrt.Run) {
		vrt.SetRandHook(func() (int64, bool) { return 0, true })
		for _, path := range []string{"Exec", "QueryRow", "Transact"} {
			for _, k := range cases {
				db, mock, err := sqlmock.New()
				if err != nil {
					r.Failf("sqlmock: %v", err)
					return
				}
				conn := NewConnFromDB(db, func(c *commonConn) {
					c.accept = func(e error) bool { return e == custom }
				})
				do := func(e error) error {
					switch path {
					case "Exec":
						x := mock.ExpectExec("upd")
						if e != nil {
							x.WillReturnError(e)
						} else {
							x.WillReturnResult(sqlmock.NewResult(1, 1))
						}
						_, err := conn.Exec("upd")
						return err
					case "QueryRow":
						x := mock.ExpectQuery("sel")
						if e != nil {
							x.WillReturnError(e)
						} else {
							x.WillReturnRows(sqlmock.NewRows([]string{"v"}).AddRow(1))
						}
						var v int
						return conn.QueryRow(&v, "sel")
					default:
						mock.ExpectBegin()
						if e != nil {
							mock.ExpectRollback()
						} else {
							mock.ExpectCommit()
						}
						return conn.Transact(func(s Session) error { return e })
					}
				}
				for j := 0; j < 8; j++ {
					do(k.err)
				}
				perr := do(nil)
				admitted := perr != breaker.ErrServiceUnavailable
				c.Eval(fmt.Sprintf("%s/%s/admitted=%v", path, k.name, admitted), func() any {
					return map[string]any{"path": path, "error": k.name, "probe_admitted": admitted, "probe_result": fmt.Sprint(perr)}
				})
				if admitted != k.benign {
					c.Violation(path+"/"+k.name, "error classification", fmt.Sprintf("8 %s calls failing with %s, probe admitted=%v (%v) want %v", path, k.name, admitted, perr, k.benign))
				}
				db.Close()
			}
		}
		// transactions: the error the breaker classifies is what Transact returns, i.e. the
		// function's error, a commit error, or a *wrapping* of the roll-back error (never the
		// benign sentinel itself), or the error made from a panic
		type txc struct {
			name        string
			fnErr       error
			panics      bool
			rollbackErr error
			commitErr   error
			benign      bool
		}
		drv := errors.New("bad connection")
		txs := []txc{
			{"fn=driver-error/rollback=ErrTxDone", drv, false, sql.ErrTxDone, nil, false},
			{"fn=deadline/rollback=ErrTxDone", context.DeadlineExceeded, false, sql.ErrTxDone, nil, false},
			{"fn=driver-error/rollback=Canceled", drv, false, context.Canceled, nil, false},
			{"fn=driver-error/rollback=ErrNoRows", drv, false, sql.ErrNoRows, nil, false},
			{"fn=ErrNoRows/rollback=driver-error", sql.ErrNoRows, false, drv, nil, false},
			{"fn=ErrNoRows/rollback=ok", sql.ErrNoRows, false, nil, nil, true},
			{"fn=custom/rollback=driver-error", custom, false, drv, nil, false},
			{"fn=panic/rollback=ok", nil, true, nil, nil, false},
			{"fn=panic/rollback=ErrTxDone", nil, true, sql.ErrTxDone, nil, false},
			{"fn=ok/commit=ErrTxDone", nil, false, nil, sql.ErrTxDone, true},
			{"fn=ok/commit=driver-error", nil, false, nil, drv, false},
		}
		for _, entry := range []string{"Transact", "TransactCtx"} {
			for _, k := range txs {
				db, mock, err := sqlmock.New()
				if err != nil {
					r.Failf("sqlmock: %v", err)
					return
				}
				conn := NewConnFromDB(db, func(c *commonConn) {
					c.accept = func(e error) bool { return e == custom }
				})
				do := func(probe bool) (err error) {
					mock.ExpectBegin()
					switch {
					case probe:
						mock.ExpectCommit()
					case k.panics || k.fnErr != nil:
						x := mock.ExpectRollback()
						if k.rollbackErr != nil {
							x.WillReturnError(k.rollbackErr)
						}
					default:
						x := mock.ExpectCommit()
						if k.commitErr != nil {
							x.WillReturnError(k.commitErr)
						}
					}
					body := func() error {
						if probe {
							return nil
						}
						if k.panics {
							panic("boom")
						}
						return k.fnErr
					}
					if entry == "Transact" {
						return conn.Transact(func(Session) error { return body() })
					}
					return conn.TransactCtx(context.Background(), func(context.Context, Session) error { return body() })
				}
				for j := 0; j < 8; j++ {
					do(false)
				}
				perr := do(true)
				admitted := perr != breaker.ErrServiceUnavailable
				c.Eval(fmt.Sprintf("%s/%s/admitted=%v", entry, k.name, admitted), func() any {
					return map[string]any{"path": entry, "error": k.name, "probe_admitted": admitted, "probe_result": fmt.Sprint(perr)}
				})
				if admitted != k.benign {
					c.Violation(entry+"/"+k.name, "error classification", fmt.Sprintf("8 %s calls with %s, probe admitted=%v (%v) want %v", entry, k.name, admitted, perr, k.benign))
				}
				db.Close()
			}
		}
	})
	c.Done()
}
