package sqlx

import (
	"context"
	"database/sql"
	"errors"
	"fmt"
	"testing"

	"github.com/DATA-DOG/go-sqlmock"
	vrt "github.com/gotid/god"
	"github.com/gotid/god/lib/breaker"
	"github.com/gotid/god/lib/logx"
	"github.com/gotid/god/lib/stat"
)

func TestVerifSqlBreakerErrors(t *testing.T) {
	defer vrt.WriteReport()
	logx.Disable()
	stat.SetReporter(nil)
	if !vrt.Shard(0) {
		return
	}
	c := vrt.NewCases("sqlx-breaker/error-classification")
	custom := errors.New("custom-accepted")
	type tc struct {
		name   string
		err    error
		benign bool
	}
	cases := []tc{
		{"nil", nil, true},
		{"sql.ErrNoRows", sql.ErrNoRows, true},
		{"sql.ErrTxDone", sql.ErrTxDone, true},
		{"context.Canceled", context.Canceled, true},
		{"driver-error", errors.New("bad connection"), false},
		{"sql.ErrConnDone", sql.ErrConnDone, false},
		{"custom-accepted", custom, true},
	}
	vrt.RunOnce(vrt.Options{Name: "sqlx-breaker"}, func(r *vrt.Run) {
		vrt.SetRandHook(func() (int64, bool) { return 0, true })
		for _, path := range []string{"Exec", "QueryRow", "Transact"} {
			for _, k := range cases {
				db, mock, err := sqlmock.New()
				if err != nil {
					r.Failf("sqlmock: %v", err)
					return
				}
				conn := NewConnFromDB(db, func(c *commonConn) {
					c.accept = func(e error) bool { return e == custom }
				})
				do := func(e error) error {
					switch path {
					case "Exec":
						x := mock.ExpectExec("upd")
						if e != nil {
							x.WillReturnError(e)
						} else {
							x.WillReturnResult(sqlmock.NewResult(1, 1))
						}
						_, err := conn.Exec("upd")
						return err
					case "QueryRow":
						x := mock.ExpectQuery("sel")
						if e != nil {
							x.WillReturnError(e)
						} else {
							x.WillReturnRows(sqlmock.NewRows([]string{"v"}).AddRow(1))
						}
						var v int
						return conn.QueryRow(&v, "sel")
					default:
						mock.ExpectBegin()
						if e != nil {
							mock.ExpectRollback()
						} else {
							mock.ExpectCommit()
						}
						return conn.Transact(func(s Session) error { return e })
					}
				}
				for j := 0; j < 8; j++ {
					do(k.err)
				}
				perr := do(nil)
				admitted := perr != breaker.ErrServiceUnavailable
				c.Eval(fmt.Sprintf("%s/%s/admitted=%v", path, k.name, admitted), func() any {
					return map[string]any{"path": path, "error": k.name, "probe_admitted": admitted, "probe_result": fmt.Sprint(perr)}
				})
				if admitted != k.benign {
					c.Violation(path+"/"+k.name, "error classification", fmt.Sprintf("8 %s calls failing with %s, probe admitted=%v (%v) want %v", path, k.name, admitted, perr, k.benign))
				}
				db.Close()
			}
		}
	})
	c.Done()
}
