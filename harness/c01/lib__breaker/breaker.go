package breaker

import (
	"github.com/gotid/god/lib/collection"
	"errors"
	"fmt"
	"math"
	"sort"
	"strings"
	"sync"
	"testing"
	"time"

	vrt "github.com/gotid/god"
	"github.com/gotid/god/lib/logx"
	"github.com/gotid/god/lib/stat"
)

const brBucket = 250 * time.Millisecond

type brOutcome struct {
	at time.Duration
	ok bool
}

// brSys drives one real breaker (plus the named registry) in lock-step with a
// reference list of timestamped outcomes.
type brSys struct {
	r    *vrt.Run
	b    map[string]Breaker
	t0   map[string]time.Duration
	hist map[string][]brOutcome
	nop  map[string]bool
	draw float64
}

var errBoom = errors.New("boom")
var errBenign = errors.New("benign")

func newBrSys(r *vrt.Run) *brSys {
	lock.Lock()
	breakers = make(map[string]Breaker)
	lock.Unlock()
	s := &brSys{r: r, b: map[string]Breaker{}, t0: map[string]time.Duration{}, hist: map[string][]brOutcome{}, nop: map[string]bool{}}
	vrt.SetRandHook(func() (int64, bool) { return vrt.FloatDraw(s.draw), true })
	s.b["direct"] = New()
	s.t0["direct"] = vrt.Elapsed()
	return s
}

func (s *brSys) get(name string) Breaker {
	if name == "direct" {
		return s.b[name]
	}
	if _, ok := s.t0[name]; !ok {
		s.t0[name] = vrt.Elapsed()
	}
	return Get(name)
}

func (s *brSys) window(name string) (acc, total int64) {
	now := vrt.Elapsed()
	t0 := s.t0[name]
	nb := int((now - t0) / brBucket)
	for _, o := range s.hist[name] {
		b := int((o.at - t0) / brBucket)
		if b > nb-buckets && b <= nb {
			total++
			if o.ok {
				acc++
			}
		}
	}
	return
}

func (s *brSys) dropRatio(name string) float64 {
	acc, total := s.window(name)
	return math.Max(0, (float64(total-5)-1.5*float64(acc))/float64(total+1))
}

// call performs one protected call of the given kind through breaker `name`.
func (s *brSys) call(name, kind string) {
	b := s.get(name)
	if s.nop[name] {
		// a disabled breaker must always run the request and record nothing
		ran := false
		b.Do(func() error { ran = true; return errBoom })
		if !ran {
			s.r.Failf("NoBreakerFor(%s): request not run", name)
		}
		return
	}
	drop := s.dropRatio(name)
	wantReject := drop > 0 && s.draw < drop
	ran := 0
	var fbArg error
	fbCalled := false
	var ret error
	var panicked any
	req := func(err error) func() error {
		return func() error { ran++; return err }
	}
	acceptable := func(err error) bool { return err == nil || err == errBenign }
	now := vrt.Elapsed()
	wantOK := false
	switch kind {
	case "ok":
		ret = b.Do(req(nil))
		wantOK = true
	case "fail":
		ret = b.Do(req(errBoom))
	case "acc":
		ret = b.DoWithAcceptable(req(errBenign), acceptable)
		wantOK = true
	case "unacc":
		ret = b.DoWithAcceptable(req(errBoom), acceptable)
	case "nilunacc":
		// the caller's predicate decides, also when the request itself returned no error
		// (e.g. an HTTP client treating a 5xx answer as a failure of the dependency)
		ret = b.DoWithAcceptable(req(nil), func(error) bool { return false })
	case "fbnilunacc":
		ret = b.DoWithFallbackAcceptable(req(nil), func(err error) error { fbCalled = true; fbArg = err; return errors.New("from-fallback") }, func(error) bool { return false })
	case "fbfail":
		ret = b.DoWithFallback(req(errBoom), func(err error) error { fbCalled = true; fbArg = err; return errors.New("from-fallback") })
	case "fbacc":
		ret = b.DoWithFallbackAcceptable(req(errBenign), func(err error) error { fbCalled = true; fbArg = err; return errors.New("from-fallback") }, acceptable)
		wantOK = true
	case "panic":
		func() {
			defer func() { panicked = recover() }()
			ret = b.Do(func() error { ran++; panic("req-panic") })
		}()
	case "panicnil":
		// a panic whose value is nil (re-raising an error variable that happens to be nil):
		// recover() reports nil under the module's go 1.19 semantics, so the panic is told
		// from a normal return by whether Do returned at all
		returned := false
		func() {
			defer func() { recover() }()
			ret = b.Do(func() error { ran++; var e error; panic(e) })
			returned = true
		}()
		if ran > 0 && returned {
			s.r.Failf("%s/panicnil: the protected function panicked (with a nil value) but Do returned normally with %v: the panic was swallowed", name, ret)
		}
	case "allowA", "allowR":
		p, err := b.Allow()
		if err != nil {
			ret = err
		} else {
			ran++
			if kind == "allowA" {
				p.Accept()
				wantOK = true
			} else {
				p.Reject("why")
			}
		}
	}
	rejected := ran == 0
	if rejected != wantReject {
		acc, total := s.window(name)
		s.r.Failf("%s/%s at +%v: rejected=%v but window has total=%d accepts=%d (drop ratio %.4f, draw %.4f) so want rejected=%v", name, kind, now, rejected, total, acc, drop, s.draw, wantReject)
		return
	}
	if rejected {
		if strings.HasPrefix(kind, "fb") {
			if !fbCalled || fbArg != ErrServiceUnavailable {
				s.r.Failf("%s/%s: rejected call: fallback called=%v with %v, want ErrServiceUnavailable", name, kind, fbCalled, fbArg)
			}
			if ret == nil || ret.Error() != "from-fallback" {
				s.r.Failf("%s/%s: rejected call returned %v, want the fallback's result", name, kind, ret)
			}
		} else if ret != ErrServiceUnavailable {
			s.r.Failf("%s/%s: rejected call returned %v, want ErrServiceUnavailable", name, kind, ret)
		}
		if panicked != nil {
			s.r.Failf("%s/%s: rejected call panicked %v", name, kind, panicked)
		}
		return
	}
	if ran != 1 {
		s.r.Failf("%s/%s: admitted call ran the request %d times", name, kind, ran)
	}
	if fbCalled {
		s.r.Failf("%s/%s: fallback called for an admitted call", name, kind)
	}
	if kind == "panic" && panicked != "req-panic" {
		s.r.Failf("%s/panic: panic value %v was not re-raised to the caller", name, panicked)
	}
	s.hist[name] = append(s.hist[name], brOutcome{now, wantOK})
}

func (s *brSys) checkHistory(after string) {
	for name, b := range s.b {
		_ = b
		s.cmpHistory(name, s.b[name], after)
	}
	lock.RLock()
	for name, b := range breakers {
		if !s.nop[name] {
			s.cmpHistoryB(name, b, after)
		}
	}
	lock.RUnlock()
}

func (s *brSys) cmpHistory(name string, b Breaker, after string) { s.cmpHistoryB(name, b, after) }

func (s *brSys) cmpHistoryB(name string, b Breaker, after string) {
	cb, ok := b.(*circuitBreaker)
	if !ok {
		return
	}
	gb := cb.throttle.(loggedThrottle).internalThrottle.(*googleBreaker)
	acc, total := gb.history()
	wacc, wtotal := s.window(name)
	if acc != wacc || total != wtotal {
		s.r.Failf("after %s at +%v: breaker %s records accepts=%d total=%d over the trailing 10s, reference has accepts=%d total=%d", after, vrt.Elapsed(), name, acc, total, wacc, wtotal)
	}
}

func (s *brSys) apply(op string) {
	f := strings.Split(op, ":")
	name := "direct"
	if f[0] == "A" || f[0] == "B" {
		name = f[0]
		f = f[1:]
	}
	switch {
	case f[0] == "nobreaker":
		NoBreakerFor(name)
		s.nop[name] = true
		s.hist[name] = nil
	case f[0] == "draw":
		switch f[1] {
		case "lo":
			s.draw = 0
		case "mid":
			s.draw = 0.5
		case "hi":
			s.draw = 1 - 1.0/(1<<53)
		}
	case strings.HasPrefix(f[0], "t"):
		var ms int
		fmt.Sscanf(f[0], "t%d", &ms)
		vrt.Advance(time.Duration(ms) * time.Millisecond)
	case strings.HasSuffix(f[0], "x6"):
		for i := 0; i < 6; i++ {
			s.call(name, strings.TrimSuffix(f[0], "x6"))
		}
	default:
		s.call(name, f[0])
	}
	s.checkHistory(op)
}

func (s *brSys) canon() string {
	now := vrt.Elapsed()
	var parts []string
	for name, h := range s.hist {
		t0 := s.t0[name]
		nb := int((now - t0) / brBucket)
		agg := map[int][2]int{}
		for _, o := range h {
			b := int((o.at - t0) / brBucket)
			if b > nb-buckets-1 {
				x := agg[nb-b]
				x[1]++
				if o.ok {
					x[0]++
				}
				agg[nb-b] = x
			}
		}
		var ks []int
		for k := range agg {
			ks = append(ks, k)
		}
		sort.Ints(ks)
		var bs []string
		for _, k := range ks {
			bs = append(bs, fmt.Sprintf("%d:%d/%d", k, agg[k][0], agg[k][1]))
		}
		parts = append(parts, fmt.Sprintf("%s[ph%v %s]", name, (now-t0)%brBucket, strings.Join(bs, ",")))
	}
	for name := range s.nop {
		parts = append(parts, name+"=nop")
	}
	for name := range s.t0 {
		parts = append(parts, name+"@")
	}
	// the real rolling windows as the breakers themselves read them
	for name, b := range s.b {
		if cb, ok := b.(*circuitBreaker); ok {
			if lt, ok := cb.throttle.(loggedThrottle); ok {
				if gb, ok := lt.internalThrottle.(*googleBreaker); ok {
					var bs []string
					gb.stat.Reduce(func(b *collection.Bucket) { bs = append(bs, fmt.Sprintf("%g/%d", b.Sum, b.Count)) })
					parts = append(parts, fmt.Sprintf("real:%s%v", name, bs))
				}
			}
		}
	}
	sort.Strings(parts)
	return fmt.Sprintf("draw=%g|%s", s.draw, strings.Join(parts, "|"))
}

func brSetup() {
	logx.Disable()
	stat.SetReporter(nil)
}

func TestVerifBreakerHistories(t *testing.T) {
	defer vrt.WriteReport()
	brSetup()
	ops := []string{"ok", "fail", "failx6", "okx6", "acc", "unacc", "nilunacc", "fbnilunacc", "panic", "panicnil", "fbfail", "fbacc", "allowA", "allowR",
		"draw:lo", "draw:mid", "draw:hi", "t125", "t250", "t2500", "t9750", "t10000", "t10250", "t25000",
		"A:failx6", "A:ok", "B:fail", "B:failx6", "A:nobreaker"}
	depth := 4
	if vrt.Thorough() {
		depth = 6
	}
	rejects := 0
	defer func() { vrt.AddNote("breaker histories: %d explored transitions ended in a rejected call", rejects) }()
	for i, first := range ops {
		if !vrt.Shard(i) {
			continue
		}
		first := first
		vrt.BFS(vrt.Options{Name: "breaker/first=" + first}, depth-1, ops, func(r *vrt.Run, hist []string) vrt.Step {
			s := newBrSys(r)
			s.apply(first)
			for _, op := range hist {
				s.apply(op)
				if r.Failed() {
					return vrt.Step{Canon: "failed"}
				}
			}
			return vrt.Step{Canon: s.canon()}
		})
	}
}

// exact drop ratio for n consecutive failures: (n-5)/(n+1); the probabilistic clause
// of the statement reduces to this formula tending to 1.
func TestVerifBreakerRatio(t *testing.T) {
	defer vrt.WriteReport()
	brSetup()
	if !vrt.Shard(1) {
		return
	}
	c := vrt.NewCases("breaker/drop-ratio-after-n-failures")
	vrt.RunOnce(vrt.Options{Name: "ratio"}, func(r *vrt.Run) {
		for n := 0; n <= 200; n++ {
			for _, mix := range []int{0, 1, 3} { // number of successes mixed in
				s := newBrSys(r)
				for i := 0; i < n; i++ {
					s.draw = 1 - 1.0/(1<<53) // admit everything while loading
					s.call("direct", "fail")
				}
				for i := 0; i < mix; i++ {
					s.call("direct", "ok")
				}
				want := math.Max(0, (float64(n+mix-5)-1.5*float64(mix))/float64(n+mix+1))
				for _, d := range []float64{want - 1e-9, want + 1e-9} {
					if d < 0 || d >= 1 {
						continue
					}
					s.draw = d
					before := len(s.hist["direct"])
					s.call("direct", "ok")
					admitted := len(s.hist["direct"]) > before
					if admitted {
						s.hist["direct"] = s.hist["direct"][:before] // undo in the model ...
					}
					c.Eval(fmt.Sprintf("n=%d mix=%d admitted=%v", n, mix, admitted), func() any {
						return map[string]any{"failures": n, "successes": mix, "draw": d, "drop_ratio": want, "admitted": admitted}
					})
					if admitted {
						// ... and rebuild the real breaker to the same state
						s = newBrSys(r)
						s.draw = 1 - 1.0/(1<<53)
						for i := 0; i < n; i++ {
							s.call("direct", "fail")
						}
						for i := 0; i < mix; i++ {
							s.call("direct", "ok")
						}
					}
				}
				for _, f := range rFails(r) {
					c.Violation(fmt.Sprintf("n=%d mix=%d", n, mix), "drop ratio", f)
				}
				if c.NumViolations() > 0 {
					return
				}
			}
		}
	})
	c.Done()
}

func rFails(r *vrt.Run) []string {
	if r.Failed() {
		return []string{"see log: the exact-ratio probe disagreed with (total-5-1.5*accepts)/(total+1)"}
	}
	return nil
}

// concurrent callers: every admitted call records exactly one outcome
func TestVerifBreakerConcurrent(t *testing.T) {
	defer vrt.WriteReport()
	brSetup()
	bound := 2
	if vrt.Thorough() {
		bound = 3
	}
	kinds := [][]string{{"ok", "fail"}, {"fail", "panic"}, {"ok", "fail", "panic"}, {"allowR", "acc"}}
	for i, ks := range kinds {
		if !vrt.Shard(i + 2) {
			continue
		}
		ks := ks
		vrt.Explore(vrt.Options{Name: fmt.Sprintf("breaker/concurrent/%s", strings.Join(ks, "+")), Bound: bound, Prune: true}, func(r *vrt.Run) {
			b := New()
			var wg sync.WaitGroup
			for _, k := range ks {
				k := k
				wg.Add(1)
				go func() {
					defer wg.Done()
					defer func() { recover() }()
					switch k {
					case "ok":
						b.Do(func() error { return nil })
					case "fail":
						b.Do(func() error { return errBoom })
					case "panic":
						b.Do(func() error { panic("x") })
					case "acc":
						b.DoWithAcceptable(func() error { return errBenign }, func(err error) bool { return true })
					case "allowR":
						if p, err := b.Allow(); err == nil {
							p.Reject("r")
						}
					}
				}()
			}
			wg.Wait()
			gb := b.(*circuitBreaker).throttle.(loggedThrottle).internalThrottle.(*googleBreaker)
			acc, total := gb.history()
			wantAcc := int64(0)
			for _, k := range ks {
				if k == "ok" || k == "acc" {
					wantAcc++
				}
			}
			r.Outcome("acc=%d total=%d", acc, total)
			if total != int64(len(ks)) || acc != wantAcc {
				r.Failf("concurrent calls %v recorded accepts=%d total=%d, want %d/%d", ks, acc, total, wantAcc, len(ks))
			}
		})
	}
}

// The named registry under concurrent first use: every caller of one name ends up on the
// same breaker, which holds exactly one outcome per admitted call.
func TestVerifBreakerRegistryConcurrent(t *testing.T) {
	defer vrt.WriteReport()
	logx.Disable()
	stat.SetReporter(nil)
	bound := 2
	if vrt.Thorough() {
		bound = 3
	}
	for i, ks := range [][]string{{"fail", "fail"}, {"ok", "fail"}, {"fail", "get"}, {"fail", "fail", "ok"}, {"nop", "fail"}} {
		if !vrt.Shard(60 + i) {
			continue
		}
		ks := ks
		vrt.Explore(vrt.Options{Name: fmt.Sprintf("breaker/registry-concurrent/%s", strings.Join(ks, "+")), Bound: bound, Prune: true, Budget: vrt.FairBudget(2)}, func(r *vrt.Run) {
			lock.Lock()
			breakers = make(map[string]Breaker)
			lock.Unlock()
			const name = "fresh-name"
			var wg sync.WaitGroup
			var mu sync.Mutex
			seen := map[Breaker]bool{}
			nop := false
			for _, k := range ks {
				k := k
				wg.Add(1)
				go func() {
					defer wg.Done()
					switch k {
					case "ok":
						Do(name, func() error { return nil })
					case "fail":
						Do(name, func() error { return errBoom })
					case "nop":
						NoBreakerFor(name)
						mu.Lock()
						nop = true
						mu.Unlock()
						return
					}
					b := Get(name)
					mu.Lock()
					seen[b] = true
					mu.Unlock()
				}()
			}
			wg.Wait()
			final := Get(name)
			r.Outcome("instances=%d nop=%v", len(seen), nop)
			if nop {
				return // NoBreakerFor racing with first use: which one wins is not specified
			}
			if len(seen) != 1 || !seen[final] {
				r.Failf("callers of one breaker name saw %d different breaker instances", len(seen))
				return
			}
			gb := final.(*circuitBreaker).throttle.(loggedThrottle).internalThrottle.(*googleBreaker)
			acc, total := gb.history()
			var wantAcc, wantTotal int64
			for _, k := range ks {
				switch k {
				case "ok":
					wantAcc++
					wantTotal++
				case "fail":
					wantTotal++
				}
			}
			if acc != wantAcc || total != wantTotal {
				r.Failf("breaker %q holds accepts=%d total=%d after calls %v, want %d/%d (outcomes recorded elsewhere are lost)", name, acc, total, ks, wantAcc, wantTotal)
			}
		})
	}
}
