package mr

import (
	"context"
	"errors"
	"fmt"
	"os"
	"sort"
	"strings"
	"testing"
	"time"

	vrt "github.com/gotid/god"
)

// scen is one closed MapReduce program; every goroutine interleaving of it is explored.
type scen struct {
	entry   string   // MapReduce, MapReduceVoid, MapReduceChan, ForEach, Finish, FinishVoid
	workers int      // WithWorkers
	mb      []string // per item mapper behaviour: w0 w1 w2 yw1 cerrA cerrB cnil panic
	red     string   // all1 all0 all2 first1 panic cancel
	ctx     string   // bg done timeout
	gen     string   // ok panic
	bound   int
}

func (s scen) name() string {
	return fmt.Sprintf("%s/w=%d/map=%s/red=%s/ctx=%s/gen=%s", s.entry, s.workers, strings.Join(s.mb, ","), s.red, s.ctx, s.gen)
}

var (
	errA = errors.New("errA")
	errB = errors.New("errB")
)

type obs struct {
	mapped     map[int]int // item -> times given to the mapper
	written    []int       // values written by mappers (item*10+k)
	reduced    map[int]int // value -> times seen by the reducer
	active     int
	maxActive  int
	genDone    bool
	redValue   string
	redStarted bool
	seq        int
	sentAt     map[int]int // item -> tick at which the generator's send completed
	redWriteAt int         // tick at which the reducer started its first Write
	cancels    []cancelRec // every cancel call with the ticks of its invocation and return
}

type cancelRec struct {
	what     string // outcome string this cancel stands for
	inv, ret int
}

// doCancel calls cancel(err) and records when the call was made and when it returned.
func (o *obs) doCancel(cancel func(error), err error, what string) {
	inv := o.tick()
	cancel(err)
	ret := o.tick()
	o.cancels = append(o.cancels, cancelRec{what, inv, ret})
}

func (o *obs) tick() int { vrt.Obs(); o.seq++; return o.seq }

func (s scen) countCancels() int {
	n := 0
	for _, b := range s.mb {
		if strings.HasPrefix(b, "c") {
			n++
		}
	}
	if s.red == "cancel" || s.red == "cancel2" || s.red == "read1cancel" {
		n++
	}
	return n
}

func (s scen) has(prefix string) bool {
	for _, b := range s.mb {
		if strings.HasPrefix(b, prefix) {
			return true
		}
	}
	return false
}

func (s scen) run(r *vrt.Run) {
	o := &obs{mapped: map[int]int{}, reduced: map[int]int{}, sentAt: map[int]int{}}
	n := len(s.mb)
	generate := func(source chan<- any) {
		defer func() { vrt.Obs(); o.genDone = true }()
		for i := 0; i < n; i++ {
			if s.gen == "panic" && i == n/2 {
				panic("gen-panic")
			}
			source <- i
			o.sentAt[i] = o.tick()
		}
		if s.gen == "panic" && n == 0 {
			panic("gen-panic")
		}
	}
	mapper := func(item any, w Writer, cancel func(error)) {
		i := item.(int)
		vrt.Obs()
		o.mapped[i]++
		o.active++
		if o.active > o.maxActive {
			o.maxActive = o.active
		}
		defer func() { vrt.Obs(); o.active-- }()
		switch s.mb[i] {
		case "w0":
			vrt.Yield()
		case "w1":
			o.written = append(o.written, i*10)
			w.Write(i * 10)
		case "yw1":
			vrt.Yield()
			vrt.Obs()
			o.written = append(o.written, i*10)
			w.Write(i * 10)
		case "w2":
			o.written = append(o.written, i*10, i*10+1)
			w.Write(i * 10)
			w.Write(i*10 + 1)
		case "cerrA":
			o.doCancel(cancel, errA, "err:errA")
		case "cerrB":
			o.doCancel(cancel, errB, "err:errB")
		case "cerrAB":
			// two cancels one after the other from the same goroutine: the first wins
			o.doCancel(cancel, errA, "err:errA")
			o.doCancel(cancel, errB, "err:errB")
		case "cnil":
			o.doCancel(cancel, nil, "err:"+ErrCancelWithNil.Error())
		case "panic":
			vrt.Yield()
			panic(fmt.Sprintf("map-panic-%d", i))
		}
	}
	reducer := func(pipe <-chan any, w Writer, cancel func(error)) {
		vrt.Obs()
		o.redStarted = true
		switch s.red {
		case "panic":
			panic("red-panic")
		case "cancel":
			o.doCancel(cancel, errB, "err:errB")
			return
		case "cancel2":
			o.doCancel(cancel, errB, "err:errB")
			o.doCancel(cancel, errA, "err:errA")
			return
		case "read1cancel":
			// consume one value, then give up: the rest of the pipe is left unread
			for v := range pipe {
				vrt.Obs()
				o.reduced[v.(int)]++
				break
			}
			o.doCancel(cancel, errB, "err:errB")
			return
		case "first1":
			for v := range pipe {
				vrt.Obs()
				o.reduced[v.(int)]++
				break
			}
			o.redValue = "first"
			o.redWriteAt = o.tick()
			w.Write("first")
			return
		}
		var seen []int
		for v := range pipe {
			vrt.Obs()
			o.reduced[v.(int)]++
			seen = append(seen, v.(int))
		}
		sort.Ints(seen)
		o.redValue = fmt.Sprint(seen)
		o.redWriteAt = o.tick()
		switch s.red {
		case "all1":
			w.Write(o.redValue)
		case "nil1":
			w.Write(nil) // a reducer whose single result is the nil value
		case "all2":
			w.Write(o.redValue)
			w.Write("again")
		}
	}
	var opts []Option
	if s.ctx == "live-first" {
		// options in the other order: the context first, the worker bound after it
		opts = append(opts, WithContext(context.WithValue(context.Background(), "k", "v")))
	}
	opts = append(opts, WithWorkers(s.workers))
	switch s.ctx {
	case "live":
		// a context that is never done, given after the worker bound: each option sets its own
		// member and leaves the other alone
		opts = append(opts, WithContext(context.WithValue(context.Background(), "k", "v")))
	case "done":
		ctx, cancel := context.WithCancel(context.Background())
		cancel()
		opts = append(opts, WithContext(ctx))
	case "timeout":
		ctx, cancel := context.WithTimeout(context.Background(), time.Second)
		defer cancel()
		opts = append(opts, WithContext(ctx))
		go func() { vrt.Advance(time.Second) }()
	}

	outcome := ""
	returned := false
	r.AtEnd(func() {
		if !returned {
			r.Failf("the call never returned (deadlock): threads %v", r.Leaked())
			return
		}
		if leaked := r.Leaked(); len(leaked) > 0 && (o.genDone || s.entry == "MapReduceChan") {
			var sites []string
			for _, l := range leaked {
				sites = append(sites, l.Site+" blocked in "+l.Blocked)
			}
			sort.Strings(sites)
			r.Failf("goroutines left running after the call returned (outcome %s): %v", outcome, sites)
		}
		// at-most-once always; worker bound always
		for i, c := range o.mapped {
			if c > 1 {
				r.Failf("item %d mapped %d times", i, c)
			}
		}
		for v, c := range o.reduced {
			if c > 1 {
				r.Failf("value %d reduced %d times", v, c)
			}
		}
		effWorkers := s.workers
		if effWorkers < 1 {
			effWorkers = 1 // WithWorkers raises anything below one worker to one
		}
		if o.maxActive > effWorkers {
			r.Failf("%d mappers ran at the same time, workers=%d", o.maxActive, s.workers)
		}
		// cancel(err) records the error and only then drains the source: an item whose send
		// completed but which was never mapped (checked now, at quiescence), before the reducer
		// began to write, proves that the error was already recorded when the output was
		// produced - the call must have returned it
		if s.countCancels() > 0 && !s.has("panic") && s.gen == "ok" && s.red != "panic" && (s.ctx == "bg" || strings.HasPrefix(s.ctx, "live")) && strings.HasPrefix(outcome, "val:") && o.redWriteAt > 0 {
			for i, at := range o.sentAt {
				if o.mapped[i] == 0 && at < o.redWriteAt {
					r.Failf("cancel(err) had already taken effect (item %d was drained, never mapped, before the reducer wrote) but the call returned %s instead of the error", i, outcome)
					break
				}
			}
		}
	})
	func() {
		defer func() {
			if e := recover(); e != nil {
				outcome = fmt.Sprintf("panic:%v", e)
			}
			returned = true
		}()
		switch s.entry {
		case "MapReduce":
			v, err := MapReduce(generate, mapper, reducer, opts...)
			outcome = fmtResult(v, err)
		case "MapReduceChan":
			src := make(chan any)
			go func() {
				generate(src)
				close(src)
			}()
			v, err := MapReduceChan(src, mapper, reducer, opts...)
			outcome = fmtResult(v, err)
		case "MapReduceVoid":
			err := MapReduceVoid(generate, mapper, func(pipe <-chan any, cancel func(error)) {
				reducer(pipe, nopWriter{}, cancel)
			}, opts...)
			outcome = fmtResult(nil, err)
			if err == nil {
				outcome = "void-ok"
			}
		case "ForEach":
			ForEach(generate, func(item any) { mapper(item, nopWriter{}, func(error) {}) }, opts...)
			outcome = "foreach-ok"
		case "Finish":
			fns := make([]func() error, n)
			for i := range fns {
				i := i
				fns[i] = func() error {
					vrt.Obs()
					o.mapped[i]++
					switch s.mb[i] {
					case "cerrA":
						return errA
					case "cerrB":
						return errB
					case "panic":
						panic(fmt.Sprintf("map-panic-%d", i))
					}
					vrt.Yield()
					return nil
				}
			}
			o.genDone = true
			if err := Finish(fns...); err != nil {
				outcome = fmtResult(nil, err)
			} else {
				outcome = "finish-ok"
			}
		case "FinishVoid":
			fns := make([]func(), n)
			for i := range fns {
				i := i
				fns[i] = func() {
					vrt.Obs()
					o.mapped[i]++
					if s.mb[i] == "panic" {
						panic(fmt.Sprintf("map-panic-%d", i))
					}
					vrt.Yield()
				}
			}
			o.genDone = true
			FinishVoid(fns...)
			outcome = "finishvoid-ok"
		}
	}()
	r.Outcome("%s", outcome)
	s.check(r, o, outcome)

}

type nopWriter struct{}

func (nopWriter) Write(any) {}

func fmtResult(v any, err error) string {
	if err != nil {
		return "err:" + err.Error()
	}
	return fmt.Sprintf("val:%v", v)
}

// check is the per-execution result oracle.  disturbances: cancel, panic, ctx.
func (s scen) check(r *vrt.Run, o *obs, outcome string) {
	n := len(s.mb)
	nCancel, nPanic := 0, 0
	allowed := map[string]bool{}
	for _, b := range s.mb {
		switch b {
		case "cerrA":
			nCancel++
			allowed["err:errA"] = true
		case "cerrB":
			nCancel++
			allowed["err:errB"] = true
		case "cerrAB":
			nCancel++
			allowed["err:errA"] = true
		case "cnil":
			nCancel++
			allowed["err:"+ErrCancelWithNil.Error()] = true
		case "panic":
			nPanic++
		}
	}
	for i, b := range s.mb {
		if b == "panic" {
			allowed[fmt.Sprintf("panic:map-panic-%d", i)] = true
		}
	}
	if s.gen == "panic" {
		nPanic++
		allowed["panic:gen-panic"] = true
	}
	usesReducer := s.entry == "MapReduce" || s.entry == "MapReduceChan" || s.entry == "MapReduceVoid"
	if usesReducer {
		switch s.red {
		case "panic":
			nPanic++
			allowed["panic:red-panic"] = true
		case "cancel", "cancel2", "read1cancel":
			nCancel++
			allowed["err:errB"] = true
		}
	}
	// first cancel wins: a cancel call that had returned before any other cancel call was
	// made decides the error (if the outcome is a cancel error at all)
	for _, x := range o.cancels {
		first := true
		for _, y := range o.cancels {
			if y != x && y.inv < x.ret {
				first = false
			}
		}
		isCancelOutcome := false
		for _, y := range o.cancels {
			if y.what == outcome {
				isCancelOutcome = true
			}
		}
		if first && isCancelOutcome && outcome != x.what {
			r.Failf("first cancel wins: the cancel standing for %s had returned (tick %d) before any other cancel was called, yet the call returned %s", x.what, x.ret, outcome)
		}
	}
	ctxDist := 0
	if s.ctx != "bg" && !strings.HasPrefix(s.ctx, "live") && usesReducer {
		ctxDist = 1
		allowed["err:"+context.DeadlineExceeded.Error()] = true
	}
	dist := nCancel + nPanic + ctxDist
	clean := func() string {
		switch s.entry {
		case "ForEach":
			return "foreach-ok"
		case "Finish":
			return "finish-ok"
		case "FinishVoid":
			return "finishvoid-ok"
		}
		var vals []int
		for i, b := range s.mb {
			switch b {
			case "w1", "yw1":
				vals = append(vals, i*10)
			case "w2":
				vals = append(vals, i*10, i*10+1)
			}
		}
		sort.Ints(vals)
		if s.entry == "MapReduceVoid" {
			if s.red == "all2" {
				return "void-ok" // nopWriter: writes are not observable
			}
			return "void-ok"
		}
		switch s.red {
		case "all1":
			return "val:" + fmt.Sprint(vals)
		case "all0":
			return "err:" + ErrReduceNoOutput.Error()
		case "nil1":
			return "val:<nil>"
		case "all2":
			return "panic:多次写入聚合器"
		case "first1":
			return "val:first"
		}
		return "?"
	}
	if s.entry == "Finish" {
		// Finish maps errors to cancel
		dist = nCancel + nPanic
	}
	if s.entry == "FinishVoid" || s.entry == "ForEach" {
		dist = nPanic
		for k := range allowed {
			if !strings.HasPrefix(k, "panic:") {
				delete(allowed, k)
			}
		}
	}
	switch {
	case dist == 0:
		want := clean()
		if outcome != want {
			r.Failf("undisturbed call: got %s, want %s", outcome, want)
		}
		if s.red != "first1" || !usesReducer {
			// exactly once
			for i := 0; i < n; i++ {
				if o.mapped[i] != 1 {
					r.Failf("undisturbed call: item %d mapped %d times", i, o.mapped[i])
				}
			}
			if usesReducer {
				for _, v := range o.written {
					if o.reduced[v] != 1 {
						r.Failf("undisturbed call: value %d reached the reducer %d times", v, o.reduced[v])
					}
				}
			}
		}
	case dist >= 1:
		// with a consume-all reducer the undisturbed value cannot win over a disturbance
		// that happens before the reducer can finish (mapper cancel/panic, generator
		// panic, already-done context); otherwise the clean value is a legal outcome too
		strict := true
		if s.red == "first1" || s.ctx == "timeout" {
			strict = false
		}
		if s.red == "panic" || s.red == "cancel" {
			// reducer-originated disturbance races with nothing it depends on: still strict
		}
		if !strict {
			allowed[clean()] = true
		}
		if !allowed[outcome] {
			keys := make([]string, 0, len(allowed))
			for k := range allowed {
				keys = append(keys, k)
			}
			sort.Strings(keys)
			r.Failf("disturbed call (cancel=%d panic=%d ctx=%d): got %s, allowed %v", nCancel, nPanic, ctxDist, outcome, keys)
		}
	}
}

func scenarios() []scen {
	var out []scen
	add := func(s scen) {
		if s.ctx == "" {
			s.ctx = "bg"
		}
		if s.gen == "" {
			s.gen = "ok"
		}
		if s.red == "" {
			s.red = "all1"
		}
		out = append(out, s)
	}
	thorough := vrt.Thorough()
	hi, lo := 2, 1
	if thorough {
		hi, lo = 3, 2
	}
	bnd := func(n int) int {
		// quick: 2 preemptions up to one item, 1 beyond; thorough: 3 / 2
		if n <= 1 {
			return hi
		}
		return lo
	}
	_ = bnd
	// A. undisturbed
	for _, mb := range [][]string{{}, {"w1"}, {"w1", "w1"}, {"w0", "w2"}, {"yw1", "w1", "w0"}, {"w1", "w1", "w1"}} {
		for _, w := range []int{1, 2, len(mb) + 1} {
			if w == 2 && len(mb) < 2 || w == len(mb)+1 && len(mb) == 1 {
				continue
			}
			for _, red := range []string{"all1", "all0", "all2", "first1"} {
				add(scen{entry: "MapReduce", workers: w, mb: mb, red: red, bound: bnd(len(mb))})
			}
		}
	}
	// B. cancel
	for _, mb := range [][]string{{"cerrA"}, {"cnil"}, {"w1", "cerrA"}, {"cerrA", "w1"}, {"cerrA", "cerrB"}, {"w1", "cnil", "w1"}, {"cerrA", "w2", "cerrB"}, {"cerrAB"}, {"cerrAB", "w1"}, {"w1", "cerrAB", "cerrB"}} {
		for _, w := range []int{1, 2} {
			b := hi
			if len(mb) >= 3 {
				b = lo
			}
			add(scen{entry: "MapReduce", workers: w, mb: mb, red: "all1", bound: b})
		}
	}
	add(scen{entry: "MapReduce", workers: 2, mb: []string{"w1", "w1"}, red: "cancel", bound: hi})
	add(scen{entry: "MapReduce", workers: 1, mb: []string{"w1"}, red: "cancel", bound: hi})
	add(scen{entry: "MapReduce", workers: 2, mb: []string{"w1", "w1"}, red: "cancel2", bound: hi})
	// a reducer that gives up early while more values are pending than the collector holds
	add(scen{entry: "MapReduce", workers: 1, mb: []string{"w1", "w1", "w1"}, red: "cancel", bound: lo})
	add(scen{entry: "MapReduce", workers: 1, mb: []string{"w2", "w2"}, red: "cancel", bound: lo})
	add(scen{entry: "MapReduce", workers: 1, mb: []string{"w1", "w1", "w1"}, red: "read1cancel", bound: lo})
	add(scen{entry: "MapReduce", workers: 2, mb: []string{"w2", "w2", "w1"}, red: "read1cancel", bound: lo})
	add(scen{entry: "MapReduceVoid", workers: 1, mb: []string{"w1", "w1", "w1"}, red: "read1cancel", bound: lo})
	add(scen{entry: "MapReduce", workers: 2, mb: []string{"w1", "cerrA"}, red: "cancel2", bound: lo})
	add(scen{entry: "MapReduce", workers: 2, mb: []string{"cerrA", "w1"}, red: "first1", bound: hi})
	add(scen{entry: "MapReduce", workers: 2, mb: []string{"w1", "cerrA", "w1"}, red: "first1", bound: lo})
	add(scen{entry: "MapReduce", workers: 1, mb: []string{"w1", "cerrA", "w1"}, red: "first1", bound: lo})
	add(scen{entry: "MapReduceVoid", workers: 2, mb: []string{"w1", "cerrA", "w1"}, red: "first1", bound: lo})
	// C. panics
	for _, mb := range [][]string{{"panic"}, {"w1", "panic"}, {"panic", "w1"}, {"panic", "panic"}, {"w1", "panic", "w1"}} {
		for _, w := range []int{1, 2} {
			b := hi
			if len(mb) >= 3 {
				b = lo
			}
			add(scen{entry: "MapReduce", workers: w, mb: mb, red: "all1", bound: b})
		}
	}
	for _, cm := range []string{"live", "live-first"} {
		add(scen{entry: "MapReduce", workers: 1, mb: []string{"w1", "w1"}, red: "all1", ctx: cm, bound: lo})
		add(scen{entry: "MapReduce", workers: 2, mb: []string{"w1", "w1", "w1"}, red: "all1", ctx: cm, bound: lo})
		add(scen{entry: "MapReduceVoid", workers: 1, mb: []string{"w1", "w1"}, red: "all0", ctx: cm, bound: lo})
		add(scen{entry: "ForEach", workers: 1, mb: []string{"w0", "w0"}, ctx: cm, bound: lo})
	}
	add(scen{entry: "MapReduce", workers: 2, mb: []string{"w1", "w1"}, red: "panic", bound: hi})
	add(scen{entry: "MapReduce", workers: 1, mb: []string{}, red: "panic", bound: hi})
	add(scen{entry: "MapReduce", workers: 2, mb: []string{"w1", "w1"}, gen: "panic", bound: hi})
	add(scen{entry: "MapReduce", workers: 1, mb: []string{}, gen: "panic", bound: hi})
	// cancel + panic (two disturbances)
	add(scen{entry: "MapReduce", workers: 2, mb: []string{"cerrA", "panic"}, bound: hi})
	add(scen{entry: "MapReduce", workers: 2, mb: []string{"panic", "cerrA"}, bound: hi})
	add(scen{entry: "MapReduce", workers: 2, mb: []string{"w1", "panic"}, red: "first1", bound: hi})
	// D. context
	for _, mb := range [][]string{{}, {"w1"}, {"w1", "w1"}} {
		add(scen{entry: "MapReduce", workers: 2, mb: mb, ctx: "done", bound: hi})
		add(scen{entry: "MapReduce", workers: 2, mb: mb, ctx: "timeout", bound: lo})
	}
	add(scen{entry: "MapReduce", workers: 2, mb: []string{"w1", "w1"}, red: "nil1", bound: lo})
	add(scen{entry: "MapReduce", workers: 1, mb: []string{}, red: "nil1", bound: lo})
	// worker settings below one are raised to one worker: the call still maps everything and returns
	for _, w := range []int{0, -1} {
		add(scen{entry: "MapReduce", workers: w, mb: []string{"w1", "w1"}, bound: lo})
		add(scen{entry: "MapReduce", workers: w, mb: []string{}, bound: lo})
		add(scen{entry: "MapReduceVoid", workers: w, mb: []string{"w1"}, bound: lo})
		add(scen{entry: "MapReduceChan", workers: w, mb: []string{"w1"}, bound: lo})
		add(scen{entry: "ForEach", workers: w, mb: []string{"w0", "w0"}, bound: lo})
	}
	// E. other entry points
	for _, e := range []string{"MapReduceVoid", "MapReduceChan"} {
		add(scen{entry: e, workers: 2, mb: []string{"w1", "w1"}, bound: hi})
		add(scen{entry: e, workers: 1, mb: []string{"w1", "w0"}, red: "all0", bound: hi})
		add(scen{entry: e, workers: 1, mb: []string{"w1"}, red: "nil1", bound: lo})
		add(scen{entry: e, workers: 2, mb: []string{"w1", "cerrA"}, bound: hi})
		add(scen{entry: e, workers: 2, mb: []string{"panic", "w1"}, bound: hi})
		add(scen{entry: e, workers: 2, mb: []string{"w1"}, ctx: "done", bound: hi})
	}
	for _, mb := range [][]string{{}, {"w0"}, {"w0", "w0"}, {"w0", "w0", "w0"}, {"panic"}, {"w0", "panic"}, {"panic", "panic"}} {
		for _, w := range []int{1, 2} {
			b := hi
			if len(mb) >= 3 {
				b = lo
			}
			add(scen{entry: "ForEach", workers: w, mb: mb, bound: b})
		}
	}
	for _, mb := range [][]string{{"w0"}, {"w0", "w0"}, {"w0", "cerrA"}, {"cerrA", "cerrB"}, {"w0", "panic"}, {"w0", "w0", "cerrA"}} {
		b := hi
		if len(mb) >= 3 {
			b = lo
		}
		add(scen{entry: "Finish", workers: len(mb), mb: mb, bound: b})
	}
	for _, mb := range [][]string{{"w0"}, {"w0", "w0"}, {"w0", "panic"}, {"w0", "w0", "w0"}} {
		b := hi
		if len(mb) >= 3 {
			b = lo
		}
		add(scen{entry: "FinishVoid", workers: len(mb), mb: mb, bound: b})
	}
	return out
}

func TestVerifMapReduce(t *testing.T) {
	defer vrt.WriteReport()
	var mine []scen
	for i, s := range scenarios() {
		if vrt.Shard(i) {
			mine = append(mine, s)
		}
	}
	for i, s := range mine {
		s := s
		vrt.Explore(vrt.Options{Name: "mr/" + s.name(), Bound: s.bound, Prune: os.Getenv("VRT_NOPRUNE") == "", Budget: vrt.FairBudget(len(mine) - i)}, s.run)
	}
}
