package mr

import (
	"fmt"
	"testing"

	vrt "github.com/gotid/god"
)

// "A panic in the generator, a mapper or the reducer is re-raised in the calling goroutine":
// a reducer that consumes everything, writes its single value and panics afterwards.  The
// write hands the value to the caller, so in some interleavings the caller has already taken
// it when the panic happens.  Every interleaving within the bound is explored; the call must
// end with the reducer's panic, never with (value, nil).
func TestVerifReducerPanicsAfterWrite(t *testing.T) {
	defer vrt.WriteReport()
	if !vrt.Shard(3) {
		return
	}
	for _, items := range []int{0, 1, 2} {
		items := items
		vrt.Explore(vrt.Options{Name: fmt.Sprintf("mr/reducer-panics-after-write/items=%d", items), Bound: 2, Prune: true, Budget: vrt.FairBudget(1)}, func(r *vrt.Run) {
			var got any
			var err error
			var pan any
			func() {
				defer func() { pan = recover() }()
				got, err = MapReduce(func(source chan<- any) {
					for i := 0; i < items; i++ {
						source <- i
					}
				}, func(item any, w Writer, cancel func(error)) {
					w.Write(item)
				}, func(pipe <-chan any, w Writer, cancel func(error)) {
					n := 0
					for range pipe {
						n++
					}
					w.Write(n)
					panic("reducer-late-panic")
				}, WithWorkers(2))
			}()
			vrt.Settle()
			r.Outcome("val=%v err=%v panic=%v", got, err, pan)
			if pan == nil {
				r.Failf("the reducer panicked after writing its value: the call returned (%v, %v) and the panic was not re-raised in the caller", got, err)
			} else if fmt.Sprint(pan) != "reducer-late-panic" {
				r.Failf("the caller recovered %v, want the reducer's panic value", pan)
			}
		})
	}
}
