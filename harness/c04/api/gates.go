package api

import (
	"crypto/hmac"
	"crypto/rand"
	"crypto/rsa"
	"crypto/sha256"
	"crypto/x509"
	"encoding/base64"
	"encoding/json"
	"encoding/pem"
	"fmt"
	"net/http"
	"net/http/httptest"
	"os"
	"path/filepath"
	"strconv"
	"strings"
	"testing"
	"time"

	"github.com/golang-jwt/jwt/v4"
	vrt "github.com/gotid/god"
	"github.com/gotid/god/api/httpx"
	"github.com/gotid/god/lib/codec"
	"github.com/gotid/god/lib/logx"
	"github.com/gotid/god/lib/stat"
)

type gRouter struct{ h http.Handler }

func (r *gRouter) ServeHTTP(w http.ResponseWriter, req *http.Request) { r.h.ServeHTTP(w, req) }
func (r *gRouter) Handle(method, path string, handler http.Handler) error {
	r.h = handler
	return nil
}
func (r *gRouter) SetNotFoundHandler(handler http.Handler)   {}
func (r *gRouter) SetNotAllowedHandler(handler http.Handler) {}

func gToken(key string, expOff int64) string {
	b64 := base64.RawURLEncoding.EncodeToString
	hdr, _ := json.Marshal(map[string]string{"alg": "HS256", "typ": "JWT"})
	pl, _ := json.Marshal(map[string]any{"exp": vrt.Now().Unix() + expOff, "uid": "u-9"})
	signing := b64(hdr) + "." + b64(pl)
	mac := hmac.New(sha256.New, []byte(key))
	mac.Write([]byte(signing))
	return signing + "." + b64(mac.Sum(nil))
}

// The gates as composed by engine.bindRoute (appendAuthHandler + signatureVerifier) from the
// public route options, for every combination of configuration and credential quality.
func TestVerifComposedGates(t *testing.T) {
	defer vrt.WriteReport()
	logx.Disable()
	stat.SetReporter(nil)
	jwt.TimeFunc = vrt.Now
	if !vrt.Shard(1) {
		return
	}
	dir, err := os.MkdirTemp("", "c04keys")
	if err != nil {
		vrt.InfraError("mkdtemp: %v", err)
	}
	defer os.RemoveAll(dir)
	k, err := rsa.GenerateKey(rand.Reader, 1024)
	if err != nil {
		vrt.InfraError("rsa: %v", err)
	}
	keyFile := filepath.Join(dir, "k.pem")
	os.WriteFile(keyFile, pem.EncodeToMemory(&pem.Block{Type: "RSA PRIVATE KEY", Bytes: x509.MarshalPKCS1PrivateKey(k)}), 0o600)
	pubDer, _ := x509.MarshalPKIXPublicKey(&k.PublicKey)
	enc, err := codec.NewRsaEncryptor(pem.EncodeToMemory(&pem.Block{Type: "PUBLIC KEY", Bytes: pubDer}))
	if err != nil {
		vrt.InfraError("encryptor: %v", err)
	}
	const secret, prev = "current-secret-8", "previous-secret"
	c := vrt.NewCases("auth/composed-gates")
	vrt.RunOnce(vrt.Options{Name: "composed", Horizon: 1 << 30}, func(r *vrt.Run) {
		for _, jwtCfg := range []string{"off", "secret", "transition"} {
			for _, sigCfg := range []string{"off", "strict", "lenient", "strict-nokeys", "lenient-nokeys"} {
				for _, method := range []string{"GET", "POST", "PATCH"} {
					var opts []RouteOption
					switch jwtCfg {
					case "secret":
						opts = append(opts, WithJwt(secret))
					case "transition":
						opts = append(opts, WithJwtTransition(secret, prev))
					}
					keys := []PrivateKeyConfig{{Fingerprint: "fp", KeyFile: keyFile}}
					switch sigCfg {
					case "strict":
						opts = append(opts, WithSignature(SignatureConfig{Strict: true, Expire: 5 * time.Second, PrivateKeys: keys}))
					case "lenient":
						opts = append(opts, WithSignature(SignatureConfig{Strict: false, Expire: 5 * time.Second, PrivateKeys: keys}))
					case "strict-nokeys":
						opts = append(opts, WithSignature(SignatureConfig{Strict: true, Expire: 5 * time.Second}))
					case "lenient-nokeys":
						opts = append(opts, WithSignature(SignatureConfig{Strict: false, Expire: 5 * time.Second}))
					}
					ran, uid := false, any(nil)
					fr := featuredRoutes{routes: []Route{{Method: method, Path: "/g", Handler: func(w http.ResponseWriter, req *http.Request) {
						ran = true
						uid = req.Context().Value("uid")
					}}}}
					for _, o := range opts {
						o(&fr)
					}
					ng := newEngine(Config{Timeout: 0, MaxConns: 100})
					ng.addRoutes(fr)
					rt := &gRouter{}
					err := ng.bindRoutes(rt)
					if sigCfg == "strict-nokeys" {
						if err != ErrSignatureConfig {
							c.Violation(fmt.Sprintf("jwt=%s sig=%s", jwtCfg, sigCfg), "config", fmt.Sprintf("strict signature without keys must be refused at bind time, got %v", err))
						}
						c.Eval("config/strict-nokeys/"+jwtCfg, func() any { return map[string]any{"bind_error": fmt.Sprint(err)} })
						continue
					}
					if err != nil {
						c.Violation(fmt.Sprintf("jwt=%s sig=%s", jwtCfg, sigCfg), "config", fmt.Sprintf("bindRoutes: %v", err))
						continue
					}
					for _, tokQ := range []string{"none", "current", "previous", "foreign", "expired"} {
						for _, sigQ := range []string{"none", "good", "tampered-body", "stale"} {
							ran, uid = false, nil
							body := "hello"
							if method == "GET" {
								body = ""
							}
							req := httptest.NewRequest(method, "/g?x=1", strings.NewReader(body))
							switch tokQ {
							case "current":
								req.Header.Set("Authorization", "Bearer "+gToken(secret, 30))
							case "previous":
								req.Header.Set("Authorization", "Bearer "+gToken(prev, 30))
							case "foreign":
								req.Header.Set("Authorization", "Bearer "+gToken("someone-else", 30))
							case "expired":
								req.Header.Set("Authorization", "Bearer "+gToken(secret, -30))
							}
							if sigQ != "none" {
								ts := vrt.Now().Unix()
								if sigQ == "stale" {
									ts -= 6
								}
								signedBody := body
								if sigQ == "tampered-body" {
									signedBody += "!"
								}
								key := []byte("0123456789abcdef")
								content := strings.Join([]string{strconv.FormatInt(ts, 10), method, "/g", "x=1", fmt.Sprintf("%x", sha256.Sum256([]byte(signedBody)))}, "\n")
								blob, _ := enc.Encrypt([]byte(fmt.Sprintf("key=%s; time=%d; type=0", base64.StdEncoding.EncodeToString(key), ts)))
								req.Header.Set(httpx.ContentSecurity, fmt.Sprintf("fingerprint=fp; secret=%s; signature=%s", base64.StdEncoding.EncodeToString(blob), codec.HmacBase64(key, content)))
							}
							rec := httptest.NewRecorder()
							rt.ServeHTTP(rec, req)
							jwtOK := jwtCfg == "off" || tokQ == "current" || (jwtCfg == "transition" && tokQ == "previous")
							sigOK := sigCfg != "strict" || method == "PATCH" || sigQ == "good"
							want, wantCode := jwtOK && sigOK, 200
							if !jwtOK {
								wantCode = 401
							} else if !sigOK {
								wantCode = 403
							}
							in := fmt.Sprintf("jwt=%s signature=%s method=%s token=%s signed=%s", jwtCfg, sigCfg, method, tokQ, sigQ)
							c.Eval(fmt.Sprintf("%s/%s/%s/jwtok=%v/sigok=%v", jwtCfg, sigCfg, method, jwtOK, sigOK), func() any {
								return map[string]any{"config": in, "handler_ran": ran, "status": rec.Code}
							})
							if ran != want || rec.Code != wantCode {
								c.Violation(in, "admit/deny", fmt.Sprintf("handler ran=%v status=%d, want ran=%v status=%d", ran, rec.Code, want, wantCode))
							} else if ran && jwtCfg != "off" && uid != "u-9" {
								c.Violation(in, "claims", fmt.Sprintf("uid claim in context = %v", uid))
							}
						}
					}
				}
			}
		}
	})
	c.Done()
}

type gMux struct{ h map[string]http.Handler }

func (r *gMux) ServeHTTP(w http.ResponseWriter, req *http.Request) { r.h[req.URL.Path].ServeHTTP(w, req) }
func (r *gMux) Handle(method, path string, handler http.Handler) error {
	r.h[path] = handler
	return nil
}
func (r *gMux) SetNotFoundHandler(handler http.Handler)   {}
func (r *gMux) SetNotAllowedHandler(handler http.Handler) {}

// Two route groups on one engine, each with its own signature keys (same or different
// fingerprint labels) and its own jwt secret: a route admits exactly the credentials
// configured for its own group.
func TestVerifComposedGatesTwoGroups(t *testing.T) {
	defer vrt.WriteReport()
	logx.Disable()
	stat.SetReporter(nil)
	jwt.TimeFunc = vrt.Now
	if !vrt.Shard(2) {
		return
	}
	dir, err := os.MkdirTemp("", "c04keys2")
	if err != nil {
		vrt.InfraError("mkdtemp: %v", err)
	}
	defer os.RemoveAll(dir)
	type kp struct {
		file string
		enc  codec.RsaEncryptor
	}
	mk := func(name string) kp {
		k, err := rsa.GenerateKey(rand.Reader, 1024)
		if err != nil {
			vrt.InfraError("rsa: %v", err)
		}
		f := filepath.Join(dir, name+".pem")
		os.WriteFile(f, pem.EncodeToMemory(&pem.Block{Type: "RSA PRIVATE KEY", Bytes: x509.MarshalPKCS1PrivateKey(k)}), 0o600)
		pubDer, _ := x509.MarshalPKIXPublicKey(&k.PublicKey)
		enc, err := codec.NewRsaEncryptor(pem.EncodeToMemory(&pem.Block{Type: "PUBLIC KEY", Bytes: pubDer}))
		if err != nil {
			vrt.InfraError("encryptor: %v", err)
		}
		return kp{f, enc}
	}
	keyA, keyB := mk("a"), mk("b")
	c := vrt.NewCases("auth/composed-gates-two-groups")
	vrt.RunOnce(vrt.Options{Name: "two-groups"}, func(r *vrt.Run) {
		for _, labels := range [][2]string{{"fpA", "fpB"}, {"fp", "fp"}} {
			for _, order := range []string{"A-first", "B-first"} {
				ran := map[string]int{}
				group := func(path, fp string, k kp, secret string) featuredRoutes {
					fr := featuredRoutes{routes: []Route{{Method: "POST", Path: path, Handler: func(w http.ResponseWriter, req *http.Request) { ran[path]++ }}}}
					WithSignature(SignatureConfig{Strict: true, Expire: 5 * time.Second, PrivateKeys: []PrivateKeyConfig{{Fingerprint: fp, KeyFile: k.file}}})(&fr)
					WithJwt(secret)(&fr)
					return fr
				}
				ga := group("/ga", labels[0], keyA, "secret-of-group-a")
				gb := group("/gb", labels[1], keyB, "secret-of-group-b")
				ng := newEngine(Config{Timeout: 0, MaxConns: 100})
				if order == "A-first" {
					ng.addRoutes(ga)
					ng.addRoutes(gb)
				} else {
					ng.addRoutes(gb)
					ng.addRoutes(ga)
				}
				rt := &gMux{h: map[string]http.Handler{}}
				if err := ng.bindRoutes(rt); err != nil {
					c.Violation(fmt.Sprint(labels, order), "config", fmt.Sprintf("bindRoutes: %v", err))
					continue
				}
				for _, path := range []string{"/ga", "/gb"} {
					for _, sigKey := range []string{"A", "B"} {
						for _, tok := range []string{"A", "B"} {
							own := map[string]string{"/ga": "A", "/gb": "B"}[path]
							k, fp := keyA, labels[0]
							if sigKey == "B" {
								k, fp = keyB, labels[1]
							}
							secret := map[string]string{"A": "secret-of-group-a", "B": "secret-of-group-b"}[tok]
							body := "hello"
							ts := vrt.Now().Unix()
							key := []byte("0123456789abcdef")
							content := strings.Join([]string{strconv.FormatInt(ts, 10), "POST", path, "", fmt.Sprintf("%x", sha256.Sum256([]byte(body)))}, "\n")
							blob, _ := k.enc.Encrypt([]byte(fmt.Sprintf("key=%s; time=%d; type=0", base64.StdEncoding.EncodeToString(key), ts)))
							req := httptest.NewRequest("POST", path, strings.NewReader(body))
							req.Header.Set("Authorization", "Bearer "+gToken(secret, 30))
							req.Header.Set(httpx.ContentSecurity, fmt.Sprintf("fingerprint=%s; secret=%s; signature=%s", fp, base64.StdEncoding.EncodeToString(blob), codec.HmacBase64(key, content)))
							before := ran[path]
							rec := httptest.NewRecorder()
							rt.ServeHTTP(rec, req)
							admitted := ran[path] == before+1
							want := sigKey == own && tok == own
							wantCode := 200
							if tok != own {
								wantCode = 401
							} else if sigKey != own {
								wantCode = 403
							}
							in := fmt.Sprintf("fingerprints=%v bound=%s route=%s signed-with-key=%s jwt-of-group=%s", labels, order, path, sigKey, tok)
							c.Eval(fmt.Sprintf("%v/%s/%s/sig=%s/jwt=%s", labels, order, path, sigKey, tok), func() any {
								return map[string]any{"case": in, "handler_ran": admitted, "status": rec.Code}
							})
							if admitted != want || rec.Code != wantCode {
								c.Violation(in, "admit/deny", fmt.Sprintf("handler ran=%v status=%d, want ran=%v status=%d", admitted, rec.Code, want, wantCode))
							}
						}
					}
				}
			}
		}
	})
	c.Done()
}
