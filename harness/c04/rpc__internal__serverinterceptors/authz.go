package serverinterceptors

import (
	"context"
	"fmt"
	"testing"

	"github.com/alicebob/miniredis/v2"
	vrt "github.com/gotid/god"
	"github.com/gotid/god/lib/logx"
	"github.com/gotid/god/lib/store/redis"
	"github.com/gotid/god/rpc/internal/auth"
	"google.golang.org/grpc"
	"google.golang.org/grpc/codes"
	"google.golang.org/grpc/metadata"
	"google.golang.org/grpc/status"
)

type azStream struct {
	grpc.ServerStream
	ctx context.Context
}

func (s azStream) Context() context.Context { return s.ctx }

// Unary and stream authorize interceptors: the handler runs iff the authenticator admits
// the call; a rejected call carries the authenticator's grpc status.
func TestVerifAuthorizeInterceptors(t *testing.T) {
	defer vrt.WriteReport()
	logx.Disable()
	if !vrt.Shard(2) {
		return
	}
	s, err := miniredis.Run()
	if err != nil {
		vrt.InfraError("miniredis: %v", err)
	}
	defer s.Close()
	c := vrt.NewCases("auth/rpc-interceptors")
	vrt.RunOnce(vrt.Options{Name: "interceptors", Horizon: 1 << 30}, func(r *vrt.Run) {
		for _, strict := range []bool{true, false} {
			for _, stored := range []string{"", "t1"} {
				for _, md := range []string{"none", "apponly", "tokenonly", "t1", "t2", "t", "t1x", "otherapp"} {
					for _, kind := range []string{"unary", "stream"} {
						s.FlushAll()
						if stored != "" {
							s.HSet("apps", "app1", stored)
						}
						a, err := auth.NewAuthenticator(redis.New(s.Addr()), "apps", strict)
						if err != nil {
							vrt.InfraError("authenticator: %v", err)
						}
						ctx := context.Background()
						switch md {
						case "apponly":
							ctx = metadata.NewIncomingContext(ctx, metadata.Pairs("app", "app1"))
						case "tokenonly":
							ctx = metadata.NewIncomingContext(ctx, metadata.Pairs("token", "t1"))
						case "t1", "t2", "t", "t1x":
							ctx = metadata.NewIncomingContext(ctx, metadata.Pairs("app", "app1", "token", md))
						case "otherapp":
							ctx = metadata.NewIncomingContext(ctx, metadata.Pairs("app", "app2", "token", "t1"))
						}
						ran := false
						var gotErr error
						if kind == "unary" {
							_, gotErr = UnaryAuthorizeInterceptor(a)(ctx, "req", &grpc.UnaryServerInfo{FullMethod: "/s/m"}, func(ctx context.Context, req interface{}) (interface{}, error) {
								ran = true
								return "ok", nil
							})
						} else {
							gotErr = StreamAuthorizeInterceptor(a)(nil, azStream{ctx: ctx}, &grpc.StreamServerInfo{FullMethod: "/s/m"}, func(srv interface{}, stream grpc.ServerStream) error {
								ran = true
								return nil
							})
						}
						want := codes.OK
						switch md {
						case "none", "apponly", "tokenonly":
							want = codes.Unauthenticated
						case "t1", "t2", "t", "t1x":
							if stored == "" {
								if strict {
									want = codes.Internal
								}
							} else if md != stored {
								want = codes.Unauthenticated
							}
						case "otherapp":
							if strict {
								want = codes.Internal
							}
						}
						in := fmt.Sprintf("%s strict=%v stored=%q metadata=%s", kind, strict, stored, md)
						c.Eval(fmt.Sprintf("%s/strict=%v/stored=%q/md=%s", kind, strict, stored, md), func() any {
							return map[string]any{"case": in, "handler_ran": ran, "code": status.Code(gotErr).String()}
						})
						if status.Code(gotErr) != want || ran != (want == codes.OK) {
							c.Violation(in, "admit/deny", fmt.Sprintf("handler ran=%v code=%v, want code=%v", ran, status.Code(gotErr), want))
						}
					}
				}
			}
		}
	})
	c.Done()
}
