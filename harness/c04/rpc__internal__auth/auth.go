package auth

import (
	"context"
	"fmt"
	"strings"
	"sync"
	"testing"
	"time"

	"github.com/alicebob/miniredis/v2"
	"github.com/alicebob/miniredis/v2/server"
	vrt "github.com/gotid/god"
	"github.com/gotid/god/lib/logx"
	"github.com/gotid/god/lib/stat"
	"github.com/gotid/god/lib/store/redis"
	"google.golang.org/grpc/codes"
	"google.golang.org/grpc/metadata"
	"google.golang.org/grpc/status"
)

var (
	raOnce sync.Once
	raSrv  *miniredis.Miniredis
	raDown bool
	raMu   sync.Mutex
)

func raServer() *miniredis.Miniredis {
	raOnce.Do(func() {
		s, err := miniredis.Run()
		if err != nil {
			vrt.InfraError("miniredis: %v", err)
		}
		s.Server().SetPreHook(func(c *server.Peer, cmd string, args ...string) bool {
			raMu.Lock()
			d := raDown
			raMu.Unlock()
			if d && strings.ToUpper(cmd) != "PING" {
				c.WriteError("ERR verif injected failure")
				return true
			}
			return false
		})
		raSrv = s
	})
	raSrv.FlushAll()
	raMu.Lock()
	raDown = false
	raMu.Unlock()
	return raSrv
}

type raSys struct {
	r      *vrt.Run
	s      *miniredis.Miniredis
	a      *Authenticator
	strict bool
	stored string                   // token currently stored for app "app1" ("" = none)
	cached map[string]string        // app -> value fetched within the last 5 minutes
	at     map[string]time.Duration // when it was fetched
	down   bool
}

const raKey = "apps"

func (s *raSys) call(md string) { s.callApp("app1", md) }

// callApp: a call made in the name of appName (app2 is a second application whose stored
// token "u2" never changes: what one application presented or was told must not matter to
// the other)
func (s *raSys) callApp(appName, md string) {
	if appName == "app2" {
		saved := s.stored
		s.stored = "u2"
		defer func() { s.stored = saved }()
	}
	ctx := context.Background()
	app, tok := "", ""
	switch md {
	case "none":
	case "apponly":
		ctx = metadata.NewIncomingContext(ctx, metadata.Pairs("app", appName))
		app = appName
	case "tokenonly":
		ctx = metadata.NewIncomingContext(ctx, metadata.Pairs("token", "t1"))
		tok = "t1"
	case "empty":
		ctx = metadata.NewIncomingContext(ctx, metadata.Pairs("app", "", "token", ""))
	case "emptytoken": // both keys present, exactly one value empty: still a call lacking its credentials
		ctx = metadata.NewIncomingContext(ctx, metadata.Pairs("app", appName, "token", ""))
		app = appName
	case "emptyapp":
		ctx = metadata.NewIncomingContext(ctx, metadata.Pairs("app", "", "token", "t1"))
		tok = "t1"
	default: // a token: t1, t2, a proper prefix of t1 ("t"), an extension of it ("t1x")
		ctx = metadata.NewIncomingContext(ctx, metadata.Pairs("app", appName, "token", md))
		app, tok = appName, md
	}
	err := s.a.Authenticate(ctx)
	code := status.Code(err)
	if app == "" || tok == "" {
		if code != codes.Unauthenticated {
			s.r.Failf("call with metadata %q: got %v, want Unauthenticated", md, err)
		}
		return
	}
	// what does the authenticator know about the app? (cached for 5 minutes, else fetched now)
	known, have := s.cached[app]
	if have && vrt.Elapsed()-s.at[app] >= 4*time.Minute+45*time.Second && vrt.Elapsed()-s.at[app] <= 5*time.Minute+16*time.Second {
		// inside the expiry jitter window of the in-memory cache either answer source is possible
		alt := s.expect(tok, s.stored, s.stored != "" && !s.down)
		if code == s.expectCode(tok, known) || code == alt {
			if code == alt && s.stored != "" && !s.down {
				s.cached[app], s.at[app] = s.stored, vrt.Elapsed()
			}
			return
		}
		s.r.Failf("call %s/%s near the cache expiry: got %v", app, tok, err)
		return
	}
	if have && vrt.Elapsed()-s.at[app] < 5*time.Minute {
		if want := s.expectCode(tok, known); code != want {
			s.r.Failf("call %s/%s with token %q fetched %v ago: got %v, want %v", app, tok, known, vrt.Elapsed()-s.at[app], err, want)
		}
		return
	}
	delete(s.cached, app)
	ok := s.stored != "" && !s.down
	if want := s.expect(tok, s.stored, ok); code != want {
		s.r.Failf("call %s/%s (stored %q, store down=%v, strict=%v): got %v, want %v", app, tok, s.stored, s.down, s.strict, err, want)
	}
	if ok {
		s.cached[app], s.at[app] = s.stored, vrt.Elapsed()
	}
}

func (s *raSys) expectCode(tok, known string) codes.Code {
	if tok == known {
		return codes.OK
	}
	return codes.Unauthenticated
}

// expect: fetched=false means no stored token or a store failure
func (s *raSys) expect(tok, stored string, fetched bool) codes.Code {
	if !fetched {
		if s.strict {
			return codes.Internal
		}
		return codes.OK
	}
	return s.expectCode(tok, stored)
}

func (s *raSys) apply(op string) bool {
	switch {
	case strings.HasPrefix(op, "call:"):
		s.call(op[5:])
	case strings.HasPrefix(op, "call2:"):
		s.callApp("app2", op[6:])
	case strings.HasPrefix(op, "store:"):
		v := op[6:]
		if s.down {
			return false
		}
		if v == "none" {
			s.s.HDel(raKey, "app1")
			s.stored = ""
		} else {
			s.s.HSet(raKey, "app1", v)
			s.stored = v
		}
	case op == "down":
		if s.down {
			return false
		}
		s.down = true
		raMu.Lock()
		raDown = true
		raMu.Unlock()
	case op == "up":
		if !s.down {
			return false
		}
		s.down = false
		raMu.Lock()
		raDown = false
		raMu.Unlock()
	default:
		var sec int
		fmt.Sscanf(op, "t%d", &sec)
		vrt.AdvanceSettle(time.Duration(sec) * time.Second)
	}
	return true
}

func (s *raSys) canon() string {
	out := fmt.Sprintf("stored=%s|down=%v", s.stored, s.down)
	for _, app := range []string{"app1", "app2"} {
		c := "-"
		if v, ok := s.cached[app]; ok {
			age := vrt.Elapsed() - s.at[app]
			if age > 6*time.Minute {
				age = 6 * time.Minute
			}
			c = fmt.Sprintf("%s@%v", v, age)
		}
		real := "-"
		if v, ok := s.a.cache.Get(app); ok {
			real = fmt.Sprint(v)
		}
		out += fmt.Sprintf("|%s:cached=%s,real=%s", app, c, real)
	}
	// anything else the authenticator remembers
	if v, ok := s.a.cache.Get(raKey); ok {
		out += fmt.Sprintf("|other=%v", v)
	}
	return out
}

func TestVerifRpcAuth(t *testing.T) {
	defer vrt.WriteReport()
	logx.Disable()
	stat.SetReporter(nil)
	ops := []string{"call:none", "call:apponly", "call:tokenonly", "call:empty", "call:emptytoken", "call:emptyapp", "call:t1", "call:t2", "call:t", "call:t1x", "call2:u2", "call2:t1", "store:t1", "store:t2", "store:none", "down", "up", "t0", "t60", "t360"}
	depth := 4
	if vrt.Thorough() {
		depth = 8
	}
	for i, strict := range []bool{true, false} {
		if !vrt.Shard(i) {
			continue
		}
		strict := strict
		vrt.BFS(vrt.Options{Name: fmt.Sprintf("auth/rpc/strict=%v", strict), Horizon: 1 << 30, Budget: vrt.FairBudget(1)}, depth, ops, func(r *vrt.Run, hist []string) vrt.Step {
			vrt.SetRandHook(func() (int64, bool) { return vrt.FloatDraw(1 - 1.0/(1<<53)), true })
			s := &raSys{r: r, s: raServer(), strict: strict, cached: map[string]string{}, at: map[string]time.Duration{}}
			a, err := NewAuthenticator(redis.New(s.s.Addr()), raKey, strict)
			if err != nil {
				r.Failf("NewAuthenticator: %v", err)
				return vrt.Step{Canon: "failed"}
			}
			s.a = a
			s.s.HSet(raKey, "app2", "u2")
			vrt.Settle()
			for _, op := range hist {
				if op == "t0" {
					continue
				}
				if !s.apply(op) {
					return vrt.Step{}
				}
				if r.Failed() {
					return vrt.Step{Canon: "failed"}
				}
			}
			return vrt.Step{Canon: s.canon()}
		})
	}
}
