package handler

import (
	"crypto/hmac"
	"crypto/sha256"
	"crypto/sha512"
	"encoding/base64"
	"encoding/json"
	"fmt"
	"hash"
	"net/http"
	"net/http/httptest"
	"sort"
	"strings"
	"testing"

	"github.com/golang-jwt/jwt/v4"
	vrt "github.com/gotid/god"
	"github.com/gotid/god/lib/logx"
)

const (
	jwSecret = "secret-current"
	jwPrev   = "secret-previous"
	jwOther  = "secret-other"
)

type jwReq struct {
	alg, key, exp, nbf, extra, form string
}

func (q jwReq) String() string {
	return fmt.Sprintf("alg=%s key=%s exp=%s nbf=%s extra=%s header=%s", q.alg, q.key, q.exp, q.nbf, q.extra, q.form)
}

func b64(b []byte) string { return base64.RawURLEncoding.EncodeToString(b) }

// build hand-signs the token (no jwt library involved) and returns the Authorization
// header value plus the extra claims the handler must see.
func (q jwReq) build() (header string, extras map[string]string) {
	now := vrt.Now().Unix()
	claims := map[string]any{}
	switch q.exp {
	case "past":
		claims["exp"] = now - 10
	case "future":
		claims["exp"] = now + 10
	case "nonnumeric":
		claims["exp"] = "tomorrow"
	}
	switch q.nbf {
	case "past":
		claims["nbf"] = now - 10
	case "future":
		claims["nbf"] = now + 10
	}
	extras = map[string]string{}
	switch q.extra {
	case "string":
		claims["uid"], extras["uid"] = "u-1", "u-1"
	case "number":
		claims["level"], extras["level"] = 7, "7"
	case "registered":
		claims["iss"], claims["sub"], claims["aud"], claims["jti"], claims["iat"] = "me", "you", "them", "id", now-1
		claims["role"], extras["role"] = "admin", "admin"
	}
	hdr, _ := json.Marshal(map[string]string{"alg": q.alg, "typ": "JWT"})
	pl, _ := json.Marshal(claims)
	signing := b64(hdr) + "." + b64(pl)
	key := map[string]string{"secret": jwSecret, "prev": jwPrev, "other": jwOther, "empty": ""}[q.key]
	var h func() hash.Hash
	switch q.alg {
	case "HS384":
		h = sha512.New384
	case "HS512":
		h = sha512.New
	default:
		h = sha256.New
	}
	mac := hmac.New(h, []byte(key))
	mac.Write([]byte(signing))
	sig := b64(mac.Sum(nil))
	if q.alg == "none" {
		sig = ""
	}
	tok := signing + "." + sig
	switch q.form {
	case "Bearer":
		return "Bearer " + tok, extras
	case "bearer":
		return "bearer " + tok, extras
	case "missing":
		return "", extras
	case "noscheme":
		return tok, extras
	case "twosegments":
		return "Bearer " + signing, extras
	case "badbase64":
		return "Bearer " + signing + ".!!!" + sig, extras
	case "garbage":
		return "Bearer not-a-token", extras
	}
	return tok, extras
}

// valid is the reference verdict written from the statement.
func (q jwReq) valid(withPrev bool) (bool, bool) {
	asserted := q.form != "noscheme" // a raw token without scheme: only panic-freedom / history independence
	if q.form != "Bearer" && q.form != "bearer" {
		return false, asserted
	}
	if q.alg != "HS256" && q.alg != "HS384" && q.alg != "HS512" {
		return false, asserted
	}
	if !(q.key == "secret" || (withPrev && q.key == "prev")) {
		return false, asserted
	}
	if q.exp == "past" || q.nbf == "future" {
		return false, asserted
	}
	if q.exp == "nonnumeric" {
		return false, false // a non-numeric exp is malformed: left to the jwt library, not asserted
	}
	return true, asserted
}

func jwAll() []jwReq {
	var out []jwReq
	for _, alg := range []string{"HS256", "HS384", "HS512", "none", "RS256"} {
		for _, key := range []string{"secret", "prev", "other", "empty"} {
			for _, exp := range []string{"absent", "past", "future", "nonnumeric"} {
				for _, nbf := range []string{"absent", "past", "future"} {
					for _, extra := range []string{"none", "string", "number", "registered"} {
						for _, form := range []string{"Bearer", "bearer", "missing", "noscheme", "twosegments", "badbase64", "garbage"} {
							out = append(out, jwReq{alg, key, exp, nbf, extra, form})
						}
					}
				}
			}
		}
	}
	return out
}

type jwResult struct {
	ran    bool
	status int
	seen   string
}

func jwServe(h http.Handler, ran *bool, seen *map[string]string, authz string) jwResult {
	*ran = false
	*seen = nil
	req := httptest.NewRequest(http.MethodGet, "/x", nil)
	if authz != "" {
		req.Header.Set("Authorization", authz)
	}
	rec := httptest.NewRecorder()
	h.ServeHTTP(rec, req)
	var ks []string
	for k, v := range *seen {
		ks = append(ks, k+"="+v)
	}
	sort.Strings(ks)
	return jwResult{*ran, rec.Code, strings.Join(ks, ",")}
}

func TestVerifJwtGate(t *testing.T) {
	defer vrt.WriteReport()
	logx.Disable()
	jwt.TimeFunc = vrt.Now
	all := jwAll()
	// prior requests that move the parser's per-secret counters
	hist := []jwReq{
		{"HS256", "secret", "future", "absent", "none", "Bearer"},
		{"HS256", "prev", "future", "absent", "none", "Bearer"},
		{"HS256", "other", "future", "absent", "none", "Bearer"},
	}
	var prefixes [][]jwReq
	prefixes = append(prefixes, nil)
	for _, a := range hist {
		prefixes = append(prefixes, []jwReq{a})
		for _, b := range hist {
			prefixes = append(prefixes, []jwReq{a, b})
			if vrt.Thorough() {
				for _, c := range hist {
					prefixes = append(prefixes, []jwReq{a, b, c})
					for _, d := range hist {
						prefixes = append(prefixes, []jwReq{a, b, c, d})
					}
				}
			}
		}
	}
	c := vrt.NewCases("auth/jwt")
	n := 0
	for _, withPrev := range []bool{false, true} {
		for pi, prefix := range prefixes {
			n++
			if !vrt.Shard(n) {
				continue
			}
			vrt.RunOnce(vrt.Options{Name: "jwt", Horizon: 1 << 30}, func(r *vrt.Run) {
				for _, q := range all {
					ran := false
					var seen map[string]string
					mk := func() http.Handler {
						opts := []AuthorizeOption{}
						if withPrev {
							opts = append(opts, WithPrevSecret(jwPrev))
						}
						return Authorize(jwSecret, opts...)(http.HandlerFunc(func(w http.ResponseWriter, req *http.Request) {
							ran = true
							seen = map[string]string{}
							for _, k := range []string{"uid", "level", "role", "iss", "sub", "aud", "jti", "iat", "exp", "nbf"} {
								if v := req.Context().Value(k); v != nil {
									seen[k] = fmt.Sprint(v)
								}
							}
						}))
					}
					h := mk()
					for _, p := range prefix {
						a, _ := p.build()
						jwServe(h, &ran, &seen, a)
					}
					authz, extras := q.build()
					var got jwResult
					var pan any
					func() {
						defer func() { pan = recover() }()
						got = jwServe(h, &ran, &seen, authz)
					}()
					fresh := jwServe(mk(), &ran, &seen, authz)
					want, asserted := q.valid(withPrev)
					class := fmt.Sprintf("prev=%v/hist=%d/alg=%s/key=%s/form=%s/admit=%v", withPrev, len(prefix), q.alg, q.key, q.form, got.ran)
					c.Eval(class, func() any {
						return map[string]any{"request": q.String(), "with_prev_secret": withPrev, "history": len(prefix), "handler_ran": got.ran, "status": got.status}
					})
					in := fmt.Sprintf("prevSecret=%v history#%d %s", withPrev, pi, q)
					if pan != nil {
						c.Violation(in, "panic", fmt.Sprint(pan))
						continue
					}
					if got != fresh {
						c.Violation(in, "history dependence", fmt.Sprintf("after %d prior requests: %+v, on a fresh gate: %+v", len(prefix), got, fresh))
					}
					if !asserted {
						continue
					}
					if got.ran != want {
						c.Violation(in, "admit/deny", fmt.Sprintf("handler ran=%v (status %d), reference verdict admit=%v", got.ran, got.status, want))
						continue
					}
					if !got.ran && got.status != http.StatusUnauthorized {
						c.Violation(in, "status", fmt.Sprintf("rejected with %d, want 401", got.status))
					}
					if got.ran {
						var ks []string
						for k, v := range extras {
							ks = append(ks, k+"="+v)
						}
						sort.Strings(ks)
						if got.seen != strings.Join(ks, ",") {
							c.Violation(in, "claims", fmt.Sprintf("context carries {%s}, the token's non-registered claims are {%s}", got.seen, strings.Join(ks, ",")))
						}
					}
				}
			})
			if c.NumViolations() > 5 {
				break
			}
		}
	}
	c.Done()
}
