package handler

import (
	"crypto/rand"
	"crypto/rsa"
	"crypto/sha256"
	"crypto/x509"
	"encoding/base64"
	"encoding/pem"
	"fmt"
	"io"
	"net/http"
	"net/http/httptest"
	"os"
	"path/filepath"
	"strconv"
	"strings"
	"testing"
	"testing/iotest"
	"time"

	vrt "github.com/gotid/god"
	"github.com/gotid/god/api/httpx"
	"github.com/gotid/god/lib/codec"
	"github.com/gotid/god/lib/logx"
)

const sigTolerance = 5 * time.Second

type sigEnv struct {
	dec  map[string]codec.RsaDecryptor
	enc  codec.RsaEncryptor
	enc2 codec.RsaEncryptor // an unconfigured key pair
}

func newSigEnv(c *vrt.Cases) *sigEnv {
	dir, err := os.MkdirTemp("", "c04sig")
	if err != nil {
		vrt.InfraError("mkdtemp: %v", err)
	}
	defer os.RemoveAll(dir)
	mk := func(name string) (string, []byte) {
		k, err := rsa.GenerateKey(rand.Reader, 1024)
		if err != nil {
			vrt.InfraError("rsa: %v", err)
		}
		priv := pem.EncodeToMemory(&pem.Block{Type: "RSA PRIVATE KEY", Bytes: x509.MarshalPKCS1PrivateKey(k)})
		pubDer, _ := x509.MarshalPKIXPublicKey(&k.PublicKey)
		pub := pem.EncodeToMemory(&pem.Block{Type: "PUBLIC KEY", Bytes: pubDer})
		f := filepath.Join(dir, name+".pem")
		os.WriteFile(f, priv, 0o600)
		return f, pub
	}
	f1, pub1 := mk("sig1")
	_, pub2 := mk("sig2")
	d, err := codec.NewRsaDecryptor(f1)
	if err != nil {
		vrt.InfraError("decryptor: %v", err)
	}
	e1, err := codec.NewRsaEncryptor(pub1)
	if err != nil {
		vrt.InfraError("encryptor: %v", err)
	}
	e2, _ := codec.NewRsaEncryptor(pub2)
	return &sigEnv{dec: map[string]codec.RsaDecryptor{"fp1": d}, enc: e1, enc2: e2}
}

type sigReq struct {
	method, path, query, body string
	ts                        int64
	key                       []byte
	fingerprint               string
	reqURI                    string
	enc                       codec.RsaEncryptor
	// what is signed (tampering = changing the request after signing)
	sMethod, sPath, sQuery, sBody string
	sTs                           int64
	sKey                          []byte
	mangleSig, mangleSecret       bool
	unknownLen                    bool // body of undeclared length (chunked transfer): ContentLength = -1
}

func (e *sigEnv) request(q sigReq) *http.Request {
	bodyHash := fmt.Sprintf("%x", sha256.Sum256([]byte(q.sBody)))
	content := strings.Join([]string{strconv.FormatInt(q.sTs, 10), q.sMethod, q.sPath, q.sQuery, bodyHash}, "\n")
	sig := codec.HmacBase64(q.sKey, content)
	if q.mangleSig {
		sig = "A" + sig[1:]
		if sig == codec.HmacBase64(q.sKey, content) {
			sig = "B" + sig[1:]
		}
	}
	secretPlain := fmt.Sprintf("key=%s; time=%d; type=0", base64.StdEncoding.EncodeToString(q.key), q.ts)
	blob, err := q.enc.Encrypt([]byte(secretPlain))
	if err != nil {
		vrt.InfraError("encrypt: %v", err)
	}
	secret := base64.StdEncoding.EncodeToString(blob)
	if q.mangleSecret {
		secret = "AAAA" + secret[4:]
	}
	target := q.path
	if q.query != "" {
		target += "?" + q.query
	}
	r := httptest.NewRequest(q.method, target, strings.NewReader(q.body))
	r.Header.Set(httpx.ContentSecurity, fmt.Sprintf("fingerprint=%s; secret=%s; signature=%s", q.fingerprint, secret, sig))
	if q.reqURI != "" {
		r.Header.Set("X-Request-Uri", q.reqURI)
	}
	if q.unknownLen {
		r.ContentLength = -1
		r.Body = io.NopCloser(iotest.OneByteReader(strings.NewReader(q.body)))
	}
	return r
}

func TestVerifContentSignature(t *testing.T) {
	defer vrt.WriteReport()
	logx.Disable()
	if !vrt.Shard(0) {
		return
	}
	c := vrt.NewCases("auth/content-signature")
	env := newSigEnv(c)
	vrt.RunOnce(vrt.Options{Name: "signature", Horizon: 1 << 30}, func(r *vrt.Run) {
		now := vrt.Now().Unix()
		tol := int64(sigTolerance / time.Second)
		tampers := []string{"none", "timestamp", "method", "path", "query", "body", "key", "signature", "fingerprint", "secret-blob", "foreign-keypair", "request-uri", "request-uri-consistent",
			// paths that a router would treat as the same route are still different requests: what
			// was signed is the path as sent
			"path-trailing-slash", "path-double-slash", "path-dot-segment", "path-dotdot-segment", "unclean-path-signed-as-sent"}
		for _, method := range []string{"GET", "POST", "PUT", "DELETE", "PATCH", "HEAD"} {
			for _, strict := range []bool{true, false} {
				for _, off := range []int64{-tol - 1, -tol, 0, tol, tol + 1} {
					for _, tamper := range tampers {
						for _, unknownLen := range []bool{false, true} {
							key := []byte("0123456789abcdef")
							q := sigReq{method: method, path: "/api/do", query: "a=1&b=2", body: "payload", ts: now + off, key: key, fingerprint: "fp1", enc: env.enc, unknownLen: unknownLen}
							if method == "GET" || method == "HEAD" {
								q.body = ""
							}
							q.sMethod, q.sPath, q.sQuery, q.sBody, q.sTs, q.sKey = q.method, q.path, q.query, q.body, q.ts, q.key
							tampered := tamper != "none"
							switch tamper {
							case "timestamp":
								q.sTs = q.ts + 1
							case "method":
								q.sMethod = "TRACE"
							case "path":
								q.sPath = "/api/other"
							case "path-trailing-slash":
								q.path = "/api/do/"
							case "path-double-slash":
								q.path = "/api//do"
							case "path-dot-segment":
								q.path = "/api/./do"
							case "path-dotdot-segment":
								q.path = "/x/../api/do"
							case "unclean-path-signed-as-sent":
								q.path, q.sPath = "/api//do/", "/api//do/"
								tampered = false
							case "query":
								q.sQuery = "a=1&b=3"
							case "body":
								q.sBody = q.body + "x"
							case "key":
								q.sKey = []byte("fedcba9876543210")
							case "signature":
								q.mangleSig = true
							case "fingerprint":
								q.fingerprint = "unknown"
							case "secret-blob":
								q.mangleSecret = true
							case "foreign-keypair":
								q.enc = env.enc2
							case "request-uri":
								q.reqURI = "/api/elsewhere?a=1&b=2"
							case "request-uri-consistent":
								// a proxy rewrote the URL and passes the original one along: still authentic
								q.reqURI = "/api/do?a=1&b=2"
								q.path = "/internal/do"
								tampered = false
							}
							ran := false
							seenBody := ""
							h := ContentSecurityHandler(env.dec, sigTolerance, strict)(http.HandlerFunc(func(w http.ResponseWriter, req *http.Request) {
								ran = true
								b, _ := io.ReadAll(req.Body)
								seenBody = string(b)
							}))
							rec := httptest.NewRecorder()
							var pan any
							func() {
								defer func() { pan = recover() }()
								h.ServeHTTP(rec, env.request(q))
							}()
							guarded := method == "GET" || method == "POST" || method == "PUT" || method == "DELETE"
							inTime := off >= -tol && off <= tol
							want := !guarded || !strict || (!tampered && inTime)
							class := fmt.Sprintf("%s/strict=%v/offset=%+d/tamper=%s/unknownlen=%v/ran=%v", method, strict, off, tamper, unknownLen, ran)
							c.Eval(class, func() any {
								return map[string]any{"method": method, "strict": strict, "clock_offset_s": off, "tampered": tamper, "handler_ran": ran, "status": rec.Code}
							})
							in := fmt.Sprintf("method=%s strict=%v offset=%+ds tamper=%s length-declared=%v", method, strict, off, tamper, !unknownLen)
							if pan != nil {
								c.Violation(in, "panic", fmt.Sprint(pan))
								continue
							}
							if ran != want {
								c.Violation(in, "admit/deny", fmt.Sprintf("handler ran=%v (status %d), want %v", ran, rec.Code, want))
							} else if ran && seenBody != q.body {
							c.Violation(in, "body", fmt.Sprintf("the admitted handler read body %q, the request carried %q", seenBody, q.body))
						} else if !ran && rec.Code != http.StatusForbidden {
								c.Violation(in, "status", fmt.Sprintf("rejected with %d, want 403", rec.Code))
							}
						}
					}
				}
			}
		}
	})
	c.Done()
}
