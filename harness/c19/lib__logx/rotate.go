package logx

import (
	"bytes"
	"compress/gzip"
	"fmt"
	"io"
	"os"
	"path/filepath"
	"sort"
	"strings"
	"testing"
	"time"

	vrt "github.com/gotid/god"
)

type rlCfg struct {
	rule       string // daily size
	days       int
	gzip       bool
	delim      string
	maxSize    int64
	maxBackups int
	pre        string // none old1 mixed3 foreign
	spell      string // how the caller spells the log file's path: "" (clean), "dot" (dir/./app.log), "slash2" (dir//app.log)
}

func (c rlCfg) String() string {
	sp := ""
	if c.spell != "" {
		sp = "/path=" + c.spell
	}
	return fmt.Sprintf("rule=%s/days=%d/gzip=%v/delim=%s/max=%d/backups=%d/pre=%s%s", c.rule, c.days, c.gzip, c.delim, c.maxSize, c.maxBackups, c.pre, sp)
}

type rlBackup struct {
	ts      time.Time
	content string
}

type rlSys struct {
	r       *vrt.Run
	cfg     rlCfg
	dir     string
	file    string
	l       *RotateLogger
	n       int
	foreign map[string]string    // foreign files -> content (must never change)
	backups map[string]*rlBackup // reference: backup base name (without .gz) -> content
	cur     string               // reference content of the current file
	startTs time.Time            // when the current file was started (names its backup)
	marked  time.Time            // last rotation mark
	lastRot time.Duration
	closed  bool
}

func backupName(c rlCfg, file string, ts time.Time) string {
	if c.rule == "daily" {
		return file + c.delim + ts.Format(dateFormat)
	}
	ext := filepath.Ext(file)
	return strings.TrimSuffix(file, ext) + c.delim + ts.Format(fileTimeFormat) + ext
}

func newRlSys(r *vrt.Run, c rlCfg) *rlSys {
	base := os.Getenv("VRT_SCRATCH")
	if base == "" {
		base = os.TempDir()
	}
	dir, err := os.MkdirTemp(base, "rl")
	if err != nil {
		r.Failf("mkdtemp: %v", err)
	}
	r.Cleanup(func() { os.RemoveAll(dir) })
	s := &rlSys{r: r, cfg: c, dir: dir, file: filepath.Join(dir, "app.log"), foreign: map[string]string{}, backups: map[string]*rlBackup{}, lastRot: -time.Hour}
	now := vrt.Now()
	pre := func(age time.Duration) {
		ts := now.Add(-age)
		name := backupName(c, s.file, ts)
		content := "OLD " + ts.Format(time.RFC3339) + "\n"
		s.backups[name] = &rlBackup{ts, content}
		if c.gzip {
			var buf bytes.Buffer
			w := gzip.NewWriter(&buf)
			w.Write([]byte(content))
			w.Close()
			os.WriteFile(name+gzipExt, buf.Bytes(), 0o600)
		} else {
			os.WriteFile(name, []byte(content), 0o600)
		}
	}
	switch c.pre {
	case "old1":
		pre(10 * 24 * time.Hour)
	case "mixed3":
		pre(10 * 24 * time.Hour)
		pre(36 * time.Hour)
		if c.rule == "daily" {
			pre(25 * time.Hour) // a same-day backup would collide with today's rotation target
		} else {
			pre(5 * time.Hour)
		}
	case "foreign":
		f := s.file + c.delim + "notes"
		if c.rule == "size" {
			f = filepath.Join(dir, "app"+c.delim+"notes.log")
		}
		os.WriteFile(f, []byte("not a backup\n"), 0o600)
		s.foreign[f] = "not a backup\n"
		if c.rule == "daily" {
			// a foreign name that sorts below every date (the daily rule compares names with
			// the boundary date's): "app.log-0-draft" is nobody's backup either
			f2 := s.file + c.delim + "0-draft"
			if c.gzip {
				f2 += ".gz"
			}
			os.WriteFile(f2, []byte("not a backup either\n"), 0o600)
			s.foreign[f2] = "not a backup either\n"
		}
		pre(10 * 24 * time.Hour)
	}
	s.open()
	vrt.Settle()
	return s
}

// open creates the logger on the (possibly already existing) current file, as a process
// start would.
// spelled is the log file's path as the caller writes it (the same file as s.file).
func (s *rlSys) spelled() string {
	switch s.cfg.spell {
	case "dot":
		return s.dir + "/./app.log"
	case "slash2":
		return s.dir + "//app.log"
	}
	return s.file
}

func (s *rlSys) open() {
	c := s.cfg
	var rule RotateRule
	if c.rule == "daily" {
		rule = DefaultRotateRule(s.spelled(), c.delim, c.days, c.gzip)
	} else {
		rule = &SizeLimitRotateRule{
			DailyRotateRule: DailyRotateRule{rotatedTime: getNowDateInRFC3339Format(), filename: s.spelled(), delimiter: c.delim, days: c.days, gzip: c.gzip},
			maxSize:         c.maxSize, maxBackups: c.maxBackups,
		}
	}
	l, err := NewLogger(s.spelled(), rule, c.gzip)
	if err != nil {
		s.r.Failf("NewLogger: %v", err)
	}
	s.l = l
	now := vrt.Now()
	s.startTs, s.marked = now, now
}

func readMaybeGz(name string) (string, bool) {
	if b, err := os.ReadFile(name); err == nil {
		return string(b), true
	}
	b, err := os.ReadFile(name + gzipExt)
	if err != nil {
		return "", false
	}
	zr, err := gzip.NewReader(bytes.NewReader(b))
	if err != nil {
		return "<bad gzip>", true
	}
	d, _ := io.ReadAll(zr)
	return string(d), true
}

// outdated: may clean-up remove this backup now?
func (s *rlSys) outdated(name string, b *rlBackup, now time.Time) bool {
	if s.cfg.days > 0 {
		boundary := now.Add(-time.Duration(s.cfg.days) * 24 * time.Hour)
		if s.cfg.rule == "daily" {
			if b.ts.Format(dateFormat) < boundary.Format(dateFormat) {
				return true
			}
		} else if b.ts.Before(boundary) {
			return true
		}
	}
	if s.cfg.rule == "size" && s.cfg.maxBackups > 0 {
		var names []string
		for n := range s.backups {
			names = append(names, n)
		}
		sort.Strings(names)
		for i, n := range names {
			if n == name && i < len(names)-s.cfg.maxBackups {
				return true
			}
		}
	}
	return false
}

// check compares the directory with the reference.
func (s *rlSys) check(op string) {
	now := vrt.Now()
	seen := map[string]bool{s.file: true}
	if got, _ := readMaybeGz(s.file); got != s.cur {
		s.r.Failf("after %s: current log file holds %q, want %q", op, got, s.cur)
	}
	if _, err := os.Stat(s.file); err != nil {
		s.r.Failf("after %s: the current log file is missing", op)
	}
	for f, want := range s.foreign {
		seen[f] = true
		if got, ok := readMaybeGz(f); !ok || got != want {
			s.r.Failf("after %s: foreign file %s was removed or changed", op, filepath.Base(f))
		}
	}
	// outdated-ness is judged on the membership before this step's deletions
	var gone []string
	for name, b := range s.backups {
		seen[name], seen[name+gzipExt] = true, true
		got, ok := readMaybeGz(name)
		if !ok {
			if !s.outdated(name, b, now) {
				s.r.Failf("after %s: backup %s (records %q) is missing although it is neither older than %d day(s) nor beyond the newest %d backups", op, filepath.Base(name), b.content, s.cfg.days, s.cfg.maxBackups)
			}
			gone = append(gone, name)
			continue
		}
		if got != b.content {
			s.r.Failf("after %s: backup %s holds %q, want %q", op, filepath.Base(name), got, b.content)
		}
		if s.cfg.gzip {
			if _, err := os.Stat(name + gzipExt); err != nil {
				s.r.Failf("after %s: backup %s is not gzip-compressed", op, filepath.Base(name))
			}
		}
		if s.cfg.rule == "size" && !strings.HasPrefix(b.content, "OLD") {
			recs := strings.SplitAfter(b.content, "\n")
			last := ""
			for _, x := range recs {
				if x != "" {
					last = x
				}
			}
			if int64(len(b.content)-len(last)) > s.cfg.maxSize {
				s.r.Failf("after %s: backup %s holds %d bytes, more than max %d plus its last record", op, filepath.Base(name), len(b.content), s.cfg.maxSize)
			}
		}
	}
	for _, g := range gone {
		delete(s.backups, g)
	}
	ents, _ := os.ReadDir(s.dir)
	for _, e := range ents {
		if p := filepath.Join(s.dir, e.Name()); !seen[p] {
			c, _ := readMaybeGz(p)
			s.r.Failf("after %s: unexpected file %s holding %q", op, e.Name(), c)
		}
	}
}

func (s *rlSys) apply(op string) bool {
	if s.closed {
		return false
	}
	switch {
	case strings.HasPrefix(op, "w"):
		var size int
		fmt.Sscanf(op, "w%d", &size)
		s.n++
		rec := fmt.Sprintf("r%d:", s.n)
		for len(rec) < size-1 {
			rec += "x"
		}
		rec += "\n"
		now := vrt.Now()
		rotate := false
		if s.cfg.rule == "size" {
			rotate = s.cfg.maxSize < int64(len(s.cur)+len(rec))
			if rotate && vrt.Elapsed()-s.lastRot < time.Second {
				return false // backup names have one-second resolution (outside the claim)
			}
		} else {
			rotate = now.Format(dateFormat) != s.marked.Format(dateFormat)
		}
		if rotate {
			name := backupName(s.cfg, s.file, s.startTs)
			if _, clash := s.backups[name]; clash {
				return false // same backup name twice (outside the claim)
			}
			s.backups[name] = &rlBackup{s.startTs, s.cur}
			s.cur = ""
			s.startTs, s.marked = now, now
			s.lastRot = vrt.Elapsed()
		}
		s.cur += rec
		buf := []byte(rec)
		n, err := s.l.Write(buf)
		if err != nil || n != len(rec) {
			s.r.Failf("Write returned %d,%v", n, err)
		}
		// once Write has returned the buffer is the caller's again (io.Writer: "Write must not
		// retain p"): the package's own plain-text encoder hands over fmt's pooled buffer, which
		// the next log call overwrites
		for i := range buf {
			buf[i] = '#'
		}
	case op == "reopen":
		// the process restarts: the logger is closed and a new one opened on the same file
		if err := s.l.Close(); err != nil {
			s.r.Failf("Close: %v", err)
		}
		vrt.Settle()
		s.open()
	case op == "close":
		if err := s.l.Close(); err != nil {
			s.r.Failf("Close: %v", err)
		}
		s.closed = true
	default:
		var sec int
		fmt.Sscanf(op, "t%d", &sec)
		vrt.Advance(time.Duration(sec) * time.Second)
	}
	vrt.Settle()
	s.check(op)
	return true
}

func (s *rlSys) canon() string {
	var parts []string
	ents, _ := os.ReadDir(s.dir)
	for _, e := range ents {
		if info, err := e.Info(); err == nil {
			parts = append(parts, fmt.Sprintf("%s=%d", e.Name(), info.Size()))
		}
	}
	sort.Strings(parts)
	// the logger's own bookkeeping (what it believes the file size, the next backup name and
	// the last rotation mark are)
	rot := ""
	switch r := s.l.rule.(type) {
	case *DailyRotateRule:
		rot = r.rotatedTime
	case *SizeLimitRotateRule:
		rot = r.rotatedTime
	}
	return fmt.Sprintf("+%v|closed=%v|%v|size=%d|backup=%s|rot=%s", vrt.Elapsed(), s.closed, parts, s.l.currentSize, filepath.Base(s.l.backup), rot)
}

func TestVerifRotateLogger(t *testing.T) {
	defer vrt.WriteReport()
	Disable()
	var cfgs []rlCfg
	for _, days := range []int{0, 1, 2} {
		for _, gz := range []bool{false, true} {
			for _, pre := range []string{"none", "mixed3", "foreign"} {
				delim := "-"
				if gz {
					delim = "."
				}
				cfgs = append(cfgs, rlCfg{rule: "daily", days: days, gzip: gz, delim: delim, pre: pre})
			}
		}
	}
	for _, max := range []int64{10, 25} {
		for _, backups := range []int{0, 1, 2} {
			for _, days := range []int{0, 1} {
				for _, gz := range []bool{false, true} {
					pre := "mixed3"
					if backups == 0 {
						pre = "foreign"
					}
					cfgs = append(cfgs, rlCfg{rule: "size", days: days, gzip: gz, delim: "-", maxSize: max, maxBackups: backups, pre: pre})
				}
			}
		}
	}
	// other delimiters (the naming scheme must agree between naming, globbing and the
	// keep-days boundary whatever the delimiter): some sort below '-', some above
	for _, delim := range []string{"+", ",", "_", ".", ""} {
		cfgs = append(cfgs, rlCfg{rule: "size", days: 1, gzip: false, delim: delim, maxSize: 10, maxBackups: 0, pre: "foreign"},
			rlCfg{rule: "size", days: 1, gzip: delim == ".", delim: delim, maxSize: 10, maxBackups: 2, pre: "mixed3"},
			rlCfg{rule: "daily", days: 1, gzip: false, delim: delim, pre: "mixed3"})
	}
	// a file of somebody else's that merely shares the prefix (app-notes.log next to app.log),
	// together with a backup limit: it is not a backup - it must neither be removed nor take
	// the place of one of the newest backups
	cfgs = append(cfgs, rlCfg{rule: "size", days: 0, gzip: false, delim: "-", maxSize: 10, maxBackups: 2, pre: "foreign"},
		rlCfg{rule: "size", days: 0, gzip: false, delim: "-", maxSize: 10, maxBackups: 1, pre: "foreign"})
	// the log file's path spelled in a non-canonical way by the caller (file-name globbing
	// returns cleaned paths: whatever is compared with them must be cleaned too)
	for _, spell := range []string{"dot", "slash2"} {
		cfgs = append(cfgs, rlCfg{rule: "size", days: 0, gzip: false, delim: "", maxSize: 10, maxBackups: 2, pre: "none", spell: spell},
			rlCfg{rule: "size", days: 1, gzip: false, delim: "-", maxSize: 10, maxBackups: 1, pre: "mixed3", spell: spell},
			rlCfg{rule: "daily", days: 1, gzip: false, delim: "", pre: "none", spell: spell})
	}
	depth := 5
	if vrt.Thorough() {
		depth = 7
	}
	var mine []rlCfg
	for i, c := range cfgs {
		if vrt.Shard(i) {
			mine = append(mine, c)
		}
	}
	ops := []string{"w3", "w8", "w30", "t1", "t86400", "t259200", "reopen", "close"}
	for i, c := range mine {
		c := c
		d := depth
		if c.delim != "-" && !(c.rule == "daily" && c.delim == ".") {
			d = depth - 1 // the extra delimiter configurations: one step shallower
		}
		vrt.BFS(vrt.Options{Name: "rotatelogger/" + c.String(), Budget: vrt.FairBudget(len(mine) - i)}, d, ops, func(r *vrt.Run, hist []string) vrt.Step {
			s := newRlSys(r, c)
			for _, op := range hist {
				if !s.apply(op) {
					return vrt.Step{}
				}
				if r.Failed() {
					return vrt.Step{Canon: "failed"}
				}
			}
			return vrt.Step{Canon: s.canon(), Terminal: s.closed}
		})
	}
}

// Two size-triggered rotations in quick succession with compression on: the background
// compression of the first backup and the clean-up after the second rotation interleave in
// every way within the bound (file-system operations are scheduling points).  With no more
// backups than maxBackups and none too old, none may be removed, and every record must still
// be readable from the current file or a backup.
func TestVerifRotateCompressionVsCleanup(t *testing.T) {
	defer vrt.WriteReport()
	Disable()
	if !vrt.Shard(9) {
		return
	}
	bound := 2
	if vrt.Thorough() {
		bound = 3
	}
	for _, gz := range []bool{true, false} {
		gz := gz
		vrt.Explore(vrt.Options{Name: fmt.Sprintf("rotatelogger/compression-vs-cleanup/gzip=%v", gz), Bound: bound, Horizon: 1 << 30, Budget: vrt.FairBudget(2)}, func(r *vrt.Run) {
			s := newRlSys(r, rlCfg{rule: "size", days: 0, gzip: gz, delim: "-", maxSize: 10, maxBackups: 4, pre: "mixed3"})
			// the three pre-existing backups plus one rotation's: exactly maxBackups (4) in the end
			if err := os.Remove(firstBackupFile(s)); err != nil {
				r.Failf("setup: %v", err)
			}
			delete(s.backups, strings.TrimSuffix(firstBackupFile(s), gzipExt))
			// two pre-existing + two rotations = 4 = maxBackups: nothing may ever be removed
			write := func(rec string) {
				if _, err := s.l.Write([]byte(rec)); err != nil {
					r.Failf("Write: %v", err)
				}
			}
			write("r1:xxxx\n")
			vrt.Advance(time.Second)
			write("r2:yyyy\n") // rotation 1 (r1 becomes a backup)
			vrt.Advance(time.Second)
			write("r3:zzzz\n") // rotation 2 while rotation 1's compression / clean-up may still be running
			vrt.Settle()
			s.l.Close()
			vrt.Settle()
			// everything written is still somewhere, and the two old backups are still there
			all := ""
			ents, _ := os.ReadDir(s.dir)
			names := []string{}
			for _, e := range ents {
				names = append(names, e.Name())
				if c, ok := readMaybeGz(strings.TrimSuffix(filepath.Join(s.dir, e.Name()), gzipExt)); ok {
					all += c
				}
			}
			r.Outcome("%d files", len(names))
			for _, rec := range []string{"r1:", "r2:", "r3:"} {
				if !strings.Contains(all, rec) {
					r.Failf("record %s is in no file any more (directory: %v)", rec, names)
				}
			}
			old := 0
			for _, n := range names {
				if c, ok := readMaybeGz(strings.TrimSuffix(filepath.Join(s.dir, n), gzipExt)); ok && strings.HasPrefix(c, "OLD") {
					old++
				}
			}
			if old != 2 {
				r.Failf("%d of the 2 pre-existing backups are left although only 4 backups ever existed and maxBackups is 4 (directory: %v)", old, names)
			}
		})
	}
}

// firstBackupFile: the oldest pre-existing backup as it is on disk.
func firstBackupFile(s *rlSys) string {
	var names []string
	for n := range s.backups {
		names = append(names, n)
	}
	sort.Strings(names)
	f := names[0]
	if _, err := os.Stat(f); err != nil {
		f += gzipExt
	}
	return f
}

// A directory state in which the compressed form of the next backup cannot be produced (an
// entry of that name is already there): the rotation still happens, and whether or not the
// compression succeeds, the rotated records stay readable - in the plain backup if no .gz
// could be made.  Both rules, the first and a later rotation, logger closed or restarted
// afterwards.
func TestVerifRotateCompressionBlocked(t *testing.T) {
	defer vrt.WriteReport()
	Disable()
	if !vrt.Shard(10) {
		return
	}
	for _, rule := range []string{"size", "daily"} {
		for _, blockRotation := range []int{1, 2} {
			for _, end := range []string{"close", "reopen"} {
				rule, blockRotation, end := rule, blockRotation, end
				vrt.Explore(vrt.Options{Name: fmt.Sprintf("rotatelogger/compression-blocked/rule=%s/rotation=%d/then=%s", rule, blockRotation, end), Bound: 0, Horizon: 1 << 30}, func(r *vrt.Run) {
					cfg := rlCfg{rule: rule, days: 0, gzip: true, delim: "-", maxSize: 10, maxBackups: 0, pre: "none"}
					s := newRlSys(r, cfg)
					var want []string
					n := 0
					write := func() {
						n++
						rec := fmt.Sprintf("r%d:xxxx\n", n)
						want = append(want, rec)
						if _, err := s.l.Write([]byte(rec)); err != nil {
							r.Failf("Write: %v", err)
						}
					}
					step := func() {
						if rule == "size" {
							vrt.Advance(2 * time.Second)
						} else {
							vrt.Advance(24 * time.Hour)
						}
					}
					// every write after the first exceeds maxSize / falls on the next day, i.e. rotates;
					// the backup a rotation produces is named after the start of the file it closes
					started := s.startTs
					write()
					step()
					for rot := 1; rot <= 2; rot++ {
						if rot == blockRotation {
							if err := os.Mkdir(backupName(cfg, s.file, started)+gzipExt, 0o700); err != nil {
								r.Failf("setup: %v", err)
							}
						}
						write()
						started = vrt.Now()
						vrt.Settle()
						step()
					}
					if err := s.l.Close(); err != nil {
						r.Failf("Close: %v", err)
					}
					vrt.Settle()
					if end == "reopen" {
						s.open()
						write()
						vrt.Settle()
						s.l.Close()
						vrt.Settle()
					}
					all := ""
					var names []string
					ents, _ := os.ReadDir(s.dir)
					for _, e := range ents {
						names = append(names, e.Name())
						if e.IsDir() {
							continue
						}
						p := filepath.Join(s.dir, e.Name())
						if strings.HasSuffix(p, gzipExt) {
							if _, err := os.Stat(strings.TrimSuffix(p, gzipExt)); err == nil {
								continue // plain and compressed form side by side: count the records once
							}
							c, _ := readMaybeGz(strings.TrimSuffix(p, gzipExt))
							all += c
							continue
						}
						b, _ := os.ReadFile(p)
						all += string(b)
					}
					r.Outcome("%v", names)
					for _, rec := range want {
						if c := strings.Count(all, rec); c != 1 {
							r.Failf("record %q is found %d times in the current file and the backups (directory: %v)", strings.TrimSpace(rec), c, names)
						}
					}
				})
			}
		}
	}
}

// Retention as configured through the package's Config (Setup -> newFileWriter): for every
// combination of KeepDays, MaxBackups, Rotation and Compress, the writer built from the Config
// judges a directory of pre-existing backups (1, 3, 4 and 10 days old) exactly as the
// configuration says: outdated are the backups older than KeepDays days and, under the size
// rule, those beyond the newest MaxBackups - nothing else.
func TestVerifLogConfigRetention(t *testing.T) {
	defer vrt.WriteReport()
	Disable()
	if !vrt.Shard(11) {
		return
	}
	c := vrt.NewCases("rotatelogger/config-retention")
	vrt.RunOnce(vrt.Options{Name: "rotatelogger/config-retention", Horizon: 1 << 30}, func(r *vrt.Run) {
		ages := []int{1, 3, 4, 10}
		for _, rotation := range []string{"size", "daily"} {
			for _, keepDays := range []int{0, 2, 5} {
				for _, maxBackups := range []int{0, 2, 5} {
					for _, compress := range []bool{false, true} {
						base := os.Getenv("VRT_SCRATCH")
						if base == "" {
							base = os.TempDir()
						}
						dir, err := os.MkdirTemp(base, "lc")
						if err != nil {
							r.Failf("mkdtemp: %v", err)
							return
						}
						options = logOptions{} // the package keeps its options in a process-wide variable
						w, err := newFileWriter(Config{Path: dir, KeepDays: keepDays, MaxBackups: maxBackups, MaxSize: 1, Rotation: rotation, Compress: compress})
						if err != nil {
							c.Violation(fmt.Sprintf("rotation=%s keepDays=%d maxBackups=%d compress=%v", rotation, keepDays, maxBackups, compress), "setup", err.Error())
							os.RemoveAll(dir)
							continue
						}
						vrt.Settle()
						rl := w.(*concreteWriter).infoLog.(*RotateLogger)
						file := filepath.Join(dir, accessFilename)
						cfg := rlCfg{rule: rotation, delim: backupFileDelimiter}
						now := vrt.Now()
						var names []string
						byAge := map[string]int{}
						for _, a := range ages {
							n := backupName(cfg, file, now.Add(-time.Duration(a)*24*time.Hour))
							if compress {
								n += gzipExt
							}
							os.WriteFile(n, []byte("x\n"), 0o600)
							names = append(names, n)
							byAge[n] = a
						}
						sort.Strings(names)
						want := map[string]bool{}
						for i, n := range names {
							if keepDays > 0 && byAge[n] > keepDays {
								want[n] = true
							}
							if rotation == "size" && maxBackups > 0 && i < len(names)-maxBackups {
								want[n] = true
							}
						}
						got := map[string]bool{}
						for _, f := range rl.rule.OutdatedFiles() {
							got[filepath.Clean(f)] = true
						}
						in := fmt.Sprintf("rotation=%s keepDays=%d maxBackups=%d compress=%v", rotation, keepDays, maxBackups, compress)
						var gotAges, wantAges []int
						for n := range got {
							gotAges = append(gotAges, byAge[n])
						}
						for n := range want {
							wantAges = append(wantAges, byAge[n])
						}
						sort.Ints(gotAges)
						sort.Ints(wantAges)
						c.Eval(in, func() any { return map[string]any{"config": in, "outdated_ages_days": gotAges} })
						if fmt.Sprint(gotAges) != fmt.Sprint(wantAges) {
							c.Violation(in, "retention", fmt.Sprintf("with backups 1, 3, 4 and 10 days old the writer built from the Config calls the ones aged %v outdated, the configuration says %v", gotAges, wantAges))
						}
						w.Close()
						vrt.Settle()
						os.RemoveAll(dir)
					}
				}
			}
		}
		options = logOptions{}
	})
	c.Done()
}
