package limit

import (
	"fmt"
	"sort"
	"strconv"
	"strings"
	"sync"
	"testing"
	"time"

	"github.com/alicebob/miniredis/v2"
	vrt "github.com/gotid/god"
	"github.com/gotid/god/lib/logx"
	"github.com/gotid/god/lib/stat"
	"github.com/gotid/god/lib/store/redis"
)

var (
	srvOnce sync.Once
	srv     *miniredis.Miniredis
)

// one miniredis per process; every execution starts from FLUSHALL and the virtual clock
func freshServer(r *vrt.Run) *miniredis.Miniredis {
	srvOnce.Do(func() {
		s, err := miniredis.Run()
		if err != nil {
			vrt.InfraError("miniredis: %v", err)
		}
		srv = s
	})
	srv.FlushAll()
	srv.SetTime(vrt.Now())
	if _, err := redis.New(srv.Addr()).Incr("probe"); err != nil {
		r.Logf("server not reachable at execution start: %v", err)
		vrt.AddNote("unreachable at start of an execution: %v", err)
	}
	srv.FlushAll()
	return srv
}

// realState renders what Redis really holds (values, remaining TTLs; timestamps stored by
// the token script as ages), so that the history search never merges two histories whose
// reference models agree but whose real server state differs.
func realState(s *miniredis.Miniredis) string {
	now := vrt.Now().Unix()
	var parts []string
	for _, k := range s.Keys() {
		v, _ := s.Get(k)
		if strings.HasSuffix(k, ".ts") {
			if n, err := strconv.ParseInt(v, 10, 64); err == nil {
				v = fmt.Sprintf("age%d", now-n)
			}
		}
		parts = append(parts, fmt.Sprintf("%s=%s/%v", k, v, s.TTL(k)))
	}
	sort.Strings(parts)
	return strings.Join(parts, ",")
}

// ---------------------------------------------------------------------------------------
// period limiter

type plKey struct {
	count   int
	expires time.Duration // virtual elapsed at which the counter dies
}

type plSys struct {
	r      *vrt.Run
	s      *miniredis.Miniredis
	l      *PeriodLimit
	mk     func() *PeriodLimit
	period int
	quota  int
	align  bool
	keys   map[string]*plKey
}

func (s *plSys) take(key string) {
	now := vrt.Elapsed()
	k := s.keys[key]
	if k == nil || now >= k.expires {
		window := time.Duration(s.period) * time.Second
		if s.align {
			t := vrt.Now()
			_, off := t.Zone()
			u := t.Unix() + int64(off)
			window = time.Duration(int64(s.period)-u%int64(s.period)) * time.Second
		}
		k = &plKey{expires: now + window}
		s.keys[key] = k
	}
	k.count++
	want := Allowed
	switch {
	case k.count == s.quota:
		want = HitQuota
	case k.count > s.quota:
		want = OverQuota
	}
	got, err := s.l.Take(key)
	if err != nil {
		s.r.Failf("Take(%s): %v", key, err)
		return
	}
	if got != want {
		s.r.Failf("Take(%s) at +%v: take #%d of its window returned %s, want %s (period %ds quota %d align %v)", key, now, k.count, plName(got), plName(want), s.period, s.quota, s.align)
	}
}

func plName(c int) string {
	return map[int]string{Unknown: "Unknown", Allowed: "Allowed", HitQuota: "HitQuota", OverQuota: "OverQuota"}[c]
}

func (s *plSys) apply(op string) {
	if strings.HasPrefix(op, "take:") {
		s.take(op[5:])
		return
	}
	if op == "newlimiter" {
		// another process (or a restart): a fresh limiter object over the same Redis state
		s.l = s.mk()
		return
	}
	var sec int
	fmt.Sscanf(op, "t%d", &sec)
	d := time.Duration(sec) * time.Second
	vrt.Advance(d)
	s.s.FastForward(d)
}

func (s *plSys) canon() string {
	now := vrt.Elapsed()
	var parts []string
	for k, v := range s.keys {
		if now < v.expires {
			c := v.count
			if c > s.quota+1 {
				c = s.quota + 1
			}
			parts = append(parts, fmt.Sprintf("%s:%d/%v", k, c, v.expires-now))
		}
	}
	sort.Strings(parts)
	phase := int64(0)
	if s.align {
		phase = vrt.Now().Unix() % int64(s.period)
	}
	return fmt.Sprintf("ph%d|%v|real=%s", phase, parts, realState(s.s))
}

func limSetup() {
	logx.Disable()
	stat.SetReporter(nil)
}

func TestVerifPeriodLimit(t *testing.T) {
	defer vrt.WriteReport()
	limSetup()
	type cfg struct {
		period, quota int
		align         bool
		zone          int
	}
	var cfgs []cfg
	for _, pq := range [][2]int{{1, 1}, {2, 1}, {2, 2}, {3, 3}, {5, 2}} {
		cfgs = append(cfgs, cfg{pq[0], pq[1], false, 0}, cfg{pq[0], pq[1], true, 0})
	}
	cfgs = append(cfgs, cfg{3, 2, true, 8 * 3600}, cfg{5, 2, true, 8*3600 + 1800})
	// zones whose offset is not a multiple of the period (east and west of UTC): the aligned
	// window edge then falls inside a UTC-aligned period
	cfgs = append(cfgs, cfg{7, 2, true, 8 * 3600}, cfg{7, 1, true, -5 * 3600}, cfg{7, 2, true, 5*3600 + 1800}, cfg{4, 1, true, 3601})
	var mine []cfg
	for i, c := range cfgs {
		if vrt.Shard(i) {
			mine = append(mine, c)
		}
	}
	for i, c := range mine {
		c := c
		depth := 2*c.quota + 3
		if vrt.Thorough() {
			depth += 2
		}
		ops := []string{"take:k1", "take:k2", "newlimiter", "t1", fmt.Sprintf("t%d", c.period)}
		if c.period > 2 {
			ops = append(ops, fmt.Sprintf("t%d", c.period-1))
		}
		ops = append(ops, fmt.Sprintf("t%d", c.period+1))
		name := fmt.Sprintf("periodlimit/period=%d/quota=%d/align=%v/zone=%d", c.period, c.quota, c.align, c.zone)
		vrt.BFS(vrt.Options{Name: name, Budget: vrt.FairBudget(len(mine) - i)}, depth, ops, func(r *vrt.Run, hist []string) vrt.Step {
			saved := vrt.Base
			if c.zone != 0 {
				vrt.Base = saved.In(time.FixedZone("Z", c.zone))
			}
			defer func() { vrt.Base = saved }()
			s := &plSys{r: r, s: freshServer(r), period: c.period, quota: c.quota, align: c.align, keys: map[string]*plKey{}}
			s.mk = func() *PeriodLimit {
				store := redis.New(s.s.Addr())
				if c.align {
					return NewPeriodLimit(c.period, c.quota, store, "pl:", Align())
				}
				return NewPeriodLimit(c.period, c.quota, store, "pl:")
			}
			s.l = s.mk()
			// start one second into a period so that aligned windows are shorter than the period
			vrt.Advance(time.Second)
			s.s.FastForward(time.Second)
			for _, op := range hist {
				s.apply(op)
				if r.Failed() {
					return vrt.Step{Canon: "failed"}
				}
			}
			return vrt.Step{Canon: s.canon()}
		})
	}
}

// healPool: after the server came back, the shared go-redis pool still holds dead
// connections; a few pings (each with retries) discard them so that "Redis answers again"
// is true for the very next command and executions do not influence each other.
func healPool(addr string) {
	c := redis.New(addr)
	for i := 0; i < 8; i++ {
		c.Ping()
	}
}

// ---------------------------------------------------------------------------------------
// token limiter

type bucket struct {
	level float64
	last  float64 // seconds
	used  bool
}

func (b *bucket) take(now float64, n, rate, burst int) bool {
	if !b.used {
		b.level, b.last, b.used = float64(burst), now, true
	}
	delta := now - b.last
	if delta < 0 {
		delta = 0
	}
	b.level += delta * float64(rate)
	if b.level > float64(burst) {
		b.level = float64(burst)
	}
	if now > b.last {
		// a request stamped earlier than one already seen (a straggler among concurrent
		// callers) neither refills nor moves the bucket's clock back: otherwise the seconds
		// in between would be refilled a second time
		b.last = now
	}
	if b.level >= float64(n) {
		b.level -= float64(n)
		return true
	}
	return false
}

type tlSys struct {
	r             *vrt.Run
	s             *miniredis.Miniredis
	l             *TokenLimiter
	rate          int
	burst         int
	skew          time.Duration // the caller's clock relative to the process clock (the limiter must count on the caller's)
	redisB        bucket        // the bucket kept in Redis
	rescueB       bucket        // the in-process bucket
	up            bool
	rescueMode    bool // the limiter believes Redis is down
	admitted      []float64
	maxSeen       float64
	evals         int
	evalsInRescue bool
	everRescue    bool
}

func (s *tlSys) allow(n int) { s.allowAt(n, 0) }

// allowAt: a request for n tokens whose caller read its clock `late` ago (concurrent callers
// straddling a second boundary reach Redis out of order)
func (s *tlSys) allowAt(n int, late time.Duration) {
	callerNow := vrt.Now().Add(s.skew).Add(-late)
	now := float64(callerNow.Unix())
	nowFrac := float64(callerNow.UnixNano()) / 1e9 // the in-process bucket refills continuously
	var want bool
	usedRescue := false
	switch {
	case s.rescueMode:
		want, usedRescue = s.rescueB.take(nowFrac, n, s.rate, s.burst), true
	case !s.up:
		// first call that finds Redis unreachable: falls back and starts monitoring
		s.rescueMode, s.everRescue = true, true
		want, usedRescue = s.rescueB.take(nowFrac, n, s.rate, s.burst), true
	default:
		want = s.redisB.take(now, n, s.rate, s.burst)
	}
	before := s.s.CommandCount()
	got := s.l.AllowN(callerNow, n)
	hitRedis := s.s.CommandCount() > before
	if got != want {
		s.r.Failf("AllowN(n=%d) at unix %v: granted=%v, reference bucket says %v (rate %d burst %d, redis up=%v, in-process mode=%v)", n, now, got, want, s.rate, s.burst, s.up, usedRescue)
	}
	if usedRescue && hitRedis && s.evalsInRescue {
		s.r.Failf("limiter is in rescue mode but the call still went to Redis")
	}
	if usedRescue {
		s.evalsInRescue = true // the call that discovers the outage does reach (failing) Redis
	} else {
		s.evalsInRescue = false
	}
	if !usedRescue && !hitRedis {
		s.r.Logf("before=%d after=%d up=%v", before, s.s.CommandCount(), s.up)
		s.r.Failf("Redis is reachable and the limiter not in rescue mode, but the call did not reach Redis")
	}
	if got {
		// (a straggler is counted at the latest second already seen: it was admitted no
		// earlier than that)
		at := now
		if len(s.admitted) > 0 && s.admitted[len(s.admitted)-1] > at {
			at = s.admitted[len(s.admitted)-1]
		}
		if s.maxSeen > at {
			at = s.maxSeen
		}
		for i := 0; i < n; i++ {
			s.admitted = append(s.admitted, at)
		}
	}
	if now > s.maxSeen {
		s.maxSeen = now
	}
	// window invariant while a single bucket is in charge: admitted in [a, b] <= burst + rate*(b-a)
	if !s.everRescue {
		for i := range s.admitted {
			cnt := 0
			for j := i; j < len(s.admitted); j++ {
				cnt++
				if span := s.admitted[j] - s.admitted[i]; float64(cnt) > float64(s.burst)+float64(s.rate)*span {
					s.r.Failf("%d events admitted within %v s, more than burst %d + rate %d x span", cnt, span, s.burst, s.rate)
					return
				}
			}
		}
	}
}

func (s *tlSys) apply(op string) bool {
	switch {
	case strings.HasPrefix(op, "late:"):
		// (only while the Redis bucket is in charge: what the in-process bucket - an
		// x/time/rate limiter - makes of a time stamp earlier than its last event is that
		// library's own, lazily evaluated semantics and not claimed here)
		if s.rescueMode || !s.up || s.everRescue {
			return false
		}
		var n int
		fmt.Sscanf(op, "late:%d", &n)
		s.allowAt(n, time.Second)
		vrt.Settle()
	case strings.HasPrefix(op, "allow:"):
		var n int
		fmt.Sscanf(op, "allow:%d", &n)
		s.allow(n)
		vrt.Settle() // lets a freshly started monitor goroutine create its ticker now
	case op == "down":
		if !s.up {
			return false
		}
		// outage: every command fails (a stopped TCP server would push go-redis into its
		// cached-dial-error mode, which only real seconds cure; the limiter's code path is the same)
		s.s.SetError("ERR verif outage")
		s.up = false
	case op == "up":
		if s.up {
			return false
		}
		s.s.SetError("")
		s.up = true
	case op == "newlimiter":
		// another process (or a restart): a fresh limiter object over the same Redis state
		s.l = NewTokenLimiter(s.rate, s.burst, redis.New(s.s.Addr()), "tl")
		s.rescueMode, s.rescueB, s.evalsInRescue = false, bucket{}, false
		if !s.up {
			s.everRescue = true
		}
	case op == "monitor":
		// one monitor period passes (100 ms): the background ping may find Redis again
		if !s.rescueMode {
			return false
		}
		vrt.AdvanceSettle(100 * time.Millisecond)
		s.s.FastForward(100 * time.Millisecond)
		if s.up {
			s.rescueMode = false
		}
	default:
		var sec int
		fmt.Sscanf(op, "t%d", &sec)
		d := time.Duration(sec) * time.Second
		if strings.HasPrefix(op, "ms") {
			// the caller's clock has a sub-second part: Redis time is counted in whole seconds of it
			var ms int
			fmt.Sscanf(op, "ms%d", &ms)
			d, sec = time.Duration(ms)*time.Millisecond, 1
		}
		vrt.Advance(d)
		s.s.FastForward(d)
		vrt.Settle()
		if s.rescueMode && s.up && sec > 0 {
			s.rescueMode = false // the monitor ticked during the advance
		}
	}
	return true
}

func (s *tlSys) canon() string {
	now := float64(vrt.Now().Unix())
	f := func(b bucket) string {
		if !b.used {
			return "new"
		}
		if b.last != float64(int64(b.last)) {
			now = float64(vrt.Now().UnixNano()) / 1e9
		}
		lvl := b.level + (now-b.last)*float64(s.rate)
		if lvl > float64(s.burst) {
			lvl = float64(s.burst)
		}
		return fmt.Sprintf("%.1f", lvl)
	}
	return fmt.Sprintf("redis=%s|rescue=%s|up=%v|mode=%v|sub=%v", f(s.redisB), f(s.rescueB), s.up, s.rescueMode, vrt.Elapsed()%time.Second) + "|real=" + realState(s.s)
}

func TestVerifTokenLimit(t *testing.T) {
	defer vrt.WriteReport()
	limSetup()
	type cfg struct {
		rate, burst int
		skew        time.Duration
	}
	cfgs := []cfg{{1, 1, 0}, {1, 2, 0}, {2, 2, 0}, {2, 3, 0}, {3, 5, 0}, {4, 2, 0}, {1, 2, -time.Hour}, {2, 3, time.Hour}, {3, 5, -time.Hour}}
	var mine []cfg
	for i, c := range cfgs {
		if vrt.Shard(i + 12) {
			mine = append(mine, c)
		}
	}
	for i, c := range mine {
		c := c
		depth := 6
		if vrt.Thorough() {
			depth = 8
		}
		ttl := c.burst * 2 / c.rate
		ops := []string{"allow:1", "allow:2", "late:1", fmt.Sprintf("allow:%d", c.burst), fmt.Sprintf("allow:%d", c.burst+1), "t0", "ms600", "t1", "t2", fmt.Sprintf("t%d", ttl), fmt.Sprintf("t%d", ttl+1), "down", "up", "monitor", "newlimiter"}
		vrt.BFS(vrt.Options{Name: fmt.Sprintf("tokenlimit/rate=%d/burst=%d/callerclock=%+v", c.rate, c.burst, c.skew), Budget: vrt.FairBudget(len(mine) - i)}, depth, ops, func(r *vrt.Run, hist []string) vrt.Step {
			// the per-address breaker must never shed calls here (C01/C12 cover it)
			vrt.SetRandHook(func() (int64, bool) { return vrt.FloatDraw(1 - 1.0/(1<<53)), true })
			s := &tlSys{r: r, s: freshServer(r), rate: c.rate, burst: c.burst, skew: c.skew, up: true}
			r.Cleanup(func() {
				s.s.SetError("")
			})
			s.l = NewTokenLimiter(c.rate, c.burst, redis.New(s.s.Addr()), "tl")
			for _, op := range hist {
				if op == "t0" {
					continue
				}
				if !s.apply(op) {
					return vrt.Step{}
				}
				if r.Failed() {
					return vrt.Step{Canon: "failed"}
				}
			}
			return vrt.Step{Canon: s.canon()}
		})
	}
}

// Denied requests are not failures of Redis: with the per-address breaker at its most
// sensitive (its draw pinned low: it sheds as soon as its drop ratio is positive at all) and
// Redis healthy throughout, any run of denied requests must leave the limiter on Redis and
// the bucket arithmetic exact.
func TestVerifTokenLimitDeniedIsNotFailure(t *testing.T) {
	defer vrt.WriteReport()
	limSetup()
	if !vrt.Shard(9) {
		return
	}
	for _, c := range []struct{ rate, burst int }{{1, 2}, {2, 3}} {
		c := c
		ops := []string{"allow:1", fmt.Sprintf("allow:%d", c.burst), "deny10", "t1"}
		vrt.BFS(vrt.Options{Name: fmt.Sprintf("tokenlimit/denied-is-not-failure/rate=%d/burst=%d", c.rate, c.burst), Budget: vrt.FairBudget(2)}, 5, ops, func(r *vrt.Run, hist []string) vrt.Step {
			vrt.SetRandHook(func() (int64, bool) { return 0, true })
			s := &tlSys{r: r, s: freshServer(r), rate: c.rate, burst: c.burst, up: true}
			s.l = NewTokenLimiter(c.rate, c.burst, redis.New(s.s.Addr()), "tl")
			for _, op := range hist {
				if op == "deny10" {
					for i := 0; i < 10 && !r.Failed(); i++ {
						s.allow(c.burst + 1)
					}
				} else if !s.apply(op) {
					return vrt.Step{}
				}
				if r.Failed() {
					return vrt.Step{Canon: "failed"}
				}
			}
			return vrt.Step{Canon: s.canon()}
		})
	}
}

// one real outage (stopped TCP server): the limiter must fall back, and go back to Redis
// after the server returns (go-redis needs up to a real second to forget its cached dial error)
func TestVerifTokenLimitRealOutage(t *testing.T) {
	defer vrt.WriteReport()
	limSetup()
	if !vrt.Shard(11) {
		return
	}
	c := vrt.NewCases("tokenlimit/real-outage-smoke")
	vrt.RunOnce(vrt.Options{Name: "real-outage"}, func(r *vrt.Run) {
		vrt.SetRandHook(func() (int64, bool) { return vrt.FloatDraw(1 - 1.0/(1<<53)), true })
		s, err := miniredis.Run()
		if err != nil {
			vrt.InfraError("miniredis: %v", err)
		}
		defer s.Close()
		l := NewTokenLimiter(1, 2, redis.New(s.Addr()), "real")
		step := func(name string, want bool) {
			got := l.AllowN(vrt.Now(), 1)
			c.Eval(name, func() any { return map[string]any{"step": name, "granted": got} })
			if got != want {
				c.Violation(name, "real outage", fmt.Sprintf("%s: granted=%v want %v", name, got, want))
			}
		}
		step("redis-1", true)
		step("redis-2", true)
		step("redis-3-empty", false)
		s.Close()
		step("outage-rescue-1", true) // in-process bucket starts full
		step("outage-rescue-2", true)
		step("outage-rescue-3-empty", false)
		if err := s.Restart(); err != nil {
			vrt.InfraError("restart: %v", err)
		}
		ok := false
		for i := 0; i < 40 && !ok; i++ {
			vrt.RealSleep(100 * time.Millisecond) // go-redis retries its dial on the wall clock
			vrt.AdvanceSettle(100 * time.Millisecond)
			ok = redis.New(s.Addr()).Ping()
		}
		vrt.AdvanceSettle(200 * time.Millisecond)
		before := s.CommandCount()
		l.AllowN(vrt.Now(), 1)
		if s.CommandCount() == before {
			c.Violation("after-recovery", "real outage", "Redis answers again and a monitor period has passed, but the limiter still does not consult it")
		}
		c.Eval("after-recovery", func() any { return "limiter consults Redis again" })
	})
	c.Done()
}

// Concurrent callers: every interleaving of the client-side code around the (atomic) Redis
// scripts, including two callers discovering an outage at the same time.
func TestVerifLimitersConcurrent(t *testing.T) {
	defer vrt.WriteReport()
	limSetup()
	bound := 2
	if vrt.Thorough() {
		bound = 3
	}
	if vrt.Shard(5) {
		limRecoveryRace(bound)
	}
	if !vrt.Shard(10) {
		return
	}
	// period limiter: quota 2, three concurrent takes of one key: exactly one Allowed, one
	// HitQuota, one OverQuota, whatever the order
	vrt.Explore(vrt.Options{Name: "periodlimit/concurrent/quota=2/3-callers", Bound: bound, Horizon: 1 << 30, Budget: vrt.FairBudget(3)}, func(r *vrt.Run) {
		s := freshServer(r)
		l := NewPeriodLimit(5, 2, redis.New(s.Addr()), "pl:")
		var wg sync.WaitGroup
		var mu sync.Mutex
		got := map[int]int{}
		for i := 0; i < 3; i++ {
			wg.Add(1)
			go func() {
				defer wg.Done()
				c, err := l.Take("k")
				if err != nil {
					r.Failf("Take: %v", err)
					return
				}
				mu.Lock()
				got[c]++
				mu.Unlock()
			}()
		}
		wg.Wait()
		vrt.Obs()
		r.Outcome("%v", got)
		if got[Allowed] != 1 || got[HitQuota] != 1 || got[OverQuota] != 1 {
			r.Failf("three concurrent takes with quota 2: %d Allowed, %d HitQuota, %d OverQuota, want one of each", got[Allowed], got[HitQuota], got[OverQuota])
		}
	})
	// token limiter: burst 2, three concurrent single-token requests in one second: two granted
	for _, outage := range []bool{false, true} {
		outage := outage
		vrt.Explore(vrt.Options{Name: fmt.Sprintf("tokenlimit/concurrent/burst=2/3-callers/outage=%v", outage), Bound: bound, Horizon: 1 << 30, Budget: vrt.FairBudget(3)}, func(r *vrt.Run) {
			vrt.SetRandHook(func() (int64, bool) { return vrt.FloatDraw(1 - 1.0/(1<<53)), true })
			s := freshServer(r)
			r.Cleanup(func() { s.SetError("") })
			l := NewTokenLimiter(1, 2, redis.New(s.Addr()), "tl")
			if outage {
				s.SetError("ERR verif outage")
			}
			now := vrt.Now()
			var wg sync.WaitGroup
			var mu sync.Mutex
			granted := 0
			for i := 0; i < 3; i++ {
				wg.Add(1)
				go func() {
					defer wg.Done()
					if l.AllowN(now, 1) {
						mu.Lock()
						granted++
						mu.Unlock()
					}
				}()
			}
			wg.Wait()
			vrt.Settle()
			vrt.Obs()
			r.Outcome("granted=%d", granted)
			if granted != 2 {
				r.Failf("three concurrent requests for one token, burst 2 (Redis failing: %v): %d granted, want 2", outage, granted)
			}
		})
	}
}

func limRecoveryRace(bound int) {
	// outage noticed by two callers while Redis comes back and the monitor finds it again:
	// whatever the interleaving, once Redis has answered for a few monitor periods the
	// limiter is back on Redis
	vrt.Explore(vrt.Options{Name: "tokenlimit/concurrent/recovery-vs-late-failure", Bound: bound, Horizon: 1 << 30, Budget: vrt.FairBudget(1), Prune: true}, func(r *vrt.Run) {
		vrt.SetRandHook(func() (int64, bool) { return vrt.FloatDraw(1 - 1.0/(1<<53)), true })
		s := freshServer(r)
		r.Cleanup(func() { s.SetError("") })
		l := NewTokenLimiter(1, 4, redis.New(s.Addr()), "tl")
		s.SetError("ERR verif outage")
		now := vrt.Now()
		var wg sync.WaitGroup
		for i := 0; i < 2; i++ {
			wg.Add(1)
			go func() {
				defer wg.Done()
				l.AllowN(now, 1)
			}()
		}
		wg.Add(1)
		go func() {
			defer wg.Done()
			s.SetError("")
			vrt.Advance(pingInterval)
		}()
		wg.Wait()
		vrt.Settle()
		for i := 0; i < 3; i++ {
			vrt.AdvanceSettle(pingInterval)
		}
		before := s.CommandCount()
		l.AllowN(vrt.Now(), 1)
		reached := s.CommandCount() > before
		r.Outcome("back-on-redis=%v", reached)
		if !reached {
			r.Failf("Redis has been answering for %v (several monitor periods) but the limiter still decides in process: it never went back to Redis", 4*pingInterval)
		}
	})
}
