package collection

import (
	"errors"
	"fmt"
	"math"
	"sort"
	"strings"
	"sync"
	"testing"
	"time"

	vrt "github.com/gotid/god"
	"github.com/gotid/god/lib/logx"
)

type ccEntry struct {
	val    string
	setAt  int // tick of the last Set
	expire int // seconds
}

type ccSys struct {
	r      *vrt.Run
	c      *Cache
	limit  int
	expire int
	T      int
	m      map[string]*ccEntry
	lru    []string // most recent first (only when limit > 0)
	draw   float64
	n      int
	// a fetch has panicked in this history: the single-flight group inside the cache is not
	// visible from here, so such histories are kept apart from the ones without a panic
	panicked bool
}

func newCcSys(r *vrt.Run, limit, expire, phase int) *ccSys {
	s := &ccSys{r: r, limit: limit, expire: expire, m: map[string]*ccEntry{}}
	vrt.SetRandHook(func() (int64, bool) { return vrt.FloatDraw(s.draw), true })
	c, err := NewCache(time.Duration(expire)*time.Second, WithLimit(limit))
	if err != nil {
		r.Failf("NewCache: %v", err)
	}
	s.c = c
	vrt.Settle()
	// start the wheel at the requested phase (its run loop is parked: in-package write)
	c.timingWheel.tickedPos = (c.timingWheel.numSlots - 1 + phase) % c.timingWheel.numSlots
	s.T = phase
	return s
}

func (s *ccSys) touch(k string) {
	if s.limit <= 0 {
		return
	}
	for i, x := range s.lru {
		if x == k {
			s.lru = append(s.lru[:i], s.lru[i+1:]...)
			break
		}
	}
	s.lru = append([]string{k}, s.lru...)
}

func (s *ccSys) drop(k string) {
	delete(s.m, k)
	for i, x := range s.lru {
		if x == k {
			s.lru = append(s.lru[:i], s.lru[i+1:]...)
			break
		}
	}
}

func (s *ccSys) modelSet(k, v string, e int) {
	_, had := s.m[k]
	s.m[k] = &ccEntry{val: v, setAt: s.T, expire: e}
	s.touch(k)
	if !had && s.limit > 0 && len(s.lru) > s.limit {
		victim := s.lru[len(s.lru)-1]
		s.drop(victim)
	}
}

// window of ticks-since-set in which an entry may legitimately disappear
func ccWindow(e int) (lo, hi int) {
	lo = int(math.Floor(0.95 * float64(e)))
	hi = int(math.Ceil(1.05*float64(e))) + 1
	return
}

// reconcile model and implementation after time moved.
func (s *ccSys) reconcile(op string) {
	s.c.lock.Lock()
	impl := map[string]any{}
	for k, v := range s.c.data {
		impl[k] = v
	}
	s.c.lock.Unlock()
	for k, e := range s.m {
		age := s.T - e.setAt
		lo, hi := ccWindow(e.expire)
		_, present := impl[k]
		switch {
		case age < lo && !present:
			s.r.Failf("after %s: key %s (expire %ds, set %d ticks ago) is gone before 95%% of its expiry", op, k, e.expire, age)
			s.drop(k)
		case age > hi && present:
			s.r.Failf("after %s: key %s (expire %ds, set %d ticks ago) is still cached after 105%% of its expiry (+1 tick)", op, k, e.expire, age)
		case !present:
			s.drop(k) // expired inside its window
		}
	}
	for k := range impl {
		if _, ok := s.m[k]; !ok {
			s.r.Failf("after %s: cache holds %s which the reference does not (deleted, evicted or expired)", op, k)
		}
	}
	if s.limit > 0 && len(impl) > s.limit {
		s.r.Failf("after %s: cache holds %d entries, limit %d", op, len(impl), s.limit)
	}
}

// justSet: an entry is dropped for age by a tick of the wheel, never between ticks - right
// after a Set (no tick since) the key is there with the value just set, however short the
// (jittered) expiry is compared with the one-second tick.
func (s *ccSys) justSet(op, k, v string) {
	vrt.Settle()
	s.c.lock.Lock()
	got, ok := s.c.data[k]
	s.c.lock.Unlock()
	if !ok || got != v {
		s.r.Failf("after %s: key %s just set to %s (no tick since) reads %v,%v: dropped at 0%% of its expiry", op, k, v, got, ok)
	}
}

func (s *ccSys) apply(op string) {
	f := strings.Split(op, ":")
	s.n++
	switch f[0] {
	case "set":
		v := fmt.Sprintf("v%d", s.n)
		s.c.Set(f[1], v)
		s.modelSet(f[1], v, s.expire)
		s.justSet(op, f[1], v)
	case "setx":
		var e int
		fmt.Sscan(f[2], &e)
		v := fmt.Sprintf("v%d", s.n)
		s.c.SetWithExpire(f[1], v, time.Duration(e)*time.Second)
		s.modelSet(f[1], v, e)
		s.justSet(op, f[1], v)
	case "get":
		got, ok := s.c.Get(f[1])
		e, want := s.m[f[1]]
		if ok != want || (ok && got != e.val) {
			wv := "<absent>"
			if want {
				wv = e.val
			}
			s.r.Failf("Get(%s) = %v,%v; reference has %s", f[1], got, ok, wv)
		}
		if want {
			s.touch(f[1])
		}
	case "del":
		s.c.Del(f[1])
		s.drop(f[1])
	case "delset":
		// invalidate and repopulate in one step: the new entry has its own, fresh life time
		s.c.Del(f[1])
		s.drop(f[1])
		v := fmt.Sprintf("v%d", s.n)
		s.c.Set(f[1], v)
		s.modelSet(f[1], v, s.expire)
	case "take":
		calls := 0
		fetchErr := errors.New("fetch failed")
		v := fmt.Sprintf("f%d", s.n)
		var got any
		var err error
		var pan any
		func() {
			defer func() { pan = recover() }()
			got, err = s.c.Take(f[1], func() (any, error) {
				calls++
				if f[2] == "err" {
					return nil, fetchErr
				}
				if f[2] == "panic" {
					panic("fetch panic")
				}
				return v, nil
			})
		}()
		if f[2] == "panic" {
			s.panicked = true
			// a fetch that panics: the panic reaches the caller, nothing is cached, and the
			// cache stays usable (the next take of the key fetches afresh)
			if _, ok := s.m[f[1]]; ok {
				if calls != 0 || pan != nil {
					s.r.Failf("Take(%s) on a cached key ran the fetch (%d calls, panic %v)", f[1], calls, pan)
				}
				s.touch(f[1])
			} else if calls != 1 || pan == nil {
				s.r.Failf("Take(%s) with a panicking fetch: fetch calls=%d, panic seen by the caller: %v", f[1], calls, pan)
			}
			break
		}
		if pan != nil {
			s.r.Failf("Take(%s) panicked: %v", f[1], pan)
			break
		}
		if e, ok := s.m[f[1]]; ok {
			if calls != 0 || err != nil || got != e.val {
				s.r.Failf("Take(%s) on a cached key: fetch calls=%d result=%v,%v want cached %s", f[1], calls, got, err, e.val)
			}
			s.touch(f[1])
		} else {
			if calls != 1 {
				s.r.Failf("Take(%s) on an uncached key ran fetch %d times", f[1], calls)
			}
			if f[2] == "err" {
				if err != fetchErr {
					s.r.Failf("Take(%s) with failing fetch returned %v,%v", f[1], got, err)
				}
			} else {
				if err != nil || got != v {
					s.r.Failf("Take(%s) returned %v,%v want %s", f[1], got, err, v)
				}
				s.modelSet(f[1], v, s.expire)
			}
		}
	case "setchk":
		// macro: re-set the key and let more than 105% of its expiry pass
		s.apply("set:" + f[1])
		_, hi := ccWindow(s.expire)
		s.apply(fmt.Sprintf("t:%d", hi+1))
		return
	case "draw":
		if f[1] == "lo" {
			s.draw = 0
		} else {
			s.draw = 1 - 1.0/(1<<53)
		}
	case "t":
		var n int
		fmt.Sscan(f[1], &n)
		for i := 0; i < n; i++ {
			vrt.AdvanceSettle(time.Second)
			s.T++
			if n <= 12 || i%7 == 0 || i == n-1 {
				s.reconcile(fmt.Sprintf("%s (tick %d)", op, i+1))
			}
		}
	}
	vrt.Settle()
	s.reconcile(op)
	// eviction order: the implementation's LRU list must equal the reference's
	if kl, ok := s.c.lruCache.(*keyLru); ok {
		var got []string
		for e := kl.evicts.Front(); e != nil; e = e.Next() {
			got = append(got, e.Value.(string))
		}
		if fmt.Sprint(got) != fmt.Sprint(s.lru) {
			s.r.Failf("after %s: LRU order %v, reference %v", op, got, s.lru)
		}
	}
}

func (s *ccSys) canon() string {
	var parts []string
	for k, e := range s.m {
		parts = append(parts, fmt.Sprintf("%s:%d/%d", k, s.T-e.setAt, e.expire))
	}
	sort.Strings(parts)
	// the real cache: stored keys, LRU order, and the expiry wheel's live timers
	var data, lru, timers []string
	for k := range s.c.data {
		data = append(data, k)
	}
	sort.Strings(data)
	if kl, ok := s.c.lruCache.(*keyLru); ok {
		for e := kl.evicts.Front(); e != nil; e = e.Next() {
			lru = append(lru, fmt.Sprint(e.Value))
		}
	}
	w := s.c.timingWheel
	w.timers.Range(func(k, v any) bool {
		pe := v.(*positionEntry)
		if !pe.item.removed {
			timers = append(timers, fmt.Sprintf("%v@%d/c%d/d%d", k, (pe.pos-w.tickedPos-1+2*w.numSlots)%w.numSlots, pe.item.circle, pe.item.diff))
		}
		return true
	})
	sort.Strings(timers)
	return fmt.Sprintf("ph%d|draw%g|%v|lru%v|real=%v/%v/%v|panicked=%v", s.T%slots, s.draw, parts, s.lru, data, lru, timers, s.panicked)
}

func TestVerifCacheHistories(t *testing.T) {
	defer vrt.WriteReport()
	logx.Disable()
	type cfg struct{ limit, expire, phase int }
	var cfgs []cfg
	for _, le := range [][2]int{{0, 3}, {1, 3}, {2, 10}, {2, 3}} {
		for _, ph := range []int{0, 150, 295, 299} {
			cfgs = append(cfgs, cfg{le[0], le[1], ph})
		}
	}
	// an expiry of one second: with the low jitter draw it is shorter than the wheel's tick
	cfgs = append(cfgs, cfg{0, 1, 0}, cfg{2, 1, 299})
	depth := 3
	if vrt.Thorough() {
		depth = 5
	}
	for i, c := range cfgs {
		if !vrt.Shard(i) {
			continue
		}
		c := c
		lo, hi := ccWindow(c.expire)
		ops := []string{"set:a", "set:b", "set:c", "setchk:a", "setx:a:2", "setx:a:200", "setx:a:310", "get:a", "get:b", "get:c", "del:a", "del:b", "delset:a",
			"take:a:ok", "take:a:err", "take:a:panic", "take:b:ok", "draw:lo", "draw:hi", "t:1", fmt.Sprintf("t:%d", lo-1), fmt.Sprintf("t:%d", hi+1), "t:205", "t:320"}
		vrt.BFS(vrt.Options{Name: fmt.Sprintf("cache/limit=%d/expire=%ds/phase=%d", c.limit, c.expire, c.phase), Budget: vrt.FairBudget(1)}, depth, ops, func(r *vrt.Run, hist []string) vrt.Step {
			s := newCcSys(r, c.limit, c.expire, c.phase)
			for _, op := range hist {
				if op == "t:0" {
					return vrt.Step{}
				}
				s.apply(op)
				if r.Failed() {
					return vrt.Step{Canon: "failed"}
				}
			}
			return vrt.Step{Canon: s.canon()}
		})
	}
}

// Deeper histories over a narrow alphabet (two keys, re-sets, the time steps around the expiry
// window): several keys queued in one wheel slot, one of them re-set later - the others must
// still be dropped at their own time.
func TestVerifCacheNarrowDeep(t *testing.T) {
	defer vrt.WriteReport()
	logx.Disable()
	type cfg struct{ limit, expire, phase int }
	cfgs := []cfg{{0, 3, 0}, {0, 3, 150}, {0, 3, 298}, {0, 10, 0}}
	depth := 6
	if vrt.Thorough() {
		depth = 8
	}
	for i, c := range cfgs {
		if !vrt.Shard(i + 21) {
			continue
		}
		c := c
		lo, hi := ccWindow(c.expire)
		ops := []string{"set:a", "set:b", "set:c", "get:b", "t:1", fmt.Sprintf("t:%d", lo-1), fmt.Sprintf("t:%d", hi+1)}
		vrt.BFS(vrt.Options{Name: fmt.Sprintf("cache/narrow/limit=%d/expire=%ds/phase=%d", c.limit, c.expire, c.phase), Budget: vrt.FairBudget(1)}, depth, ops, func(r *vrt.Run, hist []string) vrt.Step {
			s := newCcSys(r, c.limit, c.expire, c.phase)
			for _, op := range hist {
				if op == "t:0" {
					return vrt.Step{}
				}
				s.apply(op)
				if r.Failed() {
					return vrt.Step{Canon: "failed"}
				}
			}
			return vrt.Step{Canon: s.canon()}
		})
	}
}

// concurrent Take callers of one key: at most one fetch among overlapping callers, all
// get its result, cached only on success.
func TestVerifCacheTake(t *testing.T) {
	defer vrt.WriteReport()
	logx.Disable()
	bound := 2
	if vrt.Thorough() {
		bound = 3
	}
	type sc struct {
		name    string
		takers  int
		fetchOK bool
		extra   string
	}
	scs := []sc{{"2takers/ok", 2, true, ""}, {"2takers/err", 2, false, ""}, {"3takers/ok", 3, true, ""}, {"2takers/ok+set", 2, true, "set"}, {"2takers/ok+del", 2, true, "del"}}
	for i, x := range scs {
		if !vrt.Shard(i + 16) {
			continue
		}
		x := x
		b := bound
		if x.takers > 2 || x.extra != "" {
			b = bound - 1
		}
		vrt.Explore(vrt.Options{Name: "cache/take/" + x.name, Bound: b, Prune: true, Budget: vrt.FairBudget(1)}, func(r *vrt.Run) {
			c, _ := NewCache(10 * time.Second)
			seq := 0
			tick := func() int { vrt.Obs(); seq++; return seq }
			type rec struct {
				start, end       int
				val              any
				err              error
				fetched          bool
				fStart, fEnd     int
			}
			recs := make([]*rec, x.takers)
			fetchErr := errors.New("boom")
			var wg sync.WaitGroup
			for i := 0; i < x.takers; i++ {
				i := i
				recs[i] = &rec{}
				wg.Add(1)
				go func() {
					defer wg.Done()
					rc := recs[i]
					rc.start = tick()
					rc.val, rc.err = c.Take("k", func() (any, error) {
						rc.fetched = true
						rc.fStart = tick()
						vrt.Yield()
						rc.fEnd = tick()
						if !x.fetchOK {
							return nil, fetchErr
						}
						return fmt.Sprintf("f%d", i), nil
					})
					rc.end = tick()
				}()
			}
			if x.extra != "" {
				wg.Add(1)
				go func() {
					defer wg.Done()
					tick()
					if x.extra == "set" {
						c.Set("k", "direct")
					} else {
						c.Del("k")
					}
				}()
			}
			wg.Wait()
			vrt.Settle()
			nf := 0
			var out []string
			for i, rc := range recs {
				if rc.fetched {
					nf++
				}
				out = append(out, fmt.Sprintf("%d:%v/%v/f=%v", i, rc.val, rc.err, rc.fetched))
				for j, o := range recs {
					if i < j && rc.fetched && o.fetched && rc.fStart < o.fEnd && o.fStart < rc.fEnd {
						r.Failf("fetch ran twice at the same time for one key (callers %d and %d)", i, j)
					}
				}
				if x.fetchOK {
					if rc.err != nil {
						r.Failf("caller %d got error %v although every fetch succeeds", i, rc.err)
					}
					ok := rc.val == "direct" && x.extra == "set"
					for j, o := range recs {
						if o.fetched && rc.val == fmt.Sprintf("f%d", j) {
							ok = true
						}
					}
					if !ok {
						r.Failf("caller %d got %v which no fetch produced", i, rc.val)
					}
				} else if rc.err != fetchErr || rc.val != nil {
					r.Failf("caller %d got %v,%v although every fetch fails", i, rc.val, rc.err)
				}
			}
			got, cached := c.Get("k")
			if !x.fetchOK && cached && x.extra != "set" {
				r.Failf("failed fetch was cached: %v", got)
			}
			if x.fetchOK && x.extra == "" {
				if !cached {
					r.Failf("successful fetch was not cached")
				}
				if nf != 1 {
					// all callers overlap the first fetch or find the cached value afterwards
					r.Failf("%d fetches for %d Take callers of an initially empty key with no invalidation", nf, x.takers)
				}
			}
			sort.Strings(out)
			r.Outcome("%v cached=%v", out, cached)
		})
	}
}

// A bounded cache under concurrent use of different keys: whatever the interleaving, the
// cache never holds more than its limit, its LRU bookkeeping lists exactly the stored keys
// (no phantom slots, no stored key without a slot), every call returns the right value, and
// afterwards the key used last by some call that finished is still there.
func TestVerifCacheBoundedConcurrent(t *testing.T) {
	defer vrt.WriteReport()
	logx.Disable()
	bound := 2
	if vrt.Thorough() {
		bound = 3
	}
	type sc struct {
		name  string
		limit int
		pre   []string
		ops   []string // one per thread: get:a take:b set:c del:a
	}
	scs := []sc{
		{"limit=1/hit-a+take-b", 1, []string{"a"}, []string{"take:a", "take:b"}},
		{"limit=1/get-a+set-b", 1, []string{"a"}, []string{"get:a", "set:b"}},
		{"limit=2/hit-a+take-c", 2, []string{"a", "b"}, []string{"take:a", "take:c"}},
		{"limit=2/get-a+get-b+set-c", 2, []string{"a", "b"}, []string{"get:a", "get:b", "set:c"}},
		{"limit=1/get-a+del-a+set-b", 1, []string{"a"}, []string{"get:a", "del:a", "set:b"}},
	}
	for i, x := range scs {
		if !vrt.Shard(30 + i) {
			continue
		}
		x := x
		vrt.Explore(vrt.Options{Name: "cache/bounded-concurrent/" + x.name, Bound: bound, Prune: true, Budget: vrt.FairBudget(1)}, func(r *vrt.Run) {
			c, _ := NewCache(time.Minute, WithLimit(x.limit))
			for _, k := range x.pre {
				c.Set(k, "v-"+k)
			}
			var wg sync.WaitGroup
			for _, op := range x.ops {
				op := op
				wg.Add(1)
				go func() {
					defer wg.Done()
					k := op[strings.Index(op, ":")+1:]
					switch op[:strings.Index(op, ":")] {
					case "get":
						if v, ok := c.Get(k); ok && v != "v-"+k {
							r.Failf("Get(%s) = %v", k, v)
						}
					case "take":
						v, err := c.Take(k, func() (any, error) { return "v-" + k, nil })
						if err != nil || v != "v-"+k {
							r.Failf("Take(%s) = %v, %v", k, v, err)
						}
					case "set":
						c.Set(k, "v-"+k)
					case "del":
						c.Del(k)
					}
				}()
			}
			wg.Wait()
			vrt.Settle()
			var data, lru []string
			for k := range c.data {
				data = append(data, k)
			}
			sort.Strings(data)
			if kl, ok := c.lruCache.(*keyLru); ok {
				for e := kl.evicts.Front(); e != nil; e = e.Next() {
					lru = append(lru, fmt.Sprint(e.Value))
				}
				if len(kl.elements) != kl.evicts.Len() {
					r.Failf("LRU index has %d entries, its list %d", len(kl.elements), kl.evicts.Len())
				}
			}
			sort.Strings(lru)
			r.Outcome("data=%v", data)
			if len(data) > x.limit {
				r.Failf("cache holds %d entries %v, the limit is %d", len(data), data, x.limit)
			}
			if fmt.Sprint(data) != fmt.Sprint(lru) {
				r.Failf("stored keys %v but LRU slots %v (phantom slot or unlisted entry)", data, lru)
			}
			// adding entries can only have happened through set/take of new keys: a cache that
			// ends up emptier than limit allows although nothing was deleted lost an entry
			deleted := false
			for _, op := range x.ops {
				if strings.HasPrefix(op, "del:") {
					deleted = true
				}
			}
			if !deleted && len(data) < x.limit {
				r.Failf("cache holds %d entries %v after only gets, takes and sets on a full cache of limit %d", len(data), data, x.limit)
			}
		})
	}
}

// A key is set again while the clock ticks through the expiry of its previous Set (the wheel
// hands expired keys to a goroutine of its own): whatever the interleaving, the value of the
// second Set is still there while less than 95% of its expiry has passed since, and it is
// gone (not kept for ever) after 105%.
func TestVerifCacheExpiryVsSet(t *testing.T) {
	defer vrt.WriteReport()
	logx.Disable()
	bound := 2
	if vrt.Thorough() {
		bound = 3
	}
	for i, second := range []string{"set", "del+set", "take"} {
		if !vrt.Shard(25 + i) {
			continue
		}
		second := second
		vrt.Explore(vrt.Options{Name: "cache/expiry-vs-" + second, Bound: bound, Prune: true, Budget: vrt.FairBudget(1)}, func(r *vrt.Run) {
			const expire = 3
			lo, hi := ccWindow(expire)
			vrt.SetRandHook(func() (int64, bool) { return vrt.FloatDraw(0.5), true })
			c, err := NewCache(expire * time.Second)
			if err != nil {
				r.Failf("NewCache: %v", err)
				return
			}
			vrt.Settle()
			c.Set("a", "v1")
			var setAt time.Duration
			var wg sync.WaitGroup
			wg.Add(2)
			go func() {
				defer wg.Done()
				for i := 0; i < hi; i++ {
					vrt.Advance(time.Second)
				}
			}()
			go func() {
				defer wg.Done()
				vrt.Obs()
				setAt = vrt.Elapsed()
				switch second {
				case "set":
					c.Set("a", "v2")
				case "del+set":
					c.Del("a")
					c.Set("a", "v2")
				case "take":
					// present: the hit refreshes nothing; absent: fetched and cached afresh
					if v, err := c.Take("a", func() (any, error) { return "v2", nil }); err != nil || (v != "v1" && v != "v2") {
						r.Failf("Take(a) = %v, %v", v, err)
					}
				}
			}()
			wg.Wait()
			vrt.Settle()
			age := int((vrt.Elapsed() - setAt) / time.Second)
			v, ok := c.Get("a")
			r.Outcome("set at +%v, %ds later: present=%v", setAt, age, ok)
			if second != "take" {
				if age < lo && (!ok || v != "v2") {
					r.Failf("key set (v2) at +%v is %v,%v only %d s later (expiry %d s): dropped before 95%% of its expiry", setAt, v, ok, age, expire)
				}
				if ok && v != "v2" {
					r.Failf("Get(a) = %v after the second Set(v2) completed", v)
				}
			}
			// and nothing stays for ever
			for i := 0; i < hi+1; i++ {
				vrt.AdvanceSettle(time.Second)
			}
			if v, ok := c.Get("a"); ok {
				r.Failf("key a (%v) is still cached %v after its last Set at +%v (expiry %d s): it never expires", v, vrt.Elapsed()-setAt, setAt, expire)
			}
		})
	}
}
