package conf

import (
	"fmt"
	"reflect"
	"strings"
	"testing"

	vrt "github.com/gotid/god"
)

type cfDB struct {
	HostName string
	Port     int `json:",default=3306"`
}

type cfConfig struct {
	UserName string
	MaxConns int `json:",default=3"`
	DbConf   cfDB
	Tags     []string `json:",optional"`
	Verbose  bool     `json:",optional"`
}

// spellings of a key: canonical, snake_case, first letter flipped
func spellings(canon, snake string) []string {
	flipped := strings.ToLower(canon[:1]) + canon[1:]
	if flipped == canon {
		flipped = strings.ToUpper(canon[:1]) + canon[1:]
	}
	return []string{canon, snake, flipped}
}

func TestVerifConfKeySpellings(t *testing.T) {
	defer vrt.WriteReport()
	if !vrt.Shard(5) {
		return
	}
	c := vrt.NewCases("conf/key-spellings-and-formats")
	var want cfConfig
	canonical := `{"UserName":"u","MaxConns":7,"DbConf":{"HostName":"h","Port":1},"Tags":["a","b"],"Verbose":true}`
	if err := LoadFromJsonBytes([]byte(canonical), &want); err != nil {
		c.Violation("canonical", "canonical", err.Error())
		c.Done()
		return
	}
	for _, un := range spellings("UserName", "user_name") {
		for _, mc := range spellings("MaxConns", "max_conns") {
			for _, db := range spellings("DbConf", "db_conf") {
				for _, hn := range spellings("HostName", "host_name") {
					for _, po := range spellings("Port", "port") {
						for _, tg := range spellings("Tags", "tags") {
							jsonDoc := fmt.Sprintf(`{%q:"u",%q:7,%q:{%q:"h",%q:1},%q:["a","b"],"verbose":true}`, un, mc, db, hn, po, tg)
							yamlDoc := fmt.Sprintf("%s: u\n%s: 7\n%s:\n  %s: h\n  %s: 1\n%s:\n  - a\n  - b\nverbose: true\n", un, mc, db, hn, po, tg)
							for _, f := range []struct {
								name string
								load func([]byte, any) error
								doc  string
							}{{"json", LoadFromJsonBytes, jsonDoc}, {"yaml", LoadFromYamlBytes, yamlDoc}} {
								var got cfConfig
								var err error
								var pan any
								func() {
									defer func() { pan = recover() }()
									err = f.load([]byte(f.doc), &got)
								}()
								nonCanon := 0
								for _, p := range [][2]string{{un, "UserName"}, {mc, "MaxConns"}, {db, "DbConf"}, {hn, "HostName"}, {po, "Port"}, {tg, "Tags"}} {
									if p[0] != p[1] {
										nonCanon++
									}
								}
								c.Eval(fmt.Sprintf("%s/respelled=%d", f.name, nonCanon), func() any { return map[string]any{"format": f.name, "doc": f.doc, "err": fmt.Sprint(err)} })
								in := fmt.Sprintf("format=%s doc=%s", f.name, strings.ReplaceAll(f.doc, "\n", "\\n"))
								if pan != nil {
									c.Violation(in, "panic", fmt.Sprint(pan))
								} else if err != nil {
									c.Violation(in, "respelled key rejected", err.Error())
								} else if !reflect.DeepEqual(got, want) {
									c.Violation(in, "respelled key differs", fmt.Sprintf("got %+v, canonical spelling gives %+v", got, want))
								}
							}
						}
					}
				}
			}
		}
	}
	// defaults and required fields through both formats
	for _, k := range []struct {
		json, yaml string
		wantErr    bool
	}{
		{`{"user_name":"u","db_conf":{"host_name":"h"}}`, "user_name: u\ndb_conf:\n  host_name: h\n", false},
		{`{"db_conf":{"host_name":"h"}}`, "db_conf:\n  host_name: h\n", true},
		{`{"user_name":"u"}`, "user_name: u\n", true},
		{`{"user_name":"u","db_conf":{"host_name":"h","port":70000}}`, "user_name: u\ndb_conf:\n  host_name: h\n  port: 70000\n", false},
	} {
		var a, b cfConfig
		ea := LoadFromJsonBytes([]byte(k.json), &a)
		eb := LoadFromYamlBytes([]byte(k.yaml), &b)
		c.Eval(fmt.Sprintf("defaults/err=%v", ea != nil), func() any {
			return map[string]any{"json": k.json, "json_err": fmt.Sprint(ea), "yaml_err": fmt.Sprint(eb)}
		})
		if (ea != nil) != k.wantErr || (eb != nil) != k.wantErr {
			c.Violation(k.json, "required/default", fmt.Sprintf("json err=%v yaml err=%v, want error=%v", ea, eb, k.wantErr))
		} else if ea == nil && !reflect.DeepEqual(a, b) {
			c.Violation(k.json, "json-vs-yaml", fmt.Sprintf("json %+v, yaml %+v", a, b))
		} else if ea == nil && (a.MaxConns != 3 && !strings.Contains(k.json, "max_conns") || a.DbConf.Port == 0) {
			c.Violation(k.json, "default", fmt.Sprintf("defaults not applied: %+v", a))
		}
	}
	c.Done()
}

// The same struct at every container position (plain, slices, maps, and their nestings up
// to three levels): a respelled key must load exactly like the canonical spelling.
type cfNested struct {
	Plain    cfDB                       `json:",optional"`
	Ptr      *cfDB                      `json:",optional"`
	List     []cfDB                     `json:",optional"`
	ByName   map[string]cfDB            `json:",optional"`
	Grid     [][]cfDB                   `json:",optional"`
	Cube     [][][]cfDB                 `json:",optional"`
	Lists    map[string][]cfDB          `json:",optional"`
	Grids    map[string][][]cfDB        `json:",optional"`
	Maps     []map[string]cfDB          `json:",optional"`
	MapLists []map[string][]cfDB        `json:",optional"`
	MapOfMap map[string]map[string]cfDB `json:",optional"`
}

func TestVerifConfNestedSpellings(t *testing.T) {
	defer vrt.WriteReport()
	if !vrt.Shard(6) {
		return
	}
	c := vrt.NewCases("conf/key-spellings-at-every-container-position")
	// position -> JSON wrapper around one object literal %s
	positions := []struct{ field, wrap string }{
		{"Plain", `%s`}, {"Ptr", `%s`}, {"List", `[%s]`}, {"ByName", `{"k":%s}`}, {"Grid", `[[%s]]`}, {"Cube", `[[[%s]]]`},
		{"Lists", `{"k":[%s]}`}, {"Grids", `{"k":[[%s]]}`}, {"Maps", `[{"k":%s}]`}, {"MapLists", `[{"k":[%s]}]`}, {"MapOfMap", `{"k":{"j":%s}}`},
		{"Grid", `[[],[%s]]`}, {"Cube", `[[[]],[[],[%s]]]`},
	}
	toYaml := func(jsonDoc string) string { return jsonDoc } // JSON is a YAML flow document
	for _, pos := range positions {
		var want cfNested
		canonObj := `{"HostName":"h","Port":9}`
		canonDoc := fmt.Sprintf(`{%q:%s}`, pos.field, fmt.Sprintf(pos.wrap, canonObj))
		if err := LoadFromJsonBytes([]byte(canonDoc), &want); err != nil {
			c.Violation(canonDoc, "canonical", err.Error())
			continue
		}
		for _, fieldSp := range spellings(pos.field, snakeOf(pos.field)) {
			for _, hn := range spellings("HostName", "host_name") {
				for _, po := range spellings("Port", "port") {
					obj := fmt.Sprintf(`{%q:"h",%q:9}`, hn, po)
					doc := fmt.Sprintf(`{%q:%s}`, fieldSp, fmt.Sprintf(pos.wrap, obj))
					for _, f := range []struct {
						name string
						load func([]byte, any) error
						doc  string
					}{{"json", LoadFromJsonBytes, doc}, {"yaml", LoadFromYamlBytes, toYaml(doc)}} {
						var got cfNested
						var err error
						var pan any
						func() {
							defer func() { pan = recover() }()
							err = f.load([]byte(f.doc), &got)
						}()
						c.Eval(fmt.Sprintf("%s/%s/%s", f.name, pos.field, pos.wrap), func() any {
							return map[string]any{"format": f.name, "doc": f.doc, "err": fmt.Sprint(err)}
						})
						in := fmt.Sprintf("format=%s doc=%s", f.name, f.doc)
						switch {
						case pan != nil:
							c.Violation(in, "panic", fmt.Sprint(pan))
						case err != nil:
							c.Violation(in, "respelled key rejected", err.Error())
						case !reflect.DeepEqual(got, want):
							c.Violation(in, "respelled key differs", fmt.Sprintf("got %+v, canonical spelling gives %+v", got, want))
						}
					}
				}
			}
		}
		// a required member missing at that position must be reported, whatever the spelling
		for _, po := range spellings("Port", "port") {
			doc := fmt.Sprintf(`{%q:%s}`, pos.field, fmt.Sprintf(pos.wrap, fmt.Sprintf(`{%q:9}`, po)))
			var got cfNested
			var err error
			func() {
				defer func() { recover() }()
				err = LoadFromJsonBytes([]byte(doc), &got)
			}()
			c.Eval("required-missing/"+pos.field, func() any { return map[string]any{"doc": doc, "err": fmt.Sprint(err)} })
			if err == nil {
				c.Violation("doc="+doc, "required member", "HostName is absent but the document loaded")
			}
		}
	}
	c.Done()
}

func snakeOf(s string) string {
	var b strings.Builder
	for i, r := range s {
		if r >= 'A' && r <= 'Z' {
			if i > 0 {
				b.WriteByte('_')
			}
			b.WriteRune(r + 32)
		} else {
			b.WriteRune(r)
		}
	}
	return b.String()
}

// Embedded (anonymous) members, required and optional, and members that depend on another one
// (optional=Dep): the key spellings the loader accepts for ordinary members are accepted for
// these too - the values must arrive, and the all-or-none rule must still be enforced.
type cfEmbedReq struct {
	CfBaseExported
	Name string
}

type CfBaseExported struct {
	HostName string
	Port     int
}

type cfEmbedOpt struct {
	CfBaseExported `json:",optional"`
	Name           string
}

type cfDep struct {
	Alpha string `json:",optional"`
	Beta  string `json:",optional=Alpha"`
}

func TestVerifConfEmbeddedAndDependent(t *testing.T) {
	defer vrt.WriteReport()
	if !vrt.Shard(6) {
		return
	}
	c := vrt.NewCases("conf/embedded-and-dependent-members")
	for _, hn := range spellings("HostName", "host_name") {
		for _, po := range spellings("Port", "port") {
			for _, nm := range spellings("Name", "name") {
				doc := fmt.Sprintf(`{%q:"h",%q:1,%q:"n"}`, hn, po, nm)
				in := "doc=" + doc
				var req cfEmbedReq
				err := LoadFromJsonBytes([]byte(doc), &req)
				c.Eval("required-embedded "+hn+"/"+po, func() any { return map[string]any{"doc": doc, "err": fmt.Sprint(err), "got": fmt.Sprintf("%+v", req)} })
				if err != nil || req.HostName != "h" || req.Port != 1 || req.Name != "n" {
					c.Violation(in, "required embedded member", fmt.Sprintf("loaded %+v, err=%v; want HostName=h Port=1 Name=n", req, err))
				}
				var opt cfEmbedOpt
				err = LoadFromJsonBytes([]byte(doc), &opt)
				c.Eval("optional-embedded "+hn+"/"+po, func() any { return map[string]any{"doc": doc, "err": fmt.Sprint(err), "got": fmt.Sprintf("%+v", opt)} })
				if err != nil || opt.HostName != "h" || opt.Port != 1 || opt.Name != "n" {
					c.Violation(in, "optional embedded member", fmt.Sprintf("loaded %+v, err=%v; want HostName=h Port=1 Name=n (the document's values must not be lost)", opt, err))
				}
			}
		}
	}
	// optional embedded member: absent altogether is fine, half of it is an error
	var opt cfEmbedOpt
	if err := LoadFromJsonBytes([]byte(`{"name":"n"}`), &opt); err != nil || opt.HostName != "" || opt.Name != "n" {
		c.Violation(`{"name":"n"}`, "optional embedded member absent", fmt.Sprintf("loaded %+v, err=%v", opt, err))
	}
	for _, hn := range spellings("HostName", "host_name") {
		var half cfEmbedOpt
		doc := fmt.Sprintf(`{%q:"h","name":"n"}`, hn)
		if err := LoadFromJsonBytes([]byte(doc), &half); err == nil {
			c.Violation(doc, "optional embedded member half set", fmt.Sprintf("an optional embedded member with only one of its two required fields was accepted: %+v", half))
		}
	}
	// dependent members: both or none
	for _, al := range spellings("Alpha", "alpha") {
		for _, be := range spellings("Beta", "beta") {
			cases := []struct {
				doc     string
				wantErr bool
			}{
				{fmt.Sprintf(`{%q:"1",%q:"2"}`, al, be), false},
				{fmt.Sprintf(`{%q:"1"}`, al), true},
				{fmt.Sprintf(`{%q:"2"}`, be), true},
				{`{}`, false},
			}
			for _, k := range cases {
				var d cfDep
				err := LoadFromJsonBytes([]byte(k.doc), &d)
				c.Eval(fmt.Sprintf("dependent %s err=%v", k.doc, err != nil), func() any { return map[string]any{"doc": k.doc, "err": fmt.Sprint(err), "got": fmt.Sprintf("%+v", d)} })
				if (err != nil) != k.wantErr {
					c.Violation("doc="+k.doc, "dependent members", fmt.Sprintf("Beta is optional=Alpha (both or none): loaded %+v, err=%v, want error=%v", d, err, k.wantErr))
				}
			}
		}
	}
	c.Done()
}

// Map-typed members: the keys inside the map are data, not member names - they arrive as
// written, whatever they look like.
type cfLabels struct {
	Labels map[string]string
	Nested map[string]map[string]int `json:",optional"`
}

func TestVerifConfMapData(t *testing.T) {
	defer vrt.WriteReport()
	if !vrt.Shard(6) {
		return
	}
	c := vrt.NewCases("conf/map-member-data-keys")
	for _, keys := range [][]string{{"app"}, {"appName"}, {"app_name"}, {"Tier"}, {"app_name", "Tier"}, {"a_b_c", "X"}, {"app-name"}, {"APP"}} {
		var parts []string
		want := map[string]string{}
		for i, k := range keys {
			parts = append(parts, fmt.Sprintf("%q:%q", k, fmt.Sprint("v", i)))
			want[k] = fmt.Sprint("v", i)
		}
		for _, member := range spellings("Labels", "labels") {
			doc := fmt.Sprintf(`{%q:{%s}}`, member, strings.Join(parts, ","))
			var got cfLabels
			err := LoadFromJsonBytes([]byte(doc), &got)
			c.Eval(fmt.Sprintf("keys=%v member=%s", keys, member), func() any {
				return map[string]any{"doc": doc, "err": fmt.Sprint(err), "labels": fmt.Sprint(got.Labels)}
			})
			if err != nil {
				c.Violation("doc="+doc, "map member rejected", err.Error())
				continue
			}
			if !reflect.DeepEqual(got.Labels, want) {
				cls := "map data keys rewritten"
				c.Violation("doc="+doc, cls, fmt.Sprintf("the map member holds %v, the document says %v", got.Labels, want))
			}
		}
	}
	c.Done()
}
