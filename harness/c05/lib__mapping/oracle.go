package mapping

import (
	"bytes"
	"encoding/json"
	"fmt"
	"math"
	"math/big"
	"reflect"
	"strings"
	"time"
)

// decodeDoc decodes JSON text keeping numbers as literals.
func decodeDoc(text string) (any, error) {
	dec := json.NewDecoder(strings.NewReader(text))
	dec.UseNumber()
	var v any
	err := dec.Decode(&v)
	return v, err
}

var durationT = reflect.TypeOf(time.Duration(0))

func numText(doc any) (string, bool) {
	switch d := doc.(type) {
	case json.Number:
		return d.String(), true
	case string:
		return strings.TrimSpace(d), true
	}
	return "", false
}

// docEquals reports whether the Go value equals the document value exactly.
func docEquals(rv reflect.Value, doc any, tagKey string) (bool, string) {
	if rv.Kind() == reflect.Ptr {
		if doc == nil {
			if rv.IsNil() {
				return true, ""
			}
			return false, "document null but pointer set"
		}
		if rv.IsNil() {
			return false, fmt.Sprintf("document has %v but pointer is nil", doc)
		}
		return docEquals(rv.Elem(), doc, tagKey)
	}
	if doc == nil {
		if rv.IsZero() {
			return true, ""
		}
		return false, fmt.Sprintf("document null but field = %v", rv.Interface())
	}
	switch rv.Kind() {
	case reflect.Bool:
		switch d := doc.(type) {
		case bool:
			return rv.Bool() == d, fmt.Sprintf("field %v, document %v", rv.Bool(), d)
		case string:
			want, ok := map[string]bool{"true": true, "1": true, "false": false, "0": false}[strings.ToLower(d)]
			return ok && rv.Bool() == want, fmt.Sprintf("field %v, document %q", rv.Bool(), d)
		}
		return false, fmt.Sprintf("bool field from %T document value", doc)
	case reflect.Int, reflect.Int8, reflect.Int16, reflect.Int32, reflect.Int64:
		if rv.Type() == durationT {
			if s, ok := doc.(string); ok {
				d, err := time.ParseDuration(s)
				return err == nil && time.Duration(rv.Int()) == d, fmt.Sprintf("duration field %v, document %q", time.Duration(rv.Int()), s)
			}
		}
		t, ok := numText(doc)
		if !ok {
			return false, fmt.Sprintf("integer field from %T document value", doc)
		}
		want, ok := intLiteral(t)
		if !ok {
			return false, fmt.Sprintf("integer field = %d but the document value %s is not an integer", rv.Int(), t)
		}
		return want.Cmp(big.NewInt(rv.Int())) == 0, fmt.Sprintf("field = %d, document value %s", rv.Int(), t)
	case reflect.Uint, reflect.Uint8, reflect.Uint16, reflect.Uint32, reflect.Uint64:
		t, ok := numText(doc)
		if !ok {
			return false, fmt.Sprintf("unsigned field from %T document value", doc)
		}
		want, ok := intLiteral(t)
		if !ok {
			return false, fmt.Sprintf("unsigned field = %d but the document value %s is not an integer", rv.Uint(), t)
		}
		return want.Cmp(new(big.Int).SetUint64(rv.Uint())) == 0, fmt.Sprintf("field = %d, document value %s", rv.Uint(), t)
	case reflect.Float32, reflect.Float64:
		t, ok := numText(doc)
		if !ok {
			return false, fmt.Sprintf("float field from %T document value", doc)
		}
		// (digit separators as in Go's own floating-point literals are read as the same number)
		bf, _, err := big.ParseFloat(strings.ReplaceAll(t, "_", ""), 10, 256, big.ToNearestEven)
		if err != nil {
			return false, fmt.Sprintf("float field = %v but the document value %s is not a number", rv.Float(), t)
		}
		var want float64
		if rv.Kind() == reflect.Float32 {
			f32, _ := bf.Float32()
			want = float64(f32)
		} else {
			want, _ = bf.Float64()
		}
		if math.IsInf(want, 0) {
			return false, fmt.Sprintf("document value %s does not fit %s but field = %v", t, rv.Kind(), rv.Float())
		}
		return rv.Float() == want, fmt.Sprintf("field = %v, document value %s", rv.Float(), t)
	case reflect.String:
		switch d := doc.(type) {
		case string:
			return rv.String() == d, fmt.Sprintf("field %q, document %q", rv.String(), d)
		case json.Number:
			return rv.String() == d.String(), fmt.Sprintf("string field %q from number %s", rv.String(), d)
		}
		return false, fmt.Sprintf("string field %q from %T document value", rv.String(), doc)
	case reflect.Slice:
		arr, ok := doc.([]any)
		if !ok {
			if s, isStr := doc.(string); isStr {
				if inner, err := decodeDoc(s); err == nil {
					if a2, ok2 := inner.([]any); ok2 {
						arr, ok = a2, true
					}
				}
			}
		}
		if !ok {
			return false, fmt.Sprintf("slice field %v from %T document value", rv.Interface(), doc)
		}
		if rv.Len() != len(arr) {
			return false, fmt.Sprintf("slice has %d elements, document %d", rv.Len(), len(arr))
		}
		for i := range arr {
			if ok, why := docEquals(rv.Index(i), arr[i], tagKey); !ok {
				return false, fmt.Sprintf("[%d]: %s", i, why)
			}
		}
		return true, ""
	case reflect.Map:
		m, ok := doc.(map[string]any)
		if !ok {
			return false, fmt.Sprintf("map field from %T document value", doc)
		}
		if rv.Len() != len(m) {
			return false, fmt.Sprintf("map has %d entries, document %d", rv.Len(), len(m))
		}
		for k, dv := range m {
			kv := reflect.ValueOf(k)
			if rv.Type().Key().Kind() != reflect.String {
				n, ok := intLiteral(k)
				if !ok || !n.IsInt64() {
					return false, fmt.Sprintf("map with %s keys holds an entry for the document key %q", rv.Type().Key(), k)
				}
				kv = reflect.ValueOf(n.Int64()).Convert(rv.Type().Key())
			}
			ev := rv.MapIndex(kv)
			if !ev.IsValid() {
				return false, fmt.Sprintf("key %q missing", k)
			}
			if ok, why := docEquals(ev, dv, tagKey); !ok {
				return false, fmt.Sprintf("[%q]: %s", k, why)
			}
		}
		return true, ""
	case reflect.Struct:
		m, ok := doc.(map[string]any)
		if !ok {
			return false, fmt.Sprintf("struct field from %T document value", doc)
		}
		for i := 0; i < rv.NumField(); i++ {
			sf := rv.Type().Field(i)
			name := strings.Split(sf.Tag.Get(tagKey), ",")[0]
			if name == "" {
				name = sf.Name
			}
			dv, present := m[name]
			if !present {
				if !strings.Contains(sf.Tag.Get(tagKey), "optional") && !strings.Contains(sf.Tag.Get(tagKey), "default=") {
					return false, fmt.Sprintf("required nested field %s absent from the document but no error", name)
				}
				continue
			}
			if ok, why := docEquals(rv.Field(i), dv, tagKey); !ok {
				return false, fmt.Sprintf(".%s: %s", name, why)
			}
		}
		return true, ""
	case reflect.Interface:
		b, _ := json.Marshal(rv.Interface())
		b2, _ := json.Marshal(doc)
		return bytes.Equal(b, b2), fmt.Sprintf("field %s, document %s", b, b2)
	}
	return false, "unsupported kind " + rv.Kind().String()
}

// intLiteral parses an integer-valued decimal literal ("3", "08", "3.0", "1e3").
func intLiteral(t string) (*big.Int, bool) {
	if v, ok := new(big.Int).SetString(t, 10); ok {
		return v, true
	}
	f, _, err := big.ParseFloat(t, 10, 512, big.ToNearestEven)
	if err != nil || !f.IsInt() {
		return nil, false
	}
	v, _ := f.Int(nil)
	return v, true
}
