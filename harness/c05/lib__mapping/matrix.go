package mapping

import (
	"fmt"
	"math/big"
	"os"
	"reflect"
	"sort"
	"strings"
	"testing"
	"time"

	vrt "github.com/gotid/god"
)

type inner struct {
	A int `json:"a"`
}

type kindSpec struct {
	name string
	t    reflect.Type
	cat  string // bool int uint float string duration other
	def  string // a valid default literal (tag text) and the JSON literal it equals
	defJ string
}

func kinds() []kindSpec {
	var i int
	var s string
	return []kindSpec{
		{"bool", reflect.TypeOf(true), "bool", "true", "true"},
		{"int", reflect.TypeOf(int(0)), "int", "3", "3"},
		{"int8", reflect.TypeOf(int8(0)), "int", "3", "3"},
		{"int16", reflect.TypeOf(int16(0)), "int", "3", "3"},
		{"int32", reflect.TypeOf(int32(0)), "int", "3", "3"},
		{"int64", reflect.TypeOf(int64(0)), "int", "3", "3"},
		{"uint", reflect.TypeOf(uint(0)), "uint", "3", "3"},
		{"uint8", reflect.TypeOf(uint8(0)), "uint", "3", "3"},
		{"uint16", reflect.TypeOf(uint16(0)), "uint", "3", "3"},
		{"uint32", reflect.TypeOf(uint32(0)), "uint", "3", "3"},
		{"uint64", reflect.TypeOf(uint64(0)), "uint", "3", "3"},
		{"float32", reflect.TypeOf(float32(0)), "float", "1.5", "1.5"},
		{"float64", reflect.TypeOf(float64(0)), "float", "1.5", "1.5"},
		{"string", reflect.TypeOf(""), "string", "a", `"a"`},
		{"duration", reflect.TypeOf(time.Duration(0)), "duration", "1s", `"1s"`},
		{"*int", reflect.TypeOf(&i), "int", "3", "3"},
		{"*string", reflect.TypeOf(&s), "string", "a", `"a"`},
		{"[]int", reflect.TypeOf([]int{}), "other", "", ""},
		{"[]string/default", reflect.TypeOf([]string{}), "other", "[a,b]", `["a","b"]`},
		{"[]int/default", reflect.TypeOf([]int{}), "other", "[1,2]", `[1,2]`},
		{"[]int8", reflect.TypeOf([]int8{}), "other", "", ""},
		{"[]string", reflect.TypeOf([]string{}), "other", "", ""},
		{"[][]int", reflect.TypeOf([][]int{}), "other", "", ""},
		{"[]*int", reflect.TypeOf([]*int{}), "other", "", ""},
		{"[]*string", reflect.TypeOf([]*string{}), "other", "", ""},
		{"[]string/default-num", reflect.TypeOf([]string{}), "other", "[1,2]", `["1","2"]`},
		{"*map[string]int", reflect.TypeOf(&map[string]int{}), "other", "", ""},
		{"map[string]*map[string]int", reflect.TypeOf(map[string]*map[string]int{}), "other", "", ""},
		{"*[]int", reflect.TypeOf(&[]int{}), "other", "", ""},
		{"[]*[]int", reflect.TypeOf([]*[]int{}), "other", "", ""},
		{"map[int]string", reflect.TypeOf(map[int]string{}), "other", "", ""},
		{"map[string]any", reflect.TypeOf(map[string]any{}), "other", "", ""},
		{"map[string]int", reflect.TypeOf(map[string]int{}), "other", "", ""},
		{"map[string]uint8", reflect.TypeOf(map[string]uint8{}), "other", "", ""},
		{"map[string]string", reflect.TypeOf(map[string]string{}), "other", "", ""},
		{"map[string][]int", reflect.TypeOf(map[string][]int{}), "other", "", ""},
		{"struct", reflect.TypeOf(inner{}), "other", "", ""},
		{"*struct", reflect.TypeOf(&inner{}), "other", "", ""},
		{"[]struct", reflect.TypeOf([]inner{}), "other", "", ""},
		{"map[string]struct", reflect.TypeOf(map[string]inner{}), "other", "", ""},
	}
}

var docValues = []string{
	"<absent>", "null", "true", "false", "0", "1", "3", "5", "6", "-1", "127", "128", "-128", "-129", "255", "256", "300", "65535", "65536",
	"2147483647", "2147483648", "4294967296", "9223372036854775807", "9223372036854775808", "18446744073709551615", "18446744073709551616",
	"1.5", "-1.5", "1e39", "1e400", "3.0", `"x"`, `"a"`, `"b"`, `"1"`, `"3"`, `"300"`, `"08"`, `"1s"`, `"1.5"`, `""`,
	"[]", "[1]", "[1,2]", "[300]", `["a"]`, `["a",1]`, "[[1]]", "[[1],[2,3]]", "[1.5]", "[null]", "[[]]", `[[1,"x"]]`,
	"{}", `{"a":1}`, `{"a":"x"}`, `{"a":300}`, `{"a":[1]}`, `{"a":[1,2]}`, `{"a":1.5}`, `{"a":{"a":1}}`, `{"a":null}`, `{"b":1}`,
	`[{"a":1}]`, `[{"a":"x"}]`, `[{}]`, `[{"a":1},{"a":2}]`, `{"k":{"a":1}}`, `{"k":{"a":"x"}}`, `{"k":1}`,
	// containers written inside a string (the form-value style), numeric keys, not-a-numbers
	`"[1,2]"`, `"[1,null]"`, `"[]"`, `"[\"a\"]"`, `"[300]"`, `{"1":"x"}`, `{"1":1}`, `"NaN"`, `"Inf"`, `"-Inf"`,
	// numerals that are decimal only in appearance (a leading zero, base prefixes, digit separators)
	`"010"`, `"0x10"`, `"0b11"`, `"0o17"`, `"1_000"`, `"-010"`,
}

// generatedDocs: every JSON value of nesting depth <= 2 over a small atom set (thorough tier)
func generatedDocs() []string {
	atoms := []string{"null", "true", "0", "3", "300", "-1", "1.5", `"a"`, `"3"`, `""`}
	var d1 []string
	d1 = append(d1, "[]", "{}")
	for _, a := range atoms {
		d1 = append(d1, "["+a+"]", `{"a":`+a+`}`, `{"k":`+a+`}`)
		for _, b := range atoms {
			d1 = append(d1, "["+a+","+b+"]")
		}
	}
	var d2 []string
	for _, x := range d1 {
		d2 = append(d2, "["+x+"]", `{"a":`+x+`}`, `{"k":`+x+`}`, "["+x+","+x+"]")
	}
	seen := map[string]bool{}
	for _, v := range docValues {
		seen[v] = true
	}
	var out []string
	for _, v := range append(append(atoms, d1...), d2...) {
		if !seen[v] {
			seen[v] = true
			out = append(out, v)
		}
	}
	return out
}

// envName: one variable per default literal, set by setEnvs (proc.Env caches what it reads).
func envName(k kindSpec) string {
	return "VERIF_ENV_" + strings.NewReplacer(".", "_").Replace(k.def)
}

func setEnvs() {
	for _, k := range kinds() {
		if k.cat != "other" {
			os.Setenv(envName(k), k.def)
		}
	}
	os.Unsetenv("VERIF_ENV_UNSET")
	os.Setenv("VERIF_ENV_DURTEXT", "1s")
}

type tagSpec struct {
	name string
	tag  func(k kindSpec) (string, bool) // tag suffix, applicable
}

func tagSpecs() []tagSpec {
	num := func(k kindSpec) bool { return k.cat == "int" || k.cat == "uint" || k.cat == "float" }
	return []tagSpec{
		{"plain", func(k kindSpec) (string, bool) { return "", true }},
		{"optional", func(k kindSpec) (string, bool) { return ",optional", true }},
		{"default", func(k kindSpec) (string, bool) { return ",default=" + k.def, k.def != "" }},
		{"optional+default", func(k kindSpec) (string, bool) { return ",optional,default=" + k.def, k.def != "" }},
		{"options", func(k kindSpec) (string, bool) {
			switch {
			case k.cat == "string":
				return ",options=a|b", true
			case k.cat == "int" || k.cat == "uint":
				return ",options=1|3", true
			}
			return "", false
		}},
		{"options+default", func(k kindSpec) (string, bool) {
			if k.cat == "string" {
				return ",options=a|b,default=a", true
			}
			return "", false
		}},
		{"range[1:5]", func(k kindSpec) (string, bool) { return ",range=[1:5]", num(k) }},
		{"range(1:5)", func(k kindSpec) (string, bool) { return ",range=(1:5)", num(k) }},
		{"range[:5]", func(k kindSpec) (string, bool) { return ",range=[:5]", num(k) }},
		{"range+default", func(k kindSpec) (string, bool) { return ",range=[1:5],default=3", k.cat == "int" || k.cat == "uint" }},
		{"string", func(k kindSpec) (string, bool) { return ",string", num(k) }},
		{"string+options", func(k kindSpec) (string, bool) { return ",string,options=1|3", k.cat == "int" || k.cat == "uint" }},
		{"string+range", func(k kindSpec) (string, bool) { return ",string,range=[1:5]", num(k) }},
		// the value comes from the environment when the variable is set (and from the document
		// when it is not)
		{"env", func(k kindSpec) (string, bool) { return ",env=" + envName(k), k.cat != "other" }},
		{"optional+env", func(k kindSpec) (string, bool) { return ",optional,env=" + envName(k), k.cat != "other" }},
		{"env-unset", func(k kindSpec) (string, bool) { return ",env=VERIF_ENV_UNSET", k.cat != "other" }},
		// a variable holding a duration text: right for a Duration field, ill-typed for the numeric kinds
		{"env-duration-text", func(k kindSpec) (string, bool) { return ",env=VERIF_ENV_DURTEXT", k.cat != "other" }},
	}
}

// numeric value of a JSON literal (number or string holding a number), if any
func litNumber(v string) (*big.Float, bool) {
	t := strings.Trim(v, `"`)
	f, _, err := big.ParseFloat(t, 10, 256, big.ToNearestEven)
	if err != nil || strings.ContainsAny(v, "[{") {
		return nil, false
	}
	return f, true
}

func inRange(tag string, f *big.Float) bool {
	x, _ := f.Float64()
	switch {
	case strings.Contains(tag, "range=[1:5]"):
		return x >= 1 && x <= 5
	case strings.Contains(tag, "range=(1:5)"):
		return x > 1 && x < 5
	case strings.Contains(tag, "range=[:5]"):
		return x <= 5
	}
	return true
}

type unmarshalPath struct {
	name string
	run  func(doc string, v any) error
}

func TestVerifUnmarshalMatrix(t *testing.T) {
	defer vrt.WriteReport()
	paths := []unmarshalPath{
		{"json", func(doc string, v any) error { return UnmarshalJsonBytes([]byte(doc), v) }},
		{"yaml", func(doc string, v any) error { return UnmarshalYamlBytes([]byte(doc), v) }},
		{"map", func(doc string, v any) error {
			d, err := decodeDoc(doc)
			if err != nil {
				return err
			}
			return UnmarshalJsonMap(d.(map[string]any), v)
		}},
	}
	setEnvs()
	c := vrt.NewCases("unmarshal/single-field-matrix")
	n := 0
	for _, k := range kinds() {
		for _, ts := range tagSpecs() {
			tagSuffix, ok := ts.tag(k)
			if !ok {
				continue
			}
			n++
			if !vrt.Shard(n) {
				continue
			}
			st := reflect.StructOf([]reflect.StructField{{Name: "F", Type: k.t, Tag: reflect.StructTag(`json:"f` + tagSuffix + `"`)}})
			docs := docValues
			if vrt.Thorough() {
				docs = append(append([]string{}, docValues...), generatedDocs()...)
			}
			for _, dv := range docs {
				// (,string fields take their number inside a JSON string; a bare number is checked
				// for panic-freedom and, if accepted, for exactness like anything else)
				doc := "{}"
				if dv != "<absent>" {
					doc = `{"f":` + dv + `}`
				}
				results := map[string]string{}
				firstSnap := map[string]string{}
				for _, p := range paths {
					for round := 0; round < 2; round++ { // cold and warm process-wide caches
						pv := reflect.New(st)
						var err error
						var pan any
						func() {
							defer func() { pan = recover() }()
							err = p.run(doc, pv.Interface())
						}()
						in := fmt.Sprintf("field=%s tag=%q doc=%s via=%s", k.name, "f"+tagSuffix, doc, p.name)
						class := fmt.Sprintf("%s/%s/%s", k.name, ts.name, classifyDoc(dv))
						fv := pv.Elem().Field(0)
						c.Eval(class, func() any {
							return map[string]any{"field": k.name, "tag": "f" + tagSuffix, "doc": doc, "via": p.name, "err": fmt.Sprint(err), "value": fmt.Sprintf("%+v", fv.Interface())}
						})
						results[p.name] = fmt.Sprintf("err=%v|%+v", err != nil, derefPrint(fv))
						if pan != nil {
							c.Violation(in, "panic/"+k.name+"/"+classifyDoc(dv), fmt.Sprintf("panicked: %v", pan))
							continue
						}
						checkOne(c, in, k, tagSuffix, dv, fv, err)
						// what one call returned belongs to its caller: scribbling over it must not
						// show up in what a later call returns (shared defaults, aliased documents)
						if round == 0 {
							firstSnap[p.name] = results[p.name]
							scramble(fv)
						} else if err == nil && firstSnap[p.name] != results[p.name] {
							c.Violation(in, "aliasing/"+k.name, fmt.Sprintf("the same document gave %s, and after the caller modified that result in place a second call gives %s", firstSnap[p.name], results[p.name]))
						}
					}
				}
				if portableDoc(dv) && results["json"] != results["yaml"] {
					c.Violation(fmt.Sprintf("field=%s tag=%q doc=%s", k.name, "f"+tagSuffix, doc), "json-vs-yaml/"+k.name+"/"+classifyDoc(dv),
						fmt.Sprintf("JSON gives %s, the same content as YAML gives %s", results["json"], results["yaml"]))
				}
			}
		}
	}
	c.Done()
}

// portableDoc: literals that mean the same thing in JSON and in YAML 1.1 (no number
// spelling that YAML types differently, nothing beyond int64/float64 precision).
func portableDoc(dv string) bool {
	if dv == "<absent>" {
		return true
	}
	for _, bad := range []string{"e", ".0", "18446744073709551616"} {
		if strings.Contains(dv, bad) && !strings.HasPrefix(dv, `"`) {
			return false
		}
	}
	return true
}

// scramble overwrites everything reachable from v in place.
func scramble(v reflect.Value) {
	switch v.Kind() {
	case reflect.Ptr:
		if !v.IsNil() {
			scramble(v.Elem())
		}
	case reflect.Slice:
		for i := 0; i < v.Len(); i++ {
			scramble(v.Index(i))
		}
	case reflect.Map:
		if !v.IsNil() && v.Type().Key().Kind() == reflect.String {
			// the caller adds an entry of its own to the map it was handed
			e := reflect.New(v.Type().Elem()).Elem()
			scramble(e)
			v.SetMapIndex(reflect.ValueOf("scribbled").Convert(v.Type().Key()), e)
		}
		for _, k := range v.MapKeys() {
			e := reflect.New(v.Type().Elem()).Elem()
			e.Set(v.MapIndex(k))
			scramble(e)
			v.SetMapIndex(k, e)
		}
		if v.Len() > 0 && v.Type().Key().Kind() == reflect.String {
			v.SetMapIndex(reflect.ValueOf("scribbled").Convert(v.Type().Key()), reflect.Zero(v.Type().Elem()))
		}
	case reflect.Struct:
		for i := 0; i < v.NumField(); i++ {
			if v.Field(i).CanSet() {
				scramble(v.Field(i))
			}
		}
	case reflect.String:
		if v.CanSet() {
			v.SetString("scribbled")
		}
	case reflect.Int, reflect.Int8, reflect.Int16, reflect.Int32, reflect.Int64:
		if v.CanSet() {
			v.SetInt(77)
		}
	case reflect.Uint, reflect.Uint8, reflect.Uint16, reflect.Uint32, reflect.Uint64:
		if v.CanSet() {
			v.SetUint(77)
		}
	case reflect.Float32, reflect.Float64:
		if v.CanSet() {
			v.SetFloat(7.5)
		}
	case reflect.Bool:
		if v.CanSet() {
			v.SetBool(!v.Bool())
		}
	}
}

func derefPrint(v reflect.Value) string {
	for v.Kind() == reflect.Ptr {
		if v.IsNil() {
			return "<nil>"
		}
		v = v.Elem()
	}
	switch v.Kind() {
	case reflect.Slice:
		// element-wise, so that pointer elements print what they point to, not their address
		parts := make([]string, v.Len())
		for i := range parts {
			parts[i] = derefPrint(v.Index(i))
		}
		return "[" + strings.Join(parts, " ") + "]"
	case reflect.Map:
		var parts []string
		for _, k := range v.MapKeys() {
			parts = append(parts, fmt.Sprintf("%v:%s", k.Interface(), derefPrint(v.MapIndex(k))))
		}
		sort.Strings(parts)
		return "map[" + strings.Join(parts, " ") + "]"
	case reflect.Interface:
		if v.IsNil() {
			return "<nil>"
		}
		return derefPrint(v.Elem())
	}
	return fmt.Sprintf("%+v", v.Interface())
}

func classifyDoc(dv string) string {
	switch {
	case dv == "<absent>" || dv == "null":
		return dv
	case dv == "true" || dv == "false":
		return "bool"
	case strings.HasPrefix(dv, `"`):
		return "string"
	case strings.HasPrefix(dv, "[[") || strings.HasPrefix(dv, "[{"):
		return "nested-array"
	case strings.HasPrefix(dv, "["):
		return "array"
	case strings.HasPrefix(dv, "{"):
		return "object"
	case strings.ContainsAny(dv, ".e"):
		return "float"
	case len(dv) > 5:
		return "big-int"
	}
	return "int"
}

func checkOne(c *vrt.Cases, in string, k kindSpec, tag, dv string, fv reflect.Value, err error) {
	cls := k.name + "/" + classifyDoc(dv)
	if strings.Contains(tag, "VERIF_ENV_DURTEXT") {
		// "1s": a Duration or string field may take it, anything else has to fail (not panic)
		if err == nil {
			if ok, why := docEquals(fv, "1s", "json"); !ok {
				c.Violation(in, "env/"+cls, "accepted the environment value \"1s\" without error but "+why)
			}
		}
		return
	}
	if strings.Contains(tag, "env=") && !strings.Contains(tag, "VERIF_ENV_UNSET") {
		// the variable is set to the kind's default literal: if the call succeeds the field
		// holds exactly that value (whatever the document says)
		if err == nil {
			def, _ := decodeDoc(k.defJ)
			if ok, why := docEquals(fv, def, "json"); !ok {
				c.Violation(in, "env/"+cls, "accepted without error but the field does not hold the environment value "+k.def+": "+why)
			}
		}
		return
	}
	if dv == `"NaN"` || dv == `"Inf"` || dv == `"-Inf"` {
		// not numbers: never inside a declared range; otherwise only panic-freedom is claimed
		if err == nil && strings.Contains(tag, "range=") && (fv.Kind() == reflect.Float32 || fv.Kind() == reflect.Float64) {
			c.Violation(in, "range/"+cls, fmt.Sprintf("value %s is outside the declared range but was accepted (field = %v)", dv, derefPrint(fv)))
		}
		if err == nil && (fv.Kind() == reflect.Float32 || fv.Kind() == reflect.Float64) {
			return
		}
	}
	optional := strings.Contains(tag, "optional")
	hasDefault := strings.Contains(tag, "default=")
	if dv == "<absent>" {
		switch {
		case hasDefault:
			if err != nil {
				c.Violation(in, "default/"+cls, fmt.Sprintf("absent field with a default failed: %v", err))
				return
			}
			def, _ := decodeDoc(k.defJ)
			if strings.Contains(tag, "default=a") {
				def = "a"
			}
			if strings.Contains(tag, "default=3") {
				def, _ = decodeDoc("3")
			}
			if ok, why := docEquals(fv, def, "json"); !ok {
				c.Violation(in, "default/"+cls, "absent field did not take its default: "+why)
			}
		case optional:
			if err != nil {
				c.Violation(in, "optional/"+cls, fmt.Sprintf("absent optional field failed: %v", err))
			} else if !fv.IsZero() {
				c.Violation(in, "optional/"+cls, fmt.Sprintf("absent optional field = %v, want zero", fv.Interface()))
			}
		default:
			if err == nil && (fv.Kind() == reflect.Map || fv.Kind() == reflect.Ptr && fv.Type().Elem().Kind() == reflect.Map) {
				return // an absent map field is filled with an empty map by design (not "required")
			}
			if err == nil {
				c.Violation(in, "required/"+cls, fmt.Sprintf("required field absent but no error (field = %v)", fv.Interface()))
			}
		}
		return
	}
	doc, _ := decodeDoc(dv)
	// mandatory errors: options / range
	if err == nil && strings.Contains(tag, "options=") && doc != nil {
		lit := strings.Trim(dv, `"`)
		if iv, ok := intLiteral(lit); ok && (k.cat == "int" || k.cat == "uint") {
			lit = iv.String()
		}
		allowed := map[string]bool{"a": strings.Contains(tag, "options=a|b"), "b": strings.Contains(tag, "options=a|b"), "1": strings.Contains(tag, "options=1|3"), "3": strings.Contains(tag, "options=1|3")}
		if !allowed[lit] {
			c.Violation(in, "options/"+cls, fmt.Sprintf("value %s is outside the declared options but was accepted (field = %v)", dv, derefPrint(fv)))
			return
		}
	}
	if err == nil && strings.Contains(tag, "range=") && doc != nil {
		if f, ok := litNumber(dv); ok && !inRange(tag, f) {
			c.Violation(in, "range/"+cls, fmt.Sprintf("value %s is outside the declared range but was accepted (field = %v)", dv, derefPrint(fv)))
			return
		}
	}
	if err != nil {
		return // failing is always allowed by the statement
	}
	if doc == nil && hasDefault {
		return // null with a default: unspecified
	}
	if doc != nil && strings.Contains(dv, "null") {
		return // null elements inside containers: unspecified (skipped by the implementation)
	}
	if ok, why := docEquals(fv, doc, "json"); !ok {
		c.Violation(in, "exact/"+cls, "accepted without error but "+why)
	}
}

// What a declared default yields does not depend on which other structs were unmarshalled
// before in the same process: slice fields of different element types that spell their
// default with the same text, in every order (the process-wide caches are emptied between
// the orders; a differential oracle - each result must equal the one obtained on its own).
func TestVerifDefaultIndependence(t *testing.T) {
	defer vrt.WriteReport()
	if !vrt.Shard(0) {
		return
	}
	c := vrt.NewCases("unmarshal/default-independence")
	type shape struct {
		name string
		mk   func() any
	}
	groups := map[string][]shape{
		"[1,2]": {
			{"[]int", func() any {
				return &struct {
					F []int `json:"f,default=[1,2]"`
				}{}
			}},
			{"[]string", func() any {
				return &struct {
					F []string `json:"f,default=[1,2]"`
				}{}
			}},
			{"[]float64", func() any {
				return &struct {
					F []float64 `json:"f,default=[1,2]"`
				}{}
			}},
			{"[]int8", func() any {
				return &struct {
					F []int8 `json:"f,default=[1,2]"`
				}{}
			}},
			{"[]*int", func() any {
				return &struct {
					F []*int `json:"f,default=[1,2]"`
				}{}
			}},
		},
		"[true,false]": {
			{"[]bool", func() any {
				return &struct {
					F []bool `json:"f,default=[true,false]"`
				}{}
			}},
			{"[]string", func() any {
				return &struct {
					F []string `json:"f,default=[true,false]"`
				}{}
			}},
		},
		"[a,b]": {
			{"[]string", func() any {
				return &struct {
					F []string `json:"f,default=[a,b]"`
				}{}
			}},
			{"[]int", func() any {
				return &struct {
					F []int `json:"f,default=[a,b]"`
				}{}
			}},
		},
	}
	reset := func() {
		defaultCacheLock.Lock()
		defaultCache = make(map[string]any)
		defaultCacheLock.Unlock()
	}
	run := func(s shape) string {
		v := s.mk()
		var err error
		var pan any
		func() {
			defer func() { pan = recover() }()
			err = UnmarshalJsonBytes([]byte(`{}`), v)
		}()
		if pan != nil {
			return fmt.Sprintf("panic:%v", pan)
		}
		return fmt.Sprintf("err=%v|%s", err != nil, derefPrint(reflect.ValueOf(v).Elem().Field(0)))
	}
	var texts []string
	for text := range groups {
		texts = append(texts, text)
	}
	sort.Strings(texts)
	for _, text := range texts {
		g := groups[text]
		alone := map[string]string{}
		for _, s := range g {
			reset()
			alone[s.name] = run(s)
			if strings.HasPrefix(alone[s.name], "panic") {
				c.Violation(text+" "+s.name, "panic", alone[s.name])
			}
		}
		for _, first := range g {
			for _, second := range g {
				if first.name == second.name {
					continue
				}
				reset()
				run(first)
				got := run(second)
				c.Eval(fmt.Sprintf("default=%s first=%s second=%s -> %s", text, first.name, second.name, got), func() any {
					return map[string]any{"default": text, "first": first.name, "second": second.name, "second_result": got, "second_alone": alone[second.name]}
				})
				if got != alone[second.name] {
					c.Violation(fmt.Sprintf("default=%s first=%s second=%s", text, first.name, second.name), "history dependence",
						fmt.Sprintf("a %s field with default=%s gives %s on its own, but %s after a %s field with the same default text was unmarshalled", second.name, text, alone[second.name], got, first.name))
				}
			}
		}
	}
	reset()
	c.Done()
}

// The same struct type read through unmarshalers of different tag keys (as the request parser
// does: path, form, header and json over one struct): whether a nested struct member is
// required depends on the tag key, so what one unmarshaler found out must not decide for the
// other - each result equals the one obtained in a fresh process.
func TestVerifRequiredAcrossTagKeys(t *testing.T) {
	defer vrt.WriteReport()
	if !vrt.Shard(1) {
		return
	}
	c := vrt.NewCases("unmarshal/required-across-tag-keys")
	type inner struct {
		A string `json:"a,optional"`
	}
	type outerPlain struct {
		In inner
	}
	type outerJSON struct {
		In inner `json:"in"`
	}
	reset := func() {
		structCacheLock.Lock()
		rv := reflect.ValueOf(&structRequiredCache).Elem()
		rv.Set(reflect.MakeMap(rv.Type()))
		structCacheLock.Unlock()
	}
	type shape struct {
		name string
		mk   func() any
	}
	shapes := []shape{{"untagged-member", func() any { return &outerPlain{} }}, {"json-tagged-member", func() any { return &outerJSON{} }}}
	readers := map[string]func(v any) error{
		"json": func(v any) error { return UnmarshalJsonBytes([]byte(`{}`), v) },
		"form": func(v any) error { return NewUnmarshaler("form", WithStringValues()).Unmarshal(map[string]any{}, v) },
		"path": func(v any) error { return NewUnmarshaler("path", WithStringValues()).Unmarshal(map[string]any{}, v) },
	}
	names := []string{"form", "json", "path"}
	run := func(reader string, s shape) string {
		var err error
		var pan any
		func() {
			defer func() { pan = recover() }()
			err = readers[reader](s.mk())
		}()
		if pan != nil {
			return fmt.Sprintf("panic:%v", pan)
		}
		return fmt.Sprintf("err=%v", err != nil)
	}
	for _, s := range shapes {
		alone := map[string]string{}
		for _, rd := range names {
			reset()
			alone[rd] = run(rd, s)
		}
		for _, first := range names {
			for _, second := range names {
				if first == second {
					continue
				}
				reset()
				run(first, s)
				got := run(second, s)
				in := fmt.Sprintf("shape=%s first=%s second=%s", s.name, first, second)
				c.Eval(in+" -> "+got, func() any {
					return map[string]any{"shape": s.name, "first": first, "second": second, "second_result": got, "second_alone": alone[second]}
				})
				if got != alone[second] {
					c.Violation(in, "history dependence", fmt.Sprintf("the %s unmarshaler gives %s for the empty document on its own, but %s after the %s unmarshaler has read the same struct type", second, alone[second], got, first))
				}
			}
		}
	}
	reset()
	c.Done()
}

// inherit: a nested member takes the enclosing level's value only when its own level does not
// mention the key; what its own level says - a value or an explicit null - is what it gets.
func TestVerifInherit(t *testing.T) {
	defer vrt.WriteReport()
	if !vrt.Shard(2) {
		return
	}
	c := vrt.NewCases("unmarshal/inherit")
	type innerReq struct {
		Host string `json:"host,inherit"`
	}
	type innerOpt struct {
		Host string `json:"host,optional,inherit"`
	}
	type outerReq struct {
		Host string   `json:"host,optional"`
		In   innerReq `json:"in"`
	}
	type outerOpt struct {
		Host string   `json:"host,optional"`
		In   innerOpt `json:"in"`
	}
	for _, optional := range []bool{false, true} {
		for _, parent := range []string{"<absent>", `"p"`, "null"} {
			for _, child := range []string{"<absent>", `"c"`, "null", `""`} {
				var parts []string
				if parent != "<absent>" {
					parts = append(parts, `"host":`+parent)
				}
				in := "{}"
				if child != "<absent>" {
					in = `{"host":` + child + `}`
				}
				parts = append(parts, `"in":`+in)
				doc := "{" + strings.Join(parts, ",") + "}"
				for _, via := range []string{"json", "yaml"} {
					var got string
					var err error
					var pan any
					func() {
						defer func() { pan = recover() }()
						run := UnmarshalJsonBytes
						if via == "yaml" {
							run = UnmarshalYamlBytes
						}
						if optional {
							var v outerOpt
							err = run([]byte(doc), &v)
							got = v.In.Host
						} else {
							var v outerReq
							err = run([]byte(doc), &v)
							got = v.In.Host
						}
					}()
					name := fmt.Sprintf("optional=%v doc=%s via=%s", optional, doc, via)
					c.Eval(fmt.Sprintf("optional=%v parent=%s child=%s via=%s err=%v", optional, parent, child, via, err != nil), func() any {
						return map[string]any{"doc": doc, "via": via, "optional": optional, "err": fmt.Sprint(err), "inner_host": got}
					})
					if pan != nil {
						c.Violation(name, "panic", fmt.Sprint(pan))
						continue
					}
					if err != nil {
						continue // failing is always allowed
					}
					want := ""
					switch {
					case child == `"c"`:
						want = "c"
					case child == "<absent>" && parent == `"p"`:
						want = "p"
					case child == "<absent>" && !optional:
						c.Violation(name, "required", fmt.Sprintf("the member is required, mentioned at neither level, and yet accepted (= %q)", got))
						continue
					}
					if got != want {
						c.Violation(name, "inherit", fmt.Sprintf("the nested member = %q, want %q (its own level says %s, the enclosing level %s)", got, want, child, parent))
					}
				}
			}
		}
	}
	c.Done()
}
