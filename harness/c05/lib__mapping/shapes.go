package mapping

import (
	"fmt"
	"reflect"
	"strings"
	"testing"

	vrt "github.com/gotid/god"
)

type (
	shInner struct {
		A int    `json:"a"`
		B string `json:"b,optional"`
	}
	shDepRange struct {
		A int `json:"a,optional"`
		B int `json:"b,optional=a,range=[1:5]"`
	}
	shNotDepOptions struct {
		A int `json:"a,optional"`
		B int `json:"b,optional=!a,options=1|3"`
	}
	shDepStringOptions struct {
		A string `json:"a,optional"`
		B string `json:"b,optional=a,options=x|y"`
	}
	shAnon struct {
		shInner
		C int `json:"c"`
	}
	shAnonOpt struct {
		shInner `json:",optional"`
		C       int `json:"c,default=3"`
	}
	shDeep struct {
		L1 struct {
			L2 struct {
				L3 []int8 `json:"l3"`
				M  map[string]uint8 `json:"m,optional"`
			} `json:"l2"`
		} `json:"l1"`
	}
	shPtrs struct {
		P *shInner          `json:"p,optional"`
		S []*shInner        `json:"s,optional"`
		M map[string]*int16 `json:"m,optional"`
	}
)

// fieldMenus: for a flat set of JSON keys, the values each may take ("" = absent)
func combos(keys []string, menus map[string][]string) []map[string]string {
	out := []map[string]string{{}}
	for _, k := range keys {
		var next []map[string]string
		for _, base := range out {
			for _, v := range menus[k] {
				m := map[string]string{}
				for kk, vv := range base {
					m[kk] = vv
				}
				if v != "" {
					m[k] = v
				}
				next = append(next, m)
			}
		}
		out = next
	}
	return out
}

func renderDoc(m map[string]string, keys []string) string {
	var parts []string
	for _, k := range keys {
		if v, ok := m[k]; ok {
			parts = append(parts, fmt.Sprintf("%q:%s", k, v))
		}
	}
	return "{" + strings.Join(parts, ",") + "}"
}

func TestVerifUnmarshalShapes(t *testing.T) {
	defer vrt.WriteReport()
	if !vrt.Shard(3) {
		return
	}
	c := vrt.NewCases("unmarshal/multi-field-shapes")
	type shape struct {
		name   string
		mk     func() any
		keys   []string
		menus  map[string][]string
		ranges map[string][2]float64 // key -> inclusive range that must be enforced when present
		opts   map[string][]string   // key -> allowed literals when present
	}
	shapes := []shape{
		{"optional=dep+range", func() any { return &shDepRange{} }, []string{"a", "b"},
			map[string][]string{"a": {"", "1"}, "b": {"", "1", "3", "5", "0", "6", "9", "-1"}},
			map[string][2]float64{"b": {1, 5}}, nil},
		{"optional=!dep+options", func() any { return &shNotDepOptions{} }, []string{"a", "b"},
			map[string][]string{"a": {"", "1"}, "b": {"", "1", "3", "2", "0"}},
			nil, map[string][]string{"b": {"1", "3"}}},
		{"optional=dep+string-options", func() any { return &shDepStringOptions{} }, []string{"a", "b"},
			map[string][]string{"a": {"", `"k"`}, "b": {"", `"x"`, `"y"`, `"z"`, `""`}},
			nil, map[string][]string{"b": {`"x"`, `"y"`}}},
		{"anonymous", func() any { return &shAnon{} }, []string{"a", "b", "c"},
			map[string][]string{"a": {"", "1", `"x"`, "300"}, "b": {"", `"s"`, "1"}, "c": {"", "2", "1.5"}}, nil, nil},
		{"anonymous-optional", func() any { return &shAnonOpt{} }, []string{"a", "b", "c"},
			map[string][]string{"a": {"", "1", `"x"`}, "b": {"", `"s"`}, "c": {"", "2"}}, nil, nil},
	}
	for _, sh := range shapes {
		for _, m := range combos(sh.keys, sh.menus) {
			doc := renderDoc(m, sh.keys)
			for _, via := range []string{"json", "yaml", "json-again"} {
				v := sh.mk()
				var err error
				var pan any
				func() {
					defer func() { pan = recover() }()
					if via == "yaml" {
						err = UnmarshalYamlBytes([]byte(doc), v)
					} else {
						err = UnmarshalJsonBytes([]byte(doc), v)
					}
				}()
				in := fmt.Sprintf("shape=%s doc=%s via=%s", sh.name, doc, via)
				c.Eval(fmt.Sprintf("%s/keys=%d/err=%v", sh.name, len(m), err != nil), func() any {
					return map[string]any{"shape": sh.name, "doc": doc, "err": fmt.Sprint(err), "value": fmt.Sprintf("%+v", reflect.ValueOf(v).Elem().Interface())}
				})
				if pan != nil {
					c.Violation(in, "panic/"+sh.name, fmt.Sprint(pan))
					continue
				}
				if err != nil {
					continue
				}
				// accepted: every present key must be stored exactly and satisfy its range/options
				flat := map[string]reflect.Value{}
				flattenJSON(reflect.ValueOf(v).Elem(), flat)
				for k, lit := range m {
					d, _ := decodeDoc(lit)
					fv, ok := flat[k]
					if !ok {
						continue
					}
					if ok, why := docEquals(fv, d, "json"); !ok {
						c.Violation(in, "exact/"+sh.name, fmt.Sprintf("key %s accepted but %s", k, why))
					}
					if r, has := sh.ranges[k]; has {
						if f, ok := litNumber(lit); ok {
							x, _ := f.Float64()
							if x < r[0] || x > r[1] {
								c.Violation(in, "range/"+sh.name, fmt.Sprintf("key %s = %s is outside its declared range [%g:%g] but the document was accepted", k, lit, r[0], r[1]))
							}
						}
					}
					if allowed, has := sh.opts[k]; has {
						okOpt := false
						for _, a := range allowed {
							if a == lit {
								okOpt = true
							}
						}
						if !okOpt {
							c.Violation(in, "options/"+sh.name, fmt.Sprintf("key %s = %s is not one of its declared options %v but the document was accepted", k, lit, allowed))
						}
					}
				}
				for _, k := range sh.keys {
					if _, present := m[k]; !present {
						if fv, ok := flat[k]; ok && !fv.IsZero() && !(sh.name == "anonymous-optional" && k == "c") {
							c.Violation(in, "absent/"+sh.name, fmt.Sprintf("key %s absent but field = %v", k, fv.Interface()))
						}
					}
				}
			}
		}
	}
	// deep and pointer shapes: document catalogue
	deepDocs := []string{
		`{"l1":{"l2":{"l3":[1,2,3]}}}`, `{"l1":{"l2":{"l3":[1,300]}}}`, `{"l1":{"l2":{"l3":[]}}}`, `{"l1":{"l2":{"l3":[1],"m":{"k":255}}}}`,
		`{"l1":{"l2":{"l3":[1],"m":{"k":256}}}}`, `{"l1":{"l2":{"l3":"x"}}}`, `{"l1":{"l2":[1]}}`, `{"l1":[{"l2":1}]}`, `{"l1":{"l2":{}}}`, `{"l1":{}}`, `{}`,
		`{"l1":{"l2":{"l3":[[1]]}}}`, `{"l1":{"l2":{"l3":[{"a":1}]}}}`, `{"l1":{"l2":{"l3":[1],"m":{"k":[1]}}}}`, `{"l1":{"l2":{"l3":[1],"m":[1]}}}`, `{"l1":1}`, `{"l1":{"l2":"x"}}`,
	}
	for _, doc := range deepDocs {
		checkCatalogue(c, "deep", func() any { return &shDeep{} }, doc)
	}
	ptrDocs := []string{
		`{}`, `{"p":{"a":1}}`, `{"p":{"a":"x"}}`, `{"p":{}}`, `{"p":1}`, `{"p":[1]}`, `{"s":[{"a":1},{"a":2,"b":"s"}]}`, `{"s":[1]}`, `{"s":[{"a":1},1]}`, `{"s":{"a":1}}`, `{"s":[[{"a":1}]]}`,
		`{"m":{"k":1}}`, `{"m":{"k":32768}}`, `{"m":{"k":"x"}}`, `{"m":{"k":{"a":1}}}`, `{"m":[1]}`, `{"m":1}`, `{"p":null,"s":null,"m":null}`,
	}
	for _, doc := range ptrDocs {
		checkCatalogue(c, "pointers", func() any { return &shPtrs{} }, doc)
	}
	c.Done()
}

func checkCatalogue(c *vrt.Cases, name string, mk func() any, doc string) {
	for _, via := range []string{"json", "yaml"} {
		v := mk()
		var err error
		var pan any
		func() {
			defer func() { pan = recover() }()
			if via == "yaml" {
				err = UnmarshalYamlBytes([]byte(doc), v)
			} else {
				err = UnmarshalJsonBytes([]byte(doc), v)
			}
		}()
		in := fmt.Sprintf("shape=%s doc=%s via=%s", name, doc, via)
		c.Eval(fmt.Sprintf("%s/err=%v", name, err != nil), func() any {
			return map[string]any{"shape": name, "doc": doc, "err": fmt.Sprint(err)}
		})
		if pan != nil {
			c.Violation(in, "panic/"+name, fmt.Sprint(pan))
			continue
		}
		if err != nil {
			continue
		}
		d, _ := decodeDoc(doc)
		if strings.Contains(doc, "null") {
			continue
		}
		if ok, why := docEquals(reflect.ValueOf(v).Elem(), d, "json"); !ok {
			c.Violation(in, "exact/"+name, "accepted but "+why)
		}
	}
}

// flattenJSON maps JSON key -> field value for (possibly embedded) flat structs
func flattenJSON(v reflect.Value, out map[string]reflect.Value) {
	for i := 0; i < v.NumField(); i++ {
		sf := v.Type().Field(i)
		if sf.Anonymous && v.Field(i).Kind() == reflect.Struct {
			flattenJSON(v.Field(i), out)
			continue
		}
		name := strings.Split(sf.Tag.Get("json"), ",")[0]
		if name != "" {
			out[name] = v.Field(i)
		}
	}
}
