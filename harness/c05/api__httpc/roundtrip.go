package httpc

import (
	"context"
	"fmt"
	"net/http"
	"net/http/httptest"
	"reflect"
	"testing"

	vrt "github.com/gotid/god"
	"github.com/gotid/god/api/httpx"
	"github.com/gotid/god/api/router"
)

type rtReq struct {
	ID   int     `path:"id"`
	Name string  `path:"name"`
	Page int     `form:"page"`
	Q    string  `form:"q"`
	Tok  string  `header:"X-Tok"`
	N    int64   `header:"X-N"`
	Body string  `json:"body"`
	Cnt  int64   `json:"cnt"`
	Flag bool    `json:"flag"`
	F    float64 `json:"f"`
	// members with option tags: what was sent (zero values and values equal to the default
	// included) is what must arrive
	Size int    `form:"size,default=10"`
	Opt  string `form:"opt,optional"`
	Lvl  int    `json:"lvl,optional,default=2"`
	V    bool   `json:"v,default=true"`
	H    int64  `header:"X-H,optional,default=7"`
	Kind string `json:"kind,options=a|b,default=a"`
}

func TestVerifRequestRoundTrip(t *testing.T) {
	defer vrt.WriteReport()
	if !vrt.Shard(7) {
		return
	}
	c := vrt.NewCases("request/httpc-to-httpx-roundtrip")
	ints := []int{0, 1, -5, 2147483647}
	strs := []string{"a", "x y", "é中", "a&b=c", "100%", "1+1", "q?x#y", "a,b;c"}
	i64 := []int64{0, -1, 9007199254740993, 9223372036854775807}
	floats := []float64{0, 1.5, -2.25, 1e21}
	n := 0
	for _, id := range ints {
		for _, name := range strs {
			for si, s2 := range strs {
				for bi := range i64 {
					n++
					in := rtReq{ID: id, Name: name, Page: ints[(n+1)%len(ints)], Q: s2, Tok: strs[(si+3)%len(strs)], N: i64[bi],
						Body: strs[(si+5)%len(strs)], Cnt: i64[(bi+1)%len(i64)], Flag: n%2 == 0, F: floats[n%len(floats)],
						Size: []int{0, 10, 3}[n%3], Opt: []string{"", "o"}[n%2], Lvl: []int{0, 2, 5}[(n/3)%3], V: n%4 < 2, H: []int64{0, 7, -1}[(n/2)%3], Kind: []string{"a", "b"}[(n/5)%2]}
					req, err := buildRequest(context.Background(), http.MethodPost, "http://localhost/a/:id/:name", in)
					if err != nil {
						c.Violation(fmt.Sprintf("%+v", in), "build", err.Error())
						continue
					}
					var got rtReq
					var perr error
					handled := false
					rt := router.NewRouter()
					rt.Handle(http.MethodPost, "/a/:id/:name", http.HandlerFunc(func(w http.ResponseWriter, r *http.Request) {
						handled = true
						perr = httpx.Parse(r, &got)
					}))
					sreq := httptest.NewRequest(req.Method, req.URL.String(), req.Body)
					sreq.Header = req.Header.Clone()
					sreq.ContentLength = req.ContentLength
					rec := httptest.NewRecorder()
					var pan any
					func() {
						defer func() { pan = recover() }()
						rt.ServeHTTP(rec, sreq)
					}()
					c.Eval(fmt.Sprintf("name=%q/q=%q", name, s2), func() any {
						return map[string]any{"sent": fmt.Sprintf("%+v", in), "url": req.URL.String(), "got": fmt.Sprintf("%+v", got)}
					})
					inS := fmt.Sprintf("%+v", in)
					switch {
					case pan != nil:
						c.Violation(inS, "panic", fmt.Sprint(pan))
					case !handled:
						c.Violation(inS, "not routed", fmt.Sprintf("request %s was not routed to its pattern (status %d)", req.URL.String(), rec.Code))
					case perr != nil:
						c.Violation(inS, "parse error", perr.Error())
					case !reflect.DeepEqual(in, got):
						c.Violation(inS, "round trip differs", fmt.Sprintf("sent %+v, parsed %+v (url %s)", in, got, req.URL.String()))
					}
				}
			}
		}
	}
	// empty strings in form members (a separate, small enumeration: see known findings)
	type rtForm struct {
		Q   string `form:"q"`
		Tag string `form:"tag,default=t"`
		Opt string `form:"opt,optional"`
	}
	for _, q := range []string{"", "x"} {
		for _, tag := range []string{"", "t", "u"} {
			for _, opt := range []string{"", "o"} {
				in := rtForm{Q: q, Tag: tag, Opt: opt}
				req, err := buildRequest(context.Background(), http.MethodGet, "http://localhost/f", in)
				if err != nil {
					c.Violation(fmt.Sprintf("%+v", in), "build", err.Error())
					continue
				}
				var got rtForm
				var perr error
				var pan any
				func() {
					defer func() { pan = recover() }()
					sreq := httptest.NewRequest(req.Method, req.URL.String(), nil)
					sreq.Header = req.Header.Clone()
					perr = httpx.Parse(sreq, &got)
				}()
				c.Eval(fmt.Sprintf("form q=%q tag=%q opt=%q", q, tag, opt), func() any {
					return map[string]any{"sent": fmt.Sprintf("%+v", in), "url": req.URL.String(), "got": fmt.Sprintf("%+v", got), "err": fmt.Sprint(perr)}
				})
				inS := fmt.Sprintf("%+v", in)
				// the class tells an empty string that did not survive from any other difference
				emptyInvolved := (q == "" && (perr != nil || got.Q != q)) || (tag == "" && got.Tag != tag && got.Q == q && got.Opt == opt)
				class := "form round trip differs"
				if emptyInvolved && (perr != nil || (got.Q == q || q == "") && (got.Tag == tag || tag == "") && got.Opt == opt) {
					class = "empty string in a form member does not arrive"
				}
				switch {
				case pan != nil:
					c.Violation(inS, "panic", fmt.Sprint(pan))
				case perr != nil:
					c.Violation(inS, class, fmt.Sprintf("sent %+v (url %s): the server-side parser fails with %v", in, req.URL.String(), perr))
				case in != got:
					c.Violation(inS, class, fmt.Sprintf("sent %+v, parsed %+v (url %s)", in, got, req.URL.String()))
				}
			}
		}
	}
	c.Done()
}
