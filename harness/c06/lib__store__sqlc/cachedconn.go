package sqlc

import (
	"database/sql"
	"errors"
	"fmt"
	"runtime"
	"sort"
	"strings"
	"sync"
	"testing"
	"time"

	"github.com/alicebob/miniredis/v2"
	"github.com/alicebob/miniredis/v2/server"
	vrt "github.com/gotid/god"
	"github.com/gotid/god/lib/logx"
	"github.com/gotid/god/lib/stat"
	"github.com/gotid/god/lib/store/cache"
	"github.com/gotid/god/lib/store/redis"
	"github.com/gotid/god/lib/store/sqlx"
	"github.com/gotid/god/lib/syncx"
)

type ccRow struct {
	ID      int
	Name    string
	Payload string
}

var (
	ccOnce sync.Once
	ccSrv  *miniredis.Miniredis
	ccDown bool
	ccMu   sync.Mutex
)

func ccServer() *miniredis.Miniredis {
	ccOnce.Do(func() {
		s, err := miniredis.Run()
		if err != nil {
			vrt.InfraError("miniredis: %v", err)
		}
		s.Server().SetPreHook(func(c *server.Peer, cmd string, args ...string) bool {
			ccMu.Lock()
			down := ccDown
			ccMu.Unlock()
			if down && strings.ToUpper(cmd) != "PING" {
				c.WriteError("ERR verif injected failure")
				return true
			}
			return false
		})
		ccSrv = s
	})
	ccSrv.FlushAll()
	ccSrv.SetTime(vrt.Now())
	ccMu.Lock()
	ccDown = false
	ccMu.Unlock()
	return ccSrv
}

type ccSys struct {
	r       *vrt.Run
	s       *miniredis.Miniredis
	cc      CachedConn
	db      map[int]*ccRow // current rows
	queries int
	n       int
	draw    float64
	down    bool
	// reference cache: key -> what a hit returns ("" = placeholder) and when it expires
	cache map[string]string
	exp   map[string]time.Duration
}

var ccBigID = map[int]int{0: 0, 1: 10000001, 2: 9007199254740993}

func pkKey(id any) string       { return fmt.Sprintf("pk:%v", id) }
func idxKey(name string) string { return "idx:" + name }
func nameOf(id int) string      { return fmt.Sprintf("n%d", id) }

func newCcSys(r *vrt.Run) *ccSys {
	// the package keeps one process-wide single-flight group: an execution that is cut off
	// mid-flight (pruned schedule) must not leave a dangling call for the next one
	singleFlights = syncx.NewSingleFlight()
	s := &ccSys{r: r, s: ccServer(), db: map[int]*ccRow{}, cache: map[string]string{}, exp: map[string]time.Duration{}}
	vrt.SetRandHook(func() (int64, bool) {
		pcs := make([]uintptr, 10)
		n := runtime.Callers(3, pcs)
		fr := runtime.CallersFrames(pcs[:n])
		for {
			f, more := fr.Next()
			if strings.Contains(f.Function, "TrueOnProba") {
				return vrt.FloatDraw(1 - 1.0/(1<<53)), true
			}
			if strings.Contains(f.Function, "Unstable") {
				return vrt.FloatDraw(s.draw), true
			}
			if !more {
				break
			}
		}
		return 0, false
	})
	// the shared client for this address is created here, sequentially (its manager is
	// process-wide too)
	redis.New(s.s.Addr()).Ping()
	s.cc = NewNodeConn(nil, redis.New(s.s.Addr()), cache.WithExpire(100*time.Second), cache.WithNotFoundExpire(10*time.Second))
	return s
}

func (s *ccSys) expire() {
	for k, e := range s.exp {
		if vrt.Elapsed() >= e {
			delete(s.exp, k)
			delete(s.cache, k)
		}
	}
}

func (s *ccSys) jitter(base time.Duration) time.Duration {
	d := time.Duration((1 + 0.05 - 2*0.05*s.draw) * float64(base))
	secs := d / time.Second
	if d%time.Second != 0 {
		secs++
	}
	return secs * time.Second
}

func (s *ccSys) current(id int) string {
	if row, ok := s.db[id]; ok {
		return fmt.Sprintf("%d/%s/%s", row.ID, row.Name, row.Payload)
	}
	return "<none>"
}

func rowString(r ccRow, err error) string {
	if errors.Is(err, ErrNotFound) {
		return "<none>"
	}
	if err != nil {
		return "error:" + err.Error()
	}
	return fmt.Sprintf("%d/%s/%s", r.ID, r.Name, r.Payload)
}

func (s *ccSys) checkRead(op string, id int, got string, asked int) {
	if s.down {
		if !strings.HasPrefix(got, "error:") {
			s.r.Failf("%s while the cache fails: returned %s instead of the cache's error", op, got)
		}
		if asked != 0 {
			s.r.Failf("%s while the cache fails: fell through to the database (%d queries)", op, asked)
		}
		return
	}
	if want := s.current(id); got != want {
		s.r.Failf("%s returned %s, the database currently has %s", op, got, want)
	}
}

func (s *ccSys) queryRow(id int) {
	s.expire()
	var v ccRow
	before := s.queries
	err := s.cc.QueryRow(&v, pkKey(id), func(conn sqlx.Conn, out any) error {
		s.queries++
		row, ok := s.db[id]
		if !ok {
			return sql.ErrNoRows
		}
		*out.(*ccRow) = *row
		return nil
	})
	asked := s.queries - before
	s.checkRead(fmt.Sprintf("QueryRow(%s)", pkKey(id)), id, rowString(v, err), asked)
	if s.down {
		return
	}
	if _, cached := s.cache[pkKey(id)]; cached {
		if asked != 0 {
			s.r.Failf("QueryRow(%s): entry cached but the database was queried", pkKey(id))
		}
	} else {
		if asked != 1 {
			s.r.Failf("QueryRow(%s): uncached but %d database queries", pkKey(id), asked)
		}
		base := 100 * time.Second
		if _, ok := s.db[id]; !ok {
			base = 10 * time.Second
		}
		s.cache[pkKey(id)], s.exp[pkKey(id)] = s.current(id), vrt.Elapsed()+s.jitter(base)
		s.checkTTL(pkKey(id))
	}
}

func (s *ccSys) checkTTL(key string) {
	if !s.s.Exists(key) {
		s.r.Failf("%s was not stored in the cache", key)
		return
	}
	if ttl, want := s.s.TTL(key), s.exp[key]-vrt.Elapsed(); ttl != want {
		s.r.Failf("%s stored with TTL %v, want %v (jitter draw %.2f)", key, ttl, want, s.draw)
	}
}

func (s *ccSys) queryIndex(id int) {
	s.expire()
	name := nameOf(id)
	var v ccRow
	before := s.queries
	err := s.cc.QueryRowIndex(&v, idxKey(name), func(primary any) string { return pkKey(primary) },
		func(conn sqlx.Conn, out any) (any, error) {
			s.queries++
			for _, row := range s.db {
				if row.Name == name {
					*out.(*ccRow) = *row
					return row.ID, nil
				}
			}
			return nil, sql.ErrNoRows
		},
		func(conn sqlx.Conn, out, primary any) error {
			s.queries++
			pid := 0
			fmt.Sscan(fmt.Sprint(primary), &pid)
			row, ok := s.db[pid]
			if !ok {
				return sql.ErrNoRows
			}
			*out.(*ccRow) = *row
			return nil
		})
	asked := s.queries - before
	s.checkRead(fmt.Sprintf("QueryRowIndex(%s)", idxKey(name)), id, rowString(v, err), asked)
	if s.down {
		return
	}
	_, idxCached := s.cache[idxKey(name)]
	_, pkCached := s.cache[pkKey(id)]
	_, exists := s.db[id]
	switch {
	case !idxCached:
		if asked != 1 {
			s.r.Failf("QueryRowIndex(%s): index uncached: want exactly one (index) query, got %d", idxKey(name), asked)
		}
		if exists {
			e := s.jitter(100 * time.Second)
			s.cache[idxKey(name)], s.exp[idxKey(name)] = fmt.Sprint(id), vrt.Elapsed()+e
			// the primary entry written along carries the index entry's expiry + 5 s
			s.cache[pkKey(id)], s.exp[pkKey(id)] = s.current(id), vrt.Elapsed()+e+5*time.Second
			s.checkTTL(idxKey(name))
			s.checkTTL(pkKey(id))
		} else {
			s.cache[idxKey(name)], s.exp[idxKey(name)] = "", vrt.Elapsed()+s.jitter(10*time.Second)
			s.checkTTL(idxKey(name))
		}
	case s.cache[idxKey(name)] == "":
		if asked != 0 {
			s.r.Failf("QueryRowIndex(%s): not-found placeholder cached but the database was queried", idxKey(name))
		}
	case pkCached:
		if asked != 0 {
			s.r.Failf("QueryRowIndex(%s): index and primary cached but %d database queries", idxKey(name), asked)
		}
	default:
		if asked != 1 {
			s.r.Failf("QueryRowIndex(%s): primary uncached: want one (primary) query, got %d", idxKey(name), asked)
		}
		base := 100 * time.Second
		if !exists {
			base = 10 * time.Second
		}
		s.cache[pkKey(id)], s.exp[pkKey(id)] = s.current(id), vrt.Elapsed()+s.jitter(base)
		s.checkTTL(pkKey(id))
	}
}

func (s *ccSys) exec(id int, kind string) bool {
	if s.down {
		return false // deletes that fail are the cache package's half of this check
	}
	_, exists := s.db[id]
	switch kind {
	case "ins":
		if exists {
			return false
		}
	case "upd", "del":
		if !exists {
			return false
		}
	}
	_, err := s.cc.Exec(func(conn sqlx.Conn) (sql.Result, error) {
		switch kind {
		case "ins":
			s.db[id] = &ccRow{id, nameOf(id), fmt.Sprintf("p%d", s.n)}
		case "upd":
			s.db[id].Payload = fmt.Sprintf("p%d", s.n)
		case "del":
			delete(s.db, id)
		case "fail":
			return nil, errors.New("db failure")
		}
		return nil, nil
	}, pkKey(id), idxKey(nameOf(id)))
	if kind == "fail" {
		if err == nil {
			s.r.Failf("Exec with a failing statement returned nil")
		}
		return true // nothing changed, nothing deleted
	}
	if err != nil {
		s.r.Failf("Exec: %v", err)
	}
	for _, k := range []string{pkKey(id), idxKey(nameOf(id))} {
		delete(s.cache, k)
		delete(s.exp, k)
		if s.s.Exists(k) {
			s.r.Failf("Exec completed but %s is still cached", k)
		}
	}
	return true
}

func (s *ccSys) apply(op string) bool {
	f := strings.Split(op, ":")
	s.n++
	id := 0
	if len(f) > 1 {
		fmt.Sscan(f[1], &id)
		// primary keys of realistic magnitude: beyond 10^6 (where %v of a float64 switches
		// to exponent form) and beyond 2^53 (where a float64 loses integers)
		id = ccBigID[id]
	}
	switch f[0] {
	case "q":
		s.queryRow(id)
	case "qi":
		s.queryIndex(id)
	case "ins", "upd", "del", "fail":
		return s.exec(id, f[0])
	case "delc":
		if s.down {
			return false
		}
		if err := s.cc.DelCache(pkKey(id)); err != nil {
			s.r.Failf("DelCache: %v", err)
		}
		delete(s.cache, pkKey(id))
		delete(s.exp, pkKey(id))
	case "setc":
		row, ok := s.db[id]
		if !ok || s.down {
			return false
		}
		if err := s.cc.SetCache(pkKey(id), *row); err != nil {
			s.r.Failf("SetCache: %v", err)
		}
		s.cache[pkKey(id)], s.exp[pkKey(id)] = s.current(id), vrt.Elapsed()+s.jitter(100*time.Second)
		s.checkTTL(pkKey(id))
	case "down":
		if s.down {
			return false
		}
		s.down = true
		ccMu.Lock()
		ccDown = true
		ccMu.Unlock()
	case "up":
		if !s.down {
			return false
		}
		s.down = false
		ccMu.Lock()
		ccDown = false
		ccMu.Unlock()
	case "draw":
		if f[1] == "lo" {
			s.draw = 0
		} else {
			s.draw = 1 - 1.0/(1<<53)
		}
	case "t":
		d := time.Duration(id) * time.Second
		vrt.Advance(d)
		s.s.FastForward(d)
		s.expire()
	}
	return true
}

func (s *ccSys) canon() string {
	s.expire()
	var parts []string
	for k, v := range s.cache {
		fresh := "stale"
		pid := 0
		if strings.HasPrefix(k, "pk:") {
			fmt.Sscanf(k, "pk:%d", &pid)
			if v == s.current(pid) {
				fresh = "fresh"
			}
		} else {
			fresh = v
		}
		parts = append(parts, fmt.Sprintf("%s[%s %v]", k, fresh, s.exp[k]-vrt.Elapsed()))
	}
	for id := range s.db {
		parts = append(parts, fmt.Sprintf("row%d", id))
	}
	for _, k := range s.s.Keys() {
		v, _ := s.s.Get(k)
		parts = append(parts, fmt.Sprintf("real:%s=%s/%v", k, v, s.s.TTL(k)))
	}
	sort.Strings(parts)
	return fmt.Sprintf("down=%v|draw=%g|%v", s.down, s.draw, parts)
}

func TestVerifCachedConn(t *testing.T) {
	defer vrt.WriteReport()
	logx.Disable()
	stat.SetReporter(nil)
	ops := []string{"q:1", "q:2", "qi:1", "qi:2", "ins:1", "upd:1", "del:1", "ins:2", "fail:1", "delc:1", "setc:1", "t:1", "t:6", "t:11", "t:106", "down", "up", "draw:lo", "draw:hi"}
	depth := 4
	if vrt.Thorough() {
		depth = 6
	}
	for i, first := range ops {
		if !vrt.Shard(i) {
			continue
		}
		first := first
		vrt.BFS(vrt.Options{Name: "cachedconn/first=" + first, Horizon: 1 << 30, Budget: vrt.FairBudget(2)}, depth-1, ops, func(r *vrt.Run, hist []string) vrt.Step {
			s := newCcSys(r)
			if !s.apply(first) {
				return vrt.Step{Canon: "n/a", Terminal: true}
			}
			for _, op := range hist {
				if !s.apply(op) {
					return vrt.Step{}
				}
				if r.Failed() {
					return vrt.Step{Canon: "failed"}
				}
			}
			return vrt.Step{Canon: s.canon()}
		})
	}
}

// Concurrent QueryRowIndex readers of one uncached index key (the single-flight followers
// take a different decoding path than the leader): every reader gets the current row, the
// database sees at most one index query and one primary query at a time, and after a write
// the next batch of readers gets the new row.
func TestVerifCachedConnStampede(t *testing.T) {
	defer vrt.WriteReport()
	logx.Disable()
	stat.SetReporter(nil)
	bound := 2
	if vrt.Thorough() {
		bound = 3
	}
	for i, readers := range []int{2, 3} {
		if !vrt.Shard(40 + i) {
			continue
		}
		readers := readers
		vrt.Explore(vrt.Options{Name: fmt.Sprintf("cachedconn/index-stampede/readers=%d", readers), Bound: bound, Horizon: 1 << 30, Prune: true, Budget: vrt.FairBudget(2)}, func(r *vrt.Run) {
			s := newCcSys(r)
			const id = 9007199254740993
			row := &ccRow{id, nameOf(id), "p1"}
			running, maxRunning, queries := 0, 0, 0
			enter := func() func() {
				vrt.Obs()
				queries++
				running++
				if running > maxRunning {
					maxRunning = running
				}
				vrt.Yield()
				return func() { vrt.Obs(); running-- }
			}
			read := func() string {
				var v ccRow
				err := s.cc.QueryRowIndex(&v, idxKey(row.Name), func(primary any) string { return pkKey(primary) },
					func(conn sqlx.Conn, out any) (any, error) {
						defer enter()()
						*out.(*ccRow) = *row
						return row.ID, nil
					},
					func(conn sqlx.Conn, out, primary any) error {
						defer enter()()
						if fmt.Sprint(primary) != fmt.Sprint(row.ID) {
							return sql.ErrNoRows
						}
						*out.(*ccRow) = *row
						return nil
					})
				return rowString(v, err)
			}
			batch := func(label string) {
				var wg sync.WaitGroup
				var mu sync.Mutex
				var got []string
				for i := 0; i < readers; i++ {
					wg.Add(1)
					go func() {
						defer wg.Done()
						g := read()
						mu.Lock()
						got = append(got, g)
						mu.Unlock()
					}()
				}
				wg.Wait()
				vrt.Obs()
				want := fmt.Sprintf("%d/%s/%s", row.ID, row.Name, row.Payload)
				for _, g := range got {
					if g != want {
						r.Failf("%s: a reader got %s, the database holds %s (all readers: %v)", label, g, want, got)
						break
					}
				}
			}
			batch("first batch")
			if maxRunning > 1 {
				r.Failf("first batch: %d database queries ran at the same time for one key", maxRunning)
			}
			q1 := queries
			// a completed write through the cached connection, naming the affected keys
			row = &ccRow{id, row.Name, "p2"}
			if _, err := s.cc.Exec(func(conn sqlx.Conn) (sql.Result, error) { return nil, nil }, pkKey(id), idxKey(row.Name)); err != nil {
				r.Failf("Exec: %v", err)
			}
			batch("batch after the write")
			r.Outcome("queries=%d+%d", q1, queries-q1)
			// nothing may be left in the cache under a key the write path does not know
			for _, k := range s.s.Keys() {
				if k != pkKey(id) && k != idxKey(row.Name) {
					r.Failf("cache holds an entry under %q, which no write ever invalidates", k)
				}
			}
		})
	}
}
