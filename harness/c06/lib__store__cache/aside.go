package cache

import (
	"context"
	"errors"
	"fmt"
	"runtime"
	"sort"
	"strings"
	"sync"
	"testing"
	"time"

	"github.com/alicebob/miniredis/v2"
	"github.com/alicebob/miniredis/v2/server"
	vrt "github.com/gotid/god"
	"github.com/gotid/god/lib/collection"
	"github.com/gotid/god/lib/logx"
	"github.com/gotid/god/lib/stat"
	"github.com/gotid/god/lib/store/redis"
	"github.com/gotid/god/lib/syncx"
)

const (
	caExpire   = 100 * time.Second
	caNotFound = 10 * time.Second
)

var errRowNotFound = errors.New("row not found")

type caCmd struct {
	at   time.Duration
	cmd  string
	args []string
	fail bool
}

// caServer: a shared miniredis with a command log and scripted failures.
type caServer struct {
	s    *miniredis.Miniredis
	mode string // "" up, "all" every command fails, "del" only DEL fails
	log  []caCmd
	mu   sync.Mutex
}

var (
	caOnce    sync.Once
	caServers []*caServer
)

func caGet(n int) []*caServer {
	caOnce.Do(func() {
		for i := 0; i < 2; i++ {
			s, err := miniredis.Run()
			if err != nil {
				vrt.InfraError("miniredis: %v", err)
			}
			cs := &caServer{s: s}
			s.Server().SetPreHook(func(c *server.Peer, cmd string, args ...string) bool {
				up := strings.ToUpper(cmd)
				if up == "PING" || up == "HELLO" || up == "CLIENT" {
					return false
				}
				cs.mu.Lock()
				fail := cs.mode == "all" || (cs.mode == "del" && up == "DEL")
				cs.log = append(cs.log, caCmd{vrt.Elapsed(), up, append([]string{}, args...), fail})
				cs.mu.Unlock()
				if fail {
					c.WriteError("ERR verif injected failure")
					return true
				}
				return false
			})
			caServers = append(caServers, cs)
		}
	})
	for _, cs := range caServers {
		cs.s.FlushAll()
		cs.s.SetTime(vrt.Now())
		cs.mu.Lock()
		cs.mode, cs.log = "", nil
		cs.mu.Unlock()
	}
	return caServers[:n]
}

type caEntry struct {
	val     string // "*" placeholder
	expires time.Duration
}

type caRetry struct {
	keys   []string
	node   int
	nextAt time.Duration
	stage  int
}

var caDelays = []time.Duration{time.Second, 5 * time.Second, time.Minute, 5 * time.Minute, time.Hour}

type caSys struct {
	r       *vrt.Run
	srv     []*caServer
	c       Cache
	db      map[string]string
	cache   map[string]*caEntry
	stale   map[string]bool // a failed delete for the key is still pending: stale reads are the documented window
	pending []*caRetry
	perKey  bool // the node's Redis is of cluster type
	draw    float64
	queries int
	n       int
	logPos  []int
	nodeOf  func(key string) int
}

func caSetup() {
	logx.Disable()
	stat.SetReporter(nil)
}

func newCaSys(r *vrt.Run, nodes int) *caSys {
	nsrv := nodes
	if nsrv < 1 {
		nsrv = 1
	}
	s := &caSys{r: r, srv: caGet(nsrv), db: map[string]string{}, cache: map[string]*caEntry{}, stale: map[string]bool{}, logPos: make([]int, nsrv)}
	vrt.SetRandHook(func() (int64, bool) {
		// the breaker's drop draw must never shed (C01/C12 cover it); the TTL jitter is the
		// alphabet symbol; every other consumer (random task keys) keeps the deterministic PRNG
		pcs := make([]uintptr, 10)
		n := runtime.Callers(3, pcs)
		fr := runtime.CallersFrames(pcs[:n])
		for {
			f, more := fr.Next()
			if strings.Contains(f.Function, "TrueOnProba") {
				return vrt.FloatDraw(1 - 1.0/(1<<53)), true
			}
			if strings.Contains(f.Function, "Unstable") {
				return vrt.FloatDraw(s.draw), true
			}
			if !more {
				break
			}
		}
		return 0, false
	})
	// the process-wide cleaner wheel is re-created inside the run, on the virtual clock
	tw, err := collection.NewTimingWheel(time.Second, timingWheelSlots, clean)
	if err != nil {
		r.Failf("wheel: %v", err)
	}
	timingWheel = tw
	st := NewStat("verif")
	if nodes == 1 || nodes == -1 {
		rds := redis.New(s.srv[0].s.Addr())
		if nodes == -1 {
			// one node whose Redis is of cluster type: multi-key deletes are issued key by key
			rds.Type = redis.ClusterType
			s.perKey = true
		}
		s.c = NewNode(rds, syncx.NewSingleFlight(), st, errRowNotFound, WithExpire(caExpire), WithNotFoundExpire(caNotFound))
		s.nodeOf = func(string) int { return 0 }
	} else {
		var conf ClusterConfig
		for _, cs := range s.srv {
			conf = append(conf, NodeConfig{Config: redis.Config{Host: cs.s.Addr(), Type: redis.NodeType}, Weight: 100})
		}
		s.c = New(conf, syncx.NewSingleFlight(), st, errRowNotFound, WithExpire(caExpire), WithNotFoundExpire(caNotFound))
		s.nodeOf = func(key string) int {
			for i, cs := range s.srv {
				if cs.s.Exists(key) {
					return i
				}
			}
			return -1
		}
	}
	vrt.Settle()
	return s
}

func (s *caSys) now() time.Duration { return vrt.Elapsed() }

func (s *caSys) expired() {
	for k, e := range s.cache {
		if s.now() >= e.expires {
			delete(s.cache, k)
			delete(s.stale, k)
		}
	}
}

func (s *caSys) jitter(base time.Duration) time.Duration {
	d := time.Duration((1 + 0.05 - 2*0.05*s.draw) * float64(base))
	secs := d / time.Second
	if d%time.Second != 0 {
		secs++
	}
	return secs * time.Second
}

func (s *caSys) mode(key string) string {
	// all servers share the mode in these histories
	return s.srv[0].mode
}

func (s *caSys) take(key string) {
	s.expired()
	var got string
	before := s.queries
	err := s.c.Take(&got, key, func(v any) error {
		s.queries++
		row, ok := s.db[key]
		if !ok {
			return errRowNotFound
		}
		*v.(*string) = row
		return nil
	})
	asked := s.queries - before
	if s.mode(key) == "all" {
		if err == nil || errors.Is(err, errRowNotFound) {
			s.r.Failf("Take(%s) while the cache fails: returned %q,%v instead of the cache's error", key, got, err)
		}
		if asked != 0 {
			s.r.Failf("Take(%s) while the cache fails: fell through to the database (%d queries)", key, asked)
		}
		return
	}
	if e, ok := s.cache[key]; ok {
		if asked != 0 {
			s.r.Failf("Take(%s): cached (%q) but the database was queried %d times", key, e.val, asked)
		}
		if e.val == "*" {
			if !errors.Is(err, errRowNotFound) {
				s.r.Failf("Take(%s): not-found placeholder cached but got %q,%v", key, got, err)
			}
		} else if err != nil || got != e.val {
			s.r.Failf("Take(%s): cache holds %q but got %q,%v", key, e.val, got, err)
		}
		row, present := s.db[key]
		coherent := (e.val == "*" && !present) || (present && row == e.val)
		if !coherent && !s.stale[key] {
			s.r.Failf("Take(%s) returned stale data %q (database has %q, present=%v) although no failed delete is pending", key, e.val, row, present)
		}
		return
	}
	if asked != 1 {
		s.r.Failf("Take(%s) on an uncached key queried the database %d times", key, asked)
	}
	row, present := s.db[key]
	if !present {
		if !errors.Is(err, errRowNotFound) {
			s.r.Failf("Take(%s): no row but got %q,%v", key, got, err)
		}
		s.cache[key] = &caEntry{"*", s.now() + s.jitter(caNotFound)}
		s.checkTTL(key, caNotFound)
		return
	}
	if err != nil || got != row {
		s.r.Failf("Take(%s): database has %q but got %q,%v", key, row, got, err)
	}
	s.cache[key] = &caEntry{row, s.now() + s.jitter(caExpire)}
	s.checkTTL(key, caExpire)
}

// checkTTL: the stored TTL stays within +-5% of the configured expiry, rounded up to seconds
func (s *caSys) checkTTL(key string, base time.Duration) {
	for _, cs := range s.srv {
		if cs.s.Exists(key) {
			ttl := cs.s.TTL(key)
			lo := time.Duration(float64(base)*0.95/float64(time.Second)) * time.Second
			hi := (time.Duration(float64(base)*1.05/float64(time.Second)) + 1) * time.Second
			if ttl < lo || ttl > hi {
				s.r.Failf("key %s stored with TTL %v, configured expiry %v (+-5%%)", key, ttl, base)
			}
			want := s.cache[key].expires - s.now()
			if ttl != want {
				s.r.Failf("key %s stored with TTL %v, jitter draw %.2f gives %v", key, ttl, s.draw, want)
			}
			return
		}
	}
	s.r.Failf("key %s was not stored in any cache node", key)
}

func (s *caSys) del(keys ...string) {
	// group by node as the cluster does (a key that is not cached anywhere still gets its DEL)
	// deletes naming k1 use the context form with a request-scoped context that ends as soon
	// as the call has returned (as an HTTP or RPC request's does): what happens in the
	// background afterwards must not depend on it; the others use the plain form
	var err error
	if keys[0] != "k1" {
		err = s.c.Del(keys...)
	} else {
		ctx, cancel := context.WithCancel(context.Background())
		err = s.c.DelCtx(ctx, keys...)
		cancel()
	}
	if err != nil {
		s.r.Failf("Del(%v) returned %v (failures are retried in the background, not reported)", keys, err)
	}
	if s.mode("") == "" {
		for _, k := range keys {
			delete(s.cache, k)
			delete(s.stale, k)
		}
		return
	}
	// the delete failed: retried from now on; stale reads are tolerated until it succeeds
	for _, k := range keys {
		if _, ok := s.cache[k]; ok {
			s.stale[k] = true
		}
	}
	// one background retry per node that holds some of the keys
	groups := map[string][]string{}
	for _, k := range keys {
		g := "single"
		if cl, ok := s.c.(cluster); ok {
			if n, ok := cl.dispatcher.Get(k); ok {
				g = fmt.Sprint(n)
			}
		}
		if s.perKey {
			g = "key:" + k // a Redis of cluster type deletes, and retries, key by key
		}
		groups[g] = append(groups[g], k)
	}
	for _, ks := range groups {
		s.pending = append(s.pending, &caRetry{keys: ks, nextAt: s.now() + caDelays[0]})
	}
}

// processLog matches the DEL commands seen since the last step against the pending retries
func (s *caSys) processLog(op string, foreground bool) {
	for i, cs := range s.srv {
		cs.mu.Lock()
		entries := append([]caCmd{}, cs.log[s.logPos[i]:]...)
		s.logPos[i] = len(cs.log)
		cs.mu.Unlock()
		if foreground {
			continue // commands issued by the operation itself
		}
		for _, e := range entries {
			if e.cmd == "COMMAND" || e.cmd == "CLUSTER" {
				continue // the cluster client's own housekeeping (topology, command table)
			}
			if e.cmd != "DEL" {
				s.r.Failf("after %s: unexpected background command %s %v at +%v", op, e.cmd, e.args, e.at)
				continue
			}
			matched := false
			for j, p := range s.pending {
				if p.nextAt == e.at && overlaps(p.keys, e.args) {
					matched = true
					if !e.fail {
						for _, k := range e.args {
							delete(s.cache, k)
							delete(s.stale, k)
						}
						p.keys = minus(p.keys, e.args)
						if len(p.keys) == 0 {
							s.pending = append(s.pending[:j], s.pending[j+1:]...)
						}
					} else {
						p.stage++
						if p.stage >= len(caDelays) {
							s.pending = append(s.pending[:j], s.pending[j+1:]...)
						} else {
							p.nextAt = e.at + caDelays[p.stage]
						}
					}
					break
				}
			}
			if !matched {
				s.r.Failf("after %s: DEL %v at +%v matches no pending retry (retried again after it succeeded, or at the wrong time); pending %s", op, e.args, e.at, s.pendingString())
			}
		}
	}
	for _, p := range s.pending {
		if p.nextAt < s.now() {
			s.r.Failf("after %s: the failed delete of %v was due for retry #%d at +%v but no DEL was issued (now +%v)", op, p.keys, p.stage+1, p.nextAt, s.now())
			p.nextAt = 1 << 62
		}
	}
}

func overlaps(a, b []string) bool {
	for _, x := range a {
		for _, y := range b {
			if x == y {
				return true
			}
		}
	}
	return false
}

func minus(a, b []string) []string {
	var out []string
	for _, x := range a {
		keep := true
		for _, y := range b {
			if x == y {
				keep = false
			}
		}
		if keep {
			out = append(out, x)
		}
	}
	return out
}

func (s *caSys) pendingString() string {
	var out []string
	for _, p := range s.pending {
		out = append(out, fmt.Sprintf("%v@+%v#%d", p.keys, p.nextAt, p.stage))
	}
	return strings.Join(out, ",")
}

func (s *caSys) apply(op string) bool {
	f := strings.Split(op, ":")
	s.n++
	foreground := true
	switch f[0] {
	case "take":
		s.take(f[1])
	case "wr":
		s.db[f[1]] = fmt.Sprintf("v%d", s.n)
		s.del(f[1])
	case "rm":
		if _, ok := s.db[f[1]]; !ok {
			return false
		}
		delete(s.db, f[1])
		s.del(f[1])
	case "wr2":
		s.db["k1"] = fmt.Sprintf("v%d", s.n)
		s.db["k2"] = fmt.Sprintf("w%d", s.n)
		s.del("k1", "k2")
	case "set":
		row, ok := s.db[f[1]]
		if !ok || s.mode("") != "" {
			return false
		}
		if err := s.c.Set(f[1], row); err != nil {
			s.r.Failf("Set: %v", err)
		}
		s.cache[f[1]] = &caEntry{row, s.now() + s.jitter(caExpire)}
		delete(s.stale, f[1])
		s.checkTTL(f[1], caExpire)
	case "down":
		if s.mode("") != "" {
			return false
		}
		for _, cs := range s.srv {
			cs.mu.Lock()
			cs.mode = f[1]
			cs.mu.Unlock()
		}
	case "up":
		if s.mode("") == "" {
			return false
		}
		for _, cs := range s.srv {
			cs.mu.Lock()
			cs.mode = ""
			cs.mu.Unlock()
		}
	case "draw":
		if f[1] == "lo" {
			s.draw = 0
		} else {
			s.draw = 1 - 1.0/(1<<53)
		}
	case "t":
		var sec int
		fmt.Sscan(f[1], &sec)
		foreground = false
		s.processLog(op, true)
		for i := 0; i < sec; i++ {
			vrt.AdvanceSettle(time.Second)
			for _, cs := range s.srv {
				cs.s.FastForward(time.Second)
			}
			s.processLog(op, false)
		}
		s.expired()
	}
	vrt.Settle()
	if foreground {
		s.processLog(op, true)
	}
	return true
}

func (s *caSys) canon() string {
	s.expired()
	var parts []string
	for k, e := range s.cache {
		parts = append(parts, fmt.Sprintf("%s=%s/%v/stale=%v", k, e.val, e.expires-s.now(), s.stale[k]))
	}
	for k, v := range s.db {
		parts = append(parts, "db:"+k+"="+v)
	}
	// what the Redis servers really hold (so that histories whose models agree but whose
	// real state differs are never merged)
	for i, sv := range s.srv {
		for _, k := range sv.s.Keys() {
			v, _ := sv.s.Get(k)
			parts = append(parts, fmt.Sprintf("real%d:%s=%s/%v", i, k, strings.Trim(v, `"`), sv.s.TTL(k)))
		}
	}
	sort.Strings(parts)
	var pend []string
	for _, p := range s.pending {
		pend = append(pend, fmt.Sprintf("%v+%v#%d", p.keys, p.nextAt-s.now(), p.stage))
	}
	// row versions are renamed canonically: only equality with the cache matters
	str := strings.Join(parts, ";")
	return fmt.Sprintf("mode=%s|draw=%g|%s|pend=%v|tick=%d", s.mode(""), s.draw, renameVersions(str), pend, int(s.now()/time.Second)%timingWheelSlots)
}

func renameVersions(s string) string {
	seen := map[string]string{}
	var b strings.Builder
	i := 0
	for i < len(s) {
		if (s[i] == 'v' || s[i] == 'w') && i+1 < len(s) && s[i+1] >= '0' && s[i+1] <= '9' && (i == 0 || s[i-1] == '=') {
			j := i + 1
			for j < len(s) && s[j] >= '0' && s[j] <= '9' {
				j++
			}
			tok := s[i:j]
			if _, ok := seen[tok]; !ok {
				seen[tok] = fmt.Sprintf("r%d", len(seen))
			}
			b.WriteString(seen[tok])
			i = j
			continue
		}
		b.WriteByte(s[i])
		i++
	}
	return b.String()
}

func TestVerifCacheAside(t *testing.T) {
	defer vrt.WriteReport()
	caSetup()
	ops := []string{"take:k1", "take:k2", "wr:k1", "rm:k1", "wr2", "set:k1", "t:1", "t:5", "t:11", "t:60", "t:106", "t:300", "down:all", "down:del", "up", "draw:lo", "draw:hi"}
	depth := 4
	if vrt.Thorough() {
		depth = 6
	}
	idx := 0
	for _, nodes := range []int{1, 2, -1} {
		for _, first := range ops {
			if nodes == -1 && first != "wr2" && first != "take:k1" && first != "down:del" && first != "take:k2" {
				continue // the cluster-type Redis differs from the plain one in multi-key deletes only
			}
			idx++
			if !vrt.Shard(idx) {
				continue
			}
			nodes, first := nodes, first
			vrt.BFS(vrt.Options{Name: fmt.Sprintf("cacheaside/nodes=%d/first=%s", nodes, first), Horizon: 1 << 30, Budget: vrt.FairBudget(3)}, depth-1, ops, func(r *vrt.Run, hist []string) vrt.Step {
				s := newCaSys(r, nodes)
				if !s.apply(first) {
					return vrt.Step{Canon: "n/a", Terminal: true}
				}
				for _, op := range hist {
					if !s.apply(op) {
						return vrt.Step{}
					}
					if r.Failed() {
						return vrt.Step{Canon: "failed"}
					}
				}
				return vrt.Step{Canon: s.canon()}
			})
		}
	}
}

// the full retry ladder: 1 s, 5 s, 1 min, 5 min, 1 h after a failed delete, stopping at the first success
func TestVerifCacheRetryLadder(t *testing.T) {
	defer vrt.WriteReport()
	caSetup()
	for stopAfter := 0; stopAfter <= 5; stopAfter++ {
		if !vrt.Shard(100 + stopAfter) {
			continue
		}
		stopAfter := stopAfter
		vrt.BFS(vrt.Options{Name: fmt.Sprintf("cacheaside/retry-ladder/recovers-after=%d-retries", stopAfter), Horizon: 1 << 30}, 1, []string{"go"}, func(r *vrt.Run, hist []string) vrt.Step {
			if len(hist) == 0 {
				return vrt.Step{Canon: "init"}
			}
			s := newCaSys(r, 1)
			s.apply("wr:k1")
			s.apply("take:k1")
			s.apply("down:del")
			s.apply("wr:k1")
			waits := []int{1, 5, 60, 300, 3600}
			for i := 0; i < stopAfter && i < len(waits); i++ {
				s.apply(fmt.Sprintf("t:%d", waits[i]))
			}
			s.apply("up")
			if stopAfter < len(waits) {
				s.apply(fmt.Sprintf("t:%d", waits[stopAfter]))
				if len(s.pending) != 0 {
					r.Failf("delete still pending after Redis recovered and retry #%d was due: %s", stopAfter+1, s.pendingString())
				}
				s.apply("take:k1") // must see the new row
			}
			s.apply("t:3700") // and nothing is deleted again afterwards
			return vrt.Step{Canon: fmt.Sprintf("done%d", stopAfter)}
		})
	}
}

// stampede: concurrent readers of one uncached key cause at most one database query at a time
func TestVerifCacheStampede(t *testing.T) {
	defer vrt.WriteReport()
	caSetup()
	bound := 2
	if vrt.Thorough() {
		bound = 3
	}
	for i, readers := range []int{2, 3} {
		if !vrt.Shard(200 + i) {
			continue
		}
		readers := readers
		vrt.Explore(vrt.Options{Name: fmt.Sprintf("cacheaside/stampede/readers=%d", readers), Bound: bound, Budget: vrt.FairBudget(1)}, func(r *vrt.Run) {
			s := newCaSys(r, 1)
			s.db["k1"] = "row"
			active, maxActive, queries := 0, 0, 0
			var wg sync.WaitGroup
			res := make([]string, readers)
			for i := 0; i < readers; i++ {
				i := i
				wg.Add(1)
				go func() {
					defer wg.Done()
					var got string
					err := s.c.Take(&got, "k1", func(v any) error {
						queries++
						active++
						if active > maxActive {
							maxActive = active
						}
						vrt.Yield()
						active--
						*v.(*string) = "row"
						return nil
					})
					res[i] = fmt.Sprintf("%s/%v", got, err)
				}()
			}
			wg.Wait()
			r.Outcome("queries=%d", queries)
			if maxActive > 1 {
				r.Failf("%d database queries for one key ran at the same time", maxActive)
			}
			for i, x := range res {
				if x != "row/<nil>" {
					r.Failf("reader %d got %s", i, x)
				}
			}
		})
	}
}
