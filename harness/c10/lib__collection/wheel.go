package collection

import (
	"fmt"
	"sort"
	"strconv"
	"strings"
	"sync"
	"testing"
	"time"

	vrt "github.com/gotid/god"
	"github.com/gotid/god/lib/timex"
)

const twInterval = 10 * time.Millisecond

type twModelTask struct {
	fire int
	val  string
}

// twSys is one real wheel driven in lock-step with its reference model.
type twSys struct {
	r          *vrt.Run
	n          int
	w          *TimingWheel
	tk         timex.FakeTicker
	fired      []string // "key=val" observed since the last op
	drained    []string
	T          int
	model      map[string]*twModelTask
	wasDrained bool
	stopped    bool
	tombstones bool // keep removed entries apart in the canonical state
}

func newTwSys(r *vrt.Run, n int) *twSys {
	s := &twSys{r: r, n: n, model: map[string]*twModelTask{}}
	s.tk = timex.NewFakeTicker()
	w, err := newTimingWheelWithClock(twInterval, n, func(k, v any) {
		s.fired = append(s.fired, fmt.Sprintf("%v=%v", k, v))
	}, s.tk)
	if err != nil {
		r.Failf("constructor: %v", err)
	}
	s.w = w
	vrt.Settle()
	return s
}

func parseDelay(s string) (time.Duration, int) {
	// "3" -> 3 intervals; "3h" -> 3.5 intervals (floor 3); "0h" -> half an interval (clamped to 1 by Set)
	half := strings.HasSuffix(s, "h")
	n, _ := strconv.Atoi(strings.TrimSuffix(s, "h"))
	d := time.Duration(n) * twInterval
	if half {
		d += twInterval / 2
	}
	return d, n
}

// apply performs one op on the real wheel and on the model and compares.
func (s *twSys) apply(op string, idx int) (applicable bool) {
	f := strings.Split(op, ":")
	s.fired = nil
	expectFired := []string{}
	var err, wantErr error
	switch f[0] {
	case "set":
		if s.wasDrained {
			return false
		}
		d, steps := parseDelay(f[2])
		if steps < 1 {
			steps = 1
		}
		val := "v" + strconv.Itoa(idx)
		err = s.w.SetTimer(f[1], val, d)
		if s.stopped {
			wantErr = ErrClosed
		} else {
			s.model[f[1]] = &twModelTask{fire: s.T + steps, val: val}
		}
	case "move":
		if s.wasDrained {
			return false
		}
		d, steps := parseDelay(f[2])
		err = s.w.MoveTimer(f[1], d)
		if s.stopped {
			wantErr = ErrClosed
		} else if m, ok := s.model[f[1]]; ok {
			m.fire = s.T + steps
		}
	case "rm":
		if s.wasDrained {
			return false
		}
		err = s.w.RemoveTimer(f[1])
		if s.stopped {
			wantErr = ErrClosed
		} else {
			delete(s.model, f[1])
		}
	case "bad":
		if s.wasDrained {
			return false
		}
		switch f[1] {
		case "setnil":
			err = s.w.SetTimer(nil, "x", twInterval)
		case "set0":
			err = s.w.SetTimer("a", "x", 0)
		case "setneg":
			err = s.w.SetTimer("a", "x", -twInterval)
		case "movenil":
			err = s.w.MoveTimer(nil, twInterval)
		case "move0":
			err = s.w.MoveTimer("a", 0)
		case "rmnil":
			err = s.w.RemoveTimer(nil)
		}
		wantErr = ErrArgument
	case "tick":
		if s.stopped {
			return false
		}
		s.tk.Tick()
		s.T++
		for k, m := range s.model {
			if m.fire == s.T {
				expectFired = append(expectFired, k+"="+m.val)
				delete(s.model, k)
			}
		}
	case "drain":
		if s.wasDrained {
			return false
		}
		err = s.w.Drain(func(k, v any) {
			s.drained = append(s.drained, fmt.Sprintf("%v=%v", k, v))
		})
		if s.stopped {
			wantErr = ErrClosed
		} else {
			s.wasDrained = true
		}
	case "stop":
		if s.stopped {
			return false
		}
		s.w.Stop()
		s.stopped = true
	}
	vrt.Settle()
	if err != wantErr {
		s.r.Failf("%s: returned %v, want %v", op, err, wantErr)
	}
	sort.Strings(expectFired)
	got := append([]string{}, s.fired...)
	sort.Strings(got)
	if fmt.Sprint(got) != fmt.Sprint(expectFired) {
		s.r.Failf("%s at tick %d: fired %v, want %v", op, s.T, got, expectFired)
	}
	if !s.wasDrained && !s.stopped {
		for k, m := range s.model {
			if v, ok := s.w.timers.Get(k); ok {
				if pe := v.(*positionEntry); pe.item.value != m.val {
					s.r.Failf("%s: pending task %s carries value %v, latest value set is %s", op, k, pe.item.value, m.val)
				}
			}
		}
	}
	if f[0] == "drain" && wantErr == nil {
		var want []string
		for k, m := range s.model {
			want = append(want, k+"="+m.val)
		}
		sort.Strings(want)
		gotD := append([]string{}, s.drained...)
		sort.Strings(gotD)
		if fmt.Sprint(gotD) != fmt.Sprint(want) {
			s.r.Failf("drain handed %v, want %v", gotD, want)
		}
		s.model = map[string]*twModelTask{}
	}
	return true
}

// canon: model state relative to now + abstraction of the wheel's own slots.
func (s *twSys) canon() string {
	var parts []string
	for k, m := range s.model {
		parts = append(parts, fmt.Sprintf("%s+%d", k, m.fire-s.T))
	}
	sort.Strings(parts)
	var impl []string
	for i := 0; i < s.n; i++ {
		pos := (s.w.tickedPos + 1 + i) % s.n
		var es []string
		tomb := map[string]bool{}
		for e := s.w.slots[pos].Front(); e != nil; e = e.Next() {
			t := e.Value.(*timingEntry)
			if t.removed {
				// tombstones are inert and vanish at the next scan - in the code as it is; the
				// distinct kinds present in a slot (not how many, nor where in the list) are kept
				// in the state all the same, so that a change which lets a tombstone act again (a
				// pending hop, a revived index entry) is not hidden by merged states
				if s.tombstones {
					tomb[fmt.Sprintf("~%v/c%d/d%d", t.key, t.circle, t.diff)] = true
				}
				continue
			}
			es = append(es, fmt.Sprintf("%v/c%d/d%d", t.key, t.circle, t.diff))
		}
		var ts []string
		for k := range tomb {
			ts = append(ts, k)
		}
		sort.Strings(ts)
		es = append(es, ts...)
		impl = append(impl, strings.Join(es, ","))
	}
	var idx []string
	s.w.timers.Range(func(k, v any) bool {
		pe := v.(*positionEntry)
		idx = append(idx, fmt.Sprintf("%v@%d/c%d/d%d", k, (pe.pos-s.w.tickedPos-1+2*s.n)%s.n, pe.item.circle, pe.item.diff))
		return true
	})
	sort.Strings(idx)
	return fmt.Sprintf("%v|%v|dr=%v|st=%v|%s|idx%v", parts, s.T%s.n, s.wasDrained, s.stopped, strings.Join(impl, ";"), idx)
}

func twOps(n int, keys []string, thorough bool) []string {
	delaySet := map[int]bool{1: true, 2: true, n: true, n + 1: true, 2 * n: true, 2*n + 1: true}
	if n > 2 {
		delaySet[n-1] = true
	}
	if thorough {
		delaySet[3*n] = true
		delaySet[3*n+1] = true
		delaySet[3] = true
	}
	var ds []int
	for d := range delaySet {
		ds = append(ds, d)
	}
	sort.Ints(ds)
	ops := []string{"tick"}
	for _, k := range keys {
		for _, d := range ds {
			ops = append(ops, fmt.Sprintf("set:%s:%d", k, d))
		}
		ops = append(ops, fmt.Sprintf("set:%s:0h", k), fmt.Sprintf("set:%s:1h", k))
		for _, d := range ds {
			ops = append(ops, fmt.Sprintf("move:%s:%d", k, d))
		}
		ops = append(ops, fmt.Sprintf("move:%s:%dh", k, n))
		ops = append(ops, "rm:"+k)
	}
	ops = append(ops, "drain", "stop", "bad:setnil", "bad:set0", "bad:setneg", "bad:movenil", "bad:move0", "bad:rmnil")
	return ops
}

func TestVerifTimingWheel(t *testing.T) {
	defer vrt.WriteReport()
	type cfg struct {
		n     int
		keys  []string
		depth int
	}
	var cfgs []cfg
	if vrt.Thorough() {
		for n := 1; n <= 5; n++ {
			cfgs = append(cfgs, cfg{n, []string{"a"}, 60}, cfg{n, []string{"a", "b"}, 60})
		}
	} else {
		for n := 1; n <= 4; n++ {
			d1 := 5
			if n <= 2 {
				d1 = 6
			}
			_ = d1
			cfgs = append(cfgs, cfg{n, []string{"a"}, 40}, cfg{n, []string{"a", "b"}, 40})
		}
	}
	// larger single-key wheels with tombstones kept apart: depth-bounded
	tdepth := 7
	if vrt.Thorough() {
		tdepth = 10
	}
	cfgs = append(cfgs, cfg{3, []string{"a"}, tdepth}, cfg{4, []string{"a"}, tdepth})
	// saturation: a small alphabet explored to a fixpoint (every reachable state, any depth)
	satN := []int{2, 3}
	if vrt.Thorough() {
		satN = []int{2, 3, 4, 5}
	}
	for j, n := range satN {
		if !vrt.Shard(len(cfgs) + j) {
			continue
		}
		n := n
		ops := []string{"tick", "rm:a"}
		for d := 1; d <= 2*n+1; d++ {
			ops = append(ops, fmt.Sprintf("set:a:%d", d), fmt.Sprintf("move:a:%d", d))
		}
		vrt.BFS(vrt.Options{Name: fmt.Sprintf("timingwheel/saturation/slots=%d/keys=1", n), Budget: vrt.FairBudget(1)}, 40, ops, func(r *vrt.Run, hist []string) vrt.Step {
			s := newTwSys(r, n)
			s.tombstones = n <= 2 // (larger wheels: the tombstone kinds multiply the states beyond the quick budget; see the depth-bounded scenarios below)
			for i, op := range hist {
				if !s.apply(op, i) {
					return vrt.Step{}
				}
				if r.Failed() {
					return vrt.Step{Canon: "failed"}
				}
			}
			return vrt.Step{Canon: s.canon()}
		})
	}
	for i, c := range cfgs {
		if !vrt.Shard(i) {
			continue
		}
		c := c
		ops := twOps(c.n, c.keys, vrt.Thorough())
		name := fmt.Sprintf("timingwheel/slots=%d/keys=%d", c.n, len(c.keys))
		if c.depth < 20 {
			name += fmt.Sprintf("/tombstones/depth=%d", c.depth)
		}
		vrt.BFS(vrt.Options{Name: name, Budget: vrt.FairBudget(1)}, c.depth, ops, func(r *vrt.Run, hist []string) vrt.Step {
			s := newTwSys(r, c.n)
			s.tombstones = len(c.keys) == 1 && (c.n <= 2 || c.depth < 20)
			for i, op := range hist {
				ok := s.apply(op, i)
				if !ok {
					return vrt.Step{}
				}
				if r.Failed() {
					return vrt.Step{Canon: "failed"}
				}
			}
			r.AtEnd(func() {
				// only the wheel's run loop may be parked (or nothing after Stop)
				for _, l := range r.Leaked() {
					if !strings.Contains(l.Site, "newTimingWheelWithClock") {
						r.Failf("unexpected thread left: %+v", l)
					}
				}
			})
			return vrt.Step{Canon: s.canon(), Terminal: s.stopped}
		})
	}
}

// Callbacks run on their own goroutine, one per tick: a callback that is still running when
// later ticks fire their tasks must not disturb them.  Every interleaving of two ticks'
// task batches (and of setting a further timer meanwhile) within the bound: each key fires
// exactly once, with its own value.
func TestVerifTimingWheelSlowCallbacks(t *testing.T) {
	defer vrt.WriteReport()
	if !vrt.Shard(3) {
		return
	}
	bound := 2
	if vrt.Thorough() {
		bound = 3
	}
	for _, slots := range []int{2, 4} {
		slots := slots
		vrt.Explore(vrt.Options{Name: fmt.Sprintf("timingwheel/slow-callbacks/slots=%d", slots), Bound: bound, Prune: true, Budget: vrt.FairBudget(2)}, func(r *vrt.Run) {
			tk := timex.NewFakeTicker()
			var mu sync.Mutex
			fired := map[string][]string{}
			w, err := newTimingWheelWithClock(twInterval, slots, func(k, v any) {
				vrt.Yield() // a callback that takes its time
				mu.Lock()
				fired[fmt.Sprint(k)] = append(fired[fmt.Sprint(k)], fmt.Sprint(v))
				mu.Unlock()
			}, tk)
			if err != nil {
				r.Failf("constructor: %v", err)
				return
			}
			w.SetTimer("a1", "va1", twInterval)
			w.SetTimer("a2", "va2", twInterval)
			w.SetTimer("b1", "vb1", 2*twInterval)
			w.SetTimer("b2", "vb2", 2*twInterval)
			vrt.Settle()
			tk.Tick()
			tk.Tick()
			w.SetTimer("c1", "vc1", twInterval)
			vrt.Settle()
			tk.Tick()
			vrt.Settle()
			mu.Lock()
			defer mu.Unlock()
			r.Outcome("%v", len(fired))
			for _, k := range []string{"a1", "a2", "b1", "b2", "c1"} {
				if len(fired[k]) != 1 || fired[k][0] != "v"+k {
					r.Failf("timer %s fired %d time(s) with value(s) %v, want exactly once with v%s (all: %v)", k, len(fired[k]), fired[k], k, fired)
				}
			}
			w.Stop()
		})
	}
}

// A callback that panics is that task's firing (it was handed to the execute function once):
// it must not keep any other task from firing - neither the tasks due in the same tick
// (whatever their order in the slot) nor those of later ticks.  Every subset of three tasks
// due in one tick panics; every key is handed to the execute function exactly once.
func TestVerifTimingWheelPanickingCallbacks(t *testing.T) {
	defer vrt.WriteReport()
	if !vrt.Shard(4) {
		return
	}
	for _, slots := range []int{2, 5} {
		for mask := 1; mask < 8; mask++ {
			slots, mask := slots, mask
			vrt.Explore(vrt.Options{Name: fmt.Sprintf("timingwheel/panicking-callbacks/slots=%d/panicking=%03b", slots, mask), Bound: 1, Prune: true, Budget: vrt.FairBudget(1)}, func(r *vrt.Run) {
				tk := timex.NewFakeTicker()
				var mu sync.Mutex
				fired := map[string][]string{}
				bad := map[string]bool{}
				for i, k := range []string{"a1", "a2", "a3"} {
					if mask&(1<<i) != 0 {
						bad[k] = true
					}
				}
				w, err := newTimingWheelWithClock(twInterval, slots, func(k, v any) {
					mu.Lock()
					fired[fmt.Sprint(k)] = append(fired[fmt.Sprint(k)], fmt.Sprint(v))
					mu.Unlock()
					if bad[fmt.Sprint(k)] {
						panic("callback of " + fmt.Sprint(k) + " failed")
					}
				}, tk)
				if err != nil {
					r.Failf("constructor: %v", err)
					return
				}
				w.SetTimer("a1", "va1", twInterval)
				w.SetTimer("a2", "va2", twInterval)
				w.SetTimer("a3", "va3", twInterval)
				w.SetTimer("b1", "vb1", 2*twInterval)
				w.SetTimer("far", "vfar", time.Duration(slots+1)*twInterval)
				vrt.Settle()
				tk.Tick()
				vrt.Settle()
				tk.Tick()
				vrt.Settle()
				mu.Lock()
				r.Outcome("%v", len(fired))
				for _, k := range []string{"a1", "a2", "a3", "b1"} {
					if len(fired[k]) != 1 || fired[k][0] != "v"+k {
						r.Failf("callbacks of %v panic: timer %s was handed to the execute function %d time(s) (%v), want exactly once with v%s (all: %v)", bad, k, len(fired[k]), fired[k], k, fired)
					}
				}
				if len(fired["far"]) != 0 {
					r.Failf("timer far fired after 2 ticks, due at tick %d", slots+1)
				}
				mu.Unlock()
				for i := 2; i < slots+1; i++ {
					tk.Tick()
					vrt.Settle()
				}
				mu.Lock()
				if len(fired["far"]) != 1 {
					r.Failf("callbacks of %v panicked earlier: timer far fired %d time(s) by tick %d, want once", bad, len(fired["far"]), slots+1)
				}
				mu.Unlock()
				w.Stop()
			})
		}
	}
}
