#!/bin/bash
# usage: process_round.sh <mapping file: "worktree ID name" per line>
while read wt id name; do
  echo "######## $name"
  /verif/tools/try_seed.sh /tmp/seed/$wt $id $name > /tmp/seed/$wt.try.log 2>&1
  echo "existing-ok-lines=$(grep -c '^ok' /verif/seeded/$name/existing_tests.txt) existing-fail=$(grep -c '^FAIL\|^--- FAIL' /verif/seeded/$name/existing_tests.txt)"
  echo "demo with:    $(tail -1 /verif/seeded/$name/demo_with_change.txt | cut -c1-70)"
  echo "demo without: $(tail -1 /verif/seeded/$name/demo_without_change.txt | cut -c1-70)"
  tail -1 /verif/seeded/$name/check_output.txt
done < $1
