#!/bin/bash
# For `vp run --with-repo -- bash tools/run_thorough_bg.sh [ids...]`: builds the driver inside the
# snapshot and runs the checks at the thorough tier against the repository snapshot.
export GOFLAGS=-mod=mod GOPROXY=off GOSUMDB=off GOTOOLCHAIN=local
here=$(pwd)
(cd engine && go build -o ../bin/vcheck ./cmd/vcheck) || exit 2
export VERIF_DIR=$here
[ -n "$VP_RUN_REPO" ] && export VERIF_REPO=$VP_RUN_REPO
TIER=${TIER:-thorough}
ids="$@"
[ -z "$ids" ] && ids=$(python3 -c "import json;print(' '.join(c['property_id'] for c in json.load(open('MANIFEST.json'))['checks']))")
for id in $ids; do
  start=$(date +%s)
  out=$(./bin/vcheck $id $TIER 2>&1); rc=$?
  echo "rc=$rc $(( $(date +%s) - start ))s $(echo "$out" | tail -1 | cut -c1-260)"
  echo "$out" | grep -A4 "^VIOLATION\|INFRA" | head -16
done
