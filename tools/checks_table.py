CHECKS["C18"] = {
    "technique": "stateless model checking: preemption-bounded DFS over goroutine schedules of the real syncx primitives under a controlled scheduler, linearizability-style oracle per execution",
    "text": "every interleaving (iteratively up to the completed preemption bound) of 2-3 goroutines x 1-2 operations on each primitive is executed on the instrumented real code and checked against the primitive's sequential contract",
    "note": "scheduling points only at sync/atomic/channel/time operations (sequential consistency); bounds: threads, ops per thread, preemption bound as reported in evidence",
}
