CHECKS["C18"] = {
    "technique": "stateless model checking: preemption-bounded DFS over goroutine schedules of the real syncx primitives under a controlled scheduler, linearizability-style oracle per execution",
    "text": "every interleaving (iteratively up to the completed preemption bound) of 2-3 goroutines x 1-2 operations on each primitive is executed on the instrumented real code and checked against the primitive's sequential contract",
    "note": "scheduling points only at sync/atomic/channel/time operations (sequential consistency); bounds: threads, ops per thread, preemption bound as reported in evidence",
}
CHECKS["C07"] = {
    "technique": "stateless model checking: preemption-bounded DFS (with happens-before state caching) over all goroutine schedules of closed MapReduce programs on the real lib/mr code",
    "text": "134+ closed programs (entry point x items x workers x per-item mapper behaviour x reducer behaviour x context) are executed under every goroutine interleaving up to the reported preemption bound; each execution is checked for exactly-once processing, worker bound, the exact result (or the allowed set when several disturbances race), that the call returns, and that no goroutine created by the call is left at quiescence",
    "note": "scheduler is sequentially consistent; select non-default ready cases and rendezvous partner choice count as deviations; HB caching assumes all cross-thread communication goes through instrumented primitives or vrt.Obs (harness observations are noted)",
}
CHECKS["C10"] = {
    "technique": "explicit-state model checking: BFS over operation histories of the real TimingWheel (in-package, fake ticker, run-to-quiescence after each op) against a reference map key->(fire tick,value); states deduplicated on model state + the wheel's slot contents",
    "text": "every history of Set/Move/Remove/tick/Drain/Stop/invalid-argument calls over 1-2 keys up to the reported depth, for 1..4 (thorough 1..5) slots and delays up to 3 revolutions, is replayed on a fresh real wheel; every transition is compared with the reference model (exactly-once firing in the right tick with the latest value, no firing otherwise)",
    "note": "default schedule only (the wheel is single-goroutine by design; callbacks are awaited by quiescence); delays are multiples of the interval plus two half-interval values",
}
CHECKS["C09"] = {
    "technique": "explicit-state model checking: BFS over Add/Reduce/time-advance histories of the real RollingWindow and over cpu/allow/pass/fail/time histories of the real adaptive shedder on a virtual clock, against list-of-timestamped-adds reference models; plus preemption-bounded schedule search for concurrent adders",
    "text": "every history up to the reported depth (window sizes 1..4/5, both ignore-current settings, sub-bucket/multi-bucket/multi-window gaps) is replayed on fresh real objects; after every step a reduction must see exactly the per-bucket sums/counts the reference computes; for the shedder every rejection must satisfy the two necessary conditions of the statement, and in-flight/smoothed in-flight/capacity estimate must equal the reference after every step",
    "note": "time is the instrumenter's virtual clock (timex rewritten); CPU reading injected through the package variable systemOverloadChecker; shedder rejection is checked as a necessary condition only (the statement has no liveness clause)",
}
CHECKS["C01"] = {
    "technique": "explicit-state model checking: BFS over call/time-advance histories of the real breaker (virtual clock, the drop draw owned as an alphabet symbol) against a reference list of timestamped outcomes; preemption-bounded schedule search for concurrent callers; exhaustive enumeration of status/code/error classes through the real integrations",
    "text": "every history of Do/DoWithAcceptable/DoWithFallback*/Allow+Accept/Reject/panic calls (direct and through the named registry, incl. NoBreakerFor), time advances of 125 ms..25 s and draw answers {0, 0.5, 1-2^-53} up to the reported depth is replayed on fresh real breakers; each call must be rejected iff drop>0 and draw<drop for drop=max(0,(total-5-1.5*accepts)/(total+1)) over the reference's trailing 40 buckets, rejected calls must not run the request, admitted calls must add exactly one outcome, and the breaker's own window must equal the reference after every step; the exact drop ratio is checked for 0..200 consecutive failures; all HTTP statuses / 17 gRPC codes / sql error classes are pushed through the real handler, interceptors and sqlx connection",
    "note": "time and the PRNG are owned through the instrumenter (timex, math/rand source); redis.acceptable is exercised in the C12 check (needs miniredis); the probabilistic clause is replaced by the exact drop-ratio formula",
}
CHECKS["C16"] = {
    "technique": "stateless model checking: preemption-bounded DFS (HB state caching) over goroutine schedules of adders, a virtual-clock ticker thread, Flush/Wait callers and the real background flusher of the periodical/bulk/chunk executors",
    "text": "13 closed programs (bulk max 2/3 with 1-3 adders, explicit Flush, chunk byte limits, Wait as barrier, idle-quit followed by a late Add, plain periodical executor with a recording container) are run under every interleaving up to the reported preemption bound; oracle: every added task executed exactly once, in-batch order consistent with the real-time order of Add calls, batch size/byte limits, Wait returns only after batches of earlier tasks finished, no deadlock",
    "note": "ticks come from the instrumented virtual clock (timex.NewTicker rewritten), idle-quit uses virtual time; one genuine defect is listed in known_findings.json (Wait vs a batch in transit on the commander channel)",
}
CHECKS["C17"] = {
    "technique": "explicit-state model checking: BFS over Set/SetWithExpire/Get/Del/Take/tick histories of the real collection.Cache (real 300-slot timing wheel on the virtual 1 s ticker, jitter draw owned) against a reference LRU + expiry window; preemption-bounded schedule search for concurrent Take callers",
    "text": "for limits 0/1/2 x expiries 3 s/10 s x wheel phases 0/150/295/299 every history up to the reported depth over 3 keys (incl. expiries of 2/200/310 s so that re-setting crosses the wheel wrap) is replayed on a fresh real cache; after every step: size <= limit, LRU order equals the reference, Get equals the last Set unless deleted/evicted/expired, entries present before 95% and gone after 105% (+1 tick) of the expiry; 2-3 concurrent Take callers (with racing Set/Del): fetch never runs twice at the same time, results come from a fetch, cached only on success",
    "note": "inside the 95..105% window the model adopts the implementation's answer (the statement allows either); a Set racing the asynchronous expiry callback of the same key is outside the statement's quantifier",
}
CHECKS["C18"]["text"] = "23 closed programs over SingleFlight, LockedCalls, Limit, TimeoutLimit, Pool (limit, max age), RefResource, ResourceManager, ManagedResource, ImmutableResource, SpinLock, Barrier, DoneChan, OnceGuard and Cond are executed under every interleaving up to the reported preemption bound (quick 3, thorough 4) and checked against each primitive's contract (overlap/exclusion via recorded call intervals, outstanding counts, exactly-once clean/create, timeouts measured on the virtual clock)"
CHECKS["C02"] = {
    "technique": "stateless model checking: preemption-bounded DFS (HB state caching) over the request goroutine, the handler goroutine spawned by the timeout handler/interceptor, and a virtual-clock (or client-cancel) thread, on the real handlers and on the real chain built by engine.bindRoute",
    "text": "18 handler programs (headers, explicit/implicit status, 1-2 writes, virtual sleeps below/above the timeout, panic before/after writing) x {deadline, client cancel} through TimeoutHandler+RecoverHandler, 10 unary RPC handler behaviours through Crash+Timeout interceptors in server.Start's order, MaxConns n=1,2 with 2-3 concurrent requests (incl. panicking handlers), MaxBytes x Content-Length table, and the complete REST chain from bindRoute: every interleaving up to the reported bound; oracle: exactly one WriteHeader, response is exactly the handler's or exactly the timeout response (never a mixture, never changing after return), handler's response only if it finished, timeout response only after the deadline/cancel, panics never escape, running handlers <= MaxConns and tokens are returned",
    "note": "the real net/http server loop and the interceptor order inside rpc/internal/server.Start (opens a listener) are not driven; when handler completion and the deadline are both ready at the select either complete response is accepted, as Go's select semantics allow",
}
CHECKS["C03"] = {
    "technique": "bounded-exhaustive model checking of inputs: every route table up to the size bound x every request, each under every iteration order of the router's small maps (owned through the instrumenter), against a segment-wise reference matcher",
    "text": "all sets of <=3 (thorough <=4) routes over methods {GET,POST} x patterns of depth <=2 over {a,b,:x,:y} and '/', plus all pairs of depth-3 patterns, are registered in the real router; every request (3 methods x all paths of depth <=3 over {a,b,c} plus unclean forms) is served under every map iteration order; handler runs iff a same-method pattern matches, it is a matching one with exactly its bindings, all-literal matches win, else 405 with the exact Allow set or 404; duplicate/invalid registrations are rejected",
    "note": "map iteration order of lib/search and api/router is enumerated for maps of 2..3 entries (sorted beyond); patterns with a repeated parameter name are excluded (binding unspecified)",
}
CHECKS["C20"] = {
    "technique": "bounded-exhaustive model checking of inputs: every identifier over a 6-symbol alphabet up to the length bound x every template of a 1300-element grammar (prefix x go-casing x separator x designer-casing x suffix, plus malformed ones), against a 15-line reference renderer; exhaustive camel/snake round trip on the stated language",
    "text": "all identifiers of length <=5 (thorough <=7) over {a,z,A,Z,_,1} x all templates are rendered by the real FileNamingFormat and compared with the reference (accept/reject, exact text, same result on a repeated interleaved call); ToSnake(ToCamel(s)) == s for every s in [abz]+(_[abz]+)* up to length 8 (thorough 10); every string of length <=4 over {a,B,_,1,space,é,中} plus invalid UTF-8 is pushed through all conversions for panic-freedom and determinism",
    "note": "the generator's two leaf files are compiled from /repo's working tree as virtual packages of the root module (the nested module cannot be built offline); for non-ASCII templates/identifiers only panic-freedom and determinism are asserted (the statement is silent about byte-length-changing case mappings)",
}
CHECKS["C11"] = {
    "technique": "exhaustive fault enumeration on the real write path: a scripted database/sql driver injects a fault at Begin / each Exec / Commit / Rollback for every transaction body program (0-2 statements, return nil/err, ignore or return statement errors, panic at any position); bounded-exhaustive enumeration of destination shapes x result sets for row mapping",
    "text": "832 fault placements through Transact and TransactCtx: nil result <=> exactly one successful Commit and no Rollback; body error or panic => exactly one Rollback, no Commit, and the caller learns (error or panic); Begin failure => nothing else happens. ~2100 (destination, column permutation incl. extra/missing columns, 0/1/3 rows, strict/partial) cases through QueryRow/QueryRows*: fields equal the column of their db tag (position when untagged), ErrNotFound on empty single-row results, strict mode with fewer columns errors, never a panic",
    "note": "database/sql and its connection pool are real (trusted); NULL handling and untagged destinations with extra columns are outside the statement and only checked for panic-freedom / not generated",
}
CHECKS["C13"] = {
    "technique": "explicit-state model checking: BFS over Add/AddWithWeight/AddWithReplicas/Remove histories of the real ConsistentHash (state = node->replicas), with a fixed finite key population re-assigned in every state and differential comparison against a ring built afresh",
    "text": "every history up to the reported depth over 3 (thorough 4) nodes of string/struct/Stringer type and weights {0,1,50,100} / replicas {0,1,50,100,200}: on every transition all 2000 (thorough 20000) keys are looked up twice; lookups hit only current positive-weight nodes, are repeatable, absent iff none; Remove moves only the removed node's keys, Add only keys onto the added node; re-adding equals remove+add (ring compared in-package, no stale virtual nodes); weight 0 gets no keys; shares of nodes with >=50 replicas stay within [0.5x, 1.6x+2%] of their weight share",
    "note": "'every key' is replaced by a fixed finite population (strings, ints, structs); transitions creating a ring-position collision between nodes are detected and skipped, as the statement excludes them; share tolerance is a fixed deterministic band, not a statistical test",
}
CHECKS["C14"] = {
    "technique": "explicit-state model checking: BFS over pick/completion/time-advance histories of the real p2c picker (in-package, virtual clock, candidate draws owned and part of the alphabet) with invariants on every state; exhaustive enumeration of all candidate-draw sequences for the pick distribution",
    "text": "for 1, 2 and 3 ready connections every history of picks (each candidate pair), completions (ok / acceptable error / Unavailable / DeadlineExceeded on the oldest outstanding pick of each connection) and advances of 1 ms..10 s up to the reported depth: pick returns a ready candidate, in-flight == picks - completions, success in [0,1000] moving towards 1000/0, latency estimate within observed latencies, a candidate not picked for >1 s is chosen; a backend failing every call (1/2/10 s apart) is unhealthy within 8 completions and, counted over all 216 draw sequences, picked strictly less often than each healthy alternative",
    "note": "'markedly' and 'about once per second' are replaced by exact counts over enumerated draws and the 1 s force-pick rule; concurrent callers are not explored separately (Pick holds the picker's mutex; completions use atomics)",
}
CHECKS["C19"] = {
    "technique": "explicit-state model checking: BFS over write/time-advance/Close histories of the real RotateLogger (in-package, real files in a per-execution scratch directory, virtual clock so day changes and one-second backup names are real) against a reference model of current file + named backups + retention predicate",
    "text": "42 rule configurations (daily: days 0/1/2 x gzip x delimiter; size: max 10/25 bytes x maxBackups 0/1/2 x days 0/1 x gzip) x pre-existing directory contents (none, three backups of mixed ages, a foreign file sharing the prefix): every history of records of 3/8/30 bytes, advances of 1 s / 1 day / 3 days and Close up to the reported depth; after every step (worker and post-rotation goroutine quiesced) the current file and every backup (gunzipped) hold exactly the reference's records, size-rule files exceed max by at most their last record, a missing backup must be older than the retention days or beyond the newest maxBackups, foreign files and the current file are never touched, no unexpected file appears",
    "note": "size-triggered rotations within the same second and a rotation onto an existing backup name are excluded as the statement does; file system operations are real and treated as atomic steps",
}
CHECKS["C15"] = {
    "technique": "explicit-state model checking: BFS over publisher/connection histories against a scripted etcd (keyspace with revisions, watch channels whose delivery the harness controls, connection loss that drops events) driving the real registry and real discov.Subscriber containers; preemption-bounded schedule search for a reload racing watch events",
    "text": "every history up to the reported depth of put/delete of 3 keys (two sharing a value), deliver, disconnect, reconnect (reload) and up to two subscribers (plain / exclusive) attached at any time: after every step (all goroutines quiesced) each subscriber's Values() equals the distinct values of the keys visible through delivered events and reload snapshots (exclusive: exactly the values whose most recent publisher is still present), no duplicates, change listeners ran when the view changed, a late joiner sees the current set; plus all interleavings of Deliver vs reconnect-reload up to the bound (deadlock / convergence)",
    "note": "etcd itself is a model (event history is not compacted, a watch started after a reload sees only later events); where arrival order of same-value keys is unspecified (same snapshot) the exclusive-mode assertion is skipped; two genuine defects are listed in known_findings.json (exclusive subscriber joining on a stale cached view; reload deadlock with an event in flight)",
}
CHECKS["C05"] = {
    "technique": "bounded-exhaustive model checking of inputs: every (field kind x tag option x document literal) triple of a single-field struct matrix built with reflect.StructOf, multi-field shapes (optional=dep, anonymous, nested, pointer containers) x value menus, config key respellings x formats, and request structs through the real client helper and server parser; oracle = exact-value relation on big-number arithmetic plus JSON/YAML differential",
    "text": "29 field kinds x 11 tag variants x 75 JSON literals (boundary integers up to 2^64, 1e39, 1e400, ill-typed scalars/arrays/objects, nesting) through UnmarshalJsonBytes, UnmarshalYamlBytes and UnmarshalJsonMap, each twice (cold/warm process-wide caches): never a panic; if no error then the field equals the document value exactly (integers as big.Int, floats as the correctly rounded value, +-Inf rejected), absent->default, optional->zero, required->error, out-of-options / out-of-range -> error; portable documents give the same result as JSON and as YAML; all 729 respellings (snake_case / flipped initial) of a config's keys load to the same struct in both formats; 1024 request structs with awkward path/form/header/json values survive buildRequest -> router -> httpx.Parse",
    "note": "success is never demanded for ill-typed documents (the statement allows failing); null inside containers, null combined with a default, an absent map field (filled with an empty map by design) and number spellings that YAML 1.1 types differently (3.0, exponents, > int64) are outside the asserted relation; keys inside map values are not asserted for conf",
}
CHECKS["C08"] = {
    "technique": "explicit-state model checking: BFS over take/time-advance (and outage/recovery/monitor-tick) histories of the real limiters against counter-per-window and integer token-bucket reference models; the real Lua scripts run in miniredis whose clock is stepped in lock-step with the virtual clock",
    "text": "period limiter: 12 configurations (period/quota, aligned and unaligned windows, two zone offsets) x every history of takes on two keys and advances of 1 s / period-1 / period / period+1 up to depth 2*quota+3: take #i of a key's window returns Allowed / HitQuota / OverQuota exactly as the reference, counters restart only after expiry. Token limiter: 6 (rate, burst) pairs x every history of AllowN(1,2,burst,burst+1), advances of 0/1/2/ttl/ttl+1 s, Redis outage, recovery and 100 ms monitor ticks up to depth 6 (thorough 8): each grant equals the reference bucket in charge (Redis bucket in whole seconds of the caller's clock, in-process bucket during an outage), calls reach Redis iff it answers and a monitor period has passed, admitted events respect burst + rate x t",
    "note": "a take is one atomic EVAL, so concurrent callers are the sequential orders already enumerated (script atomicity is Redis's); the outage inside the history search is a server answering every command with an error (a stopped TCP server makes go-redis cache its dial error for a real second); one real stop/restart is exercised as a smoke run; clock skew between server and caller is outside the claim",
}
CHECKS["C06"] = {
    "technique": "explicit-state model checking: BFS over read/write/delete/time/outage histories of the real cache node, 2-node cluster and CachedConn against a model database + model cache + set of pending delete retries, with miniredis servers whose command log (via a pre-hook) and injected failures the harness owns and whose clock is stepped with the virtual clock; preemption-bounded schedule search for the read stampede; the process-wide cleaner wheel is re-created inside every run on the virtual clock",
    "text": "node and 2-node cluster: every history up to the reported depth of Take on 2 keys, row update/delete with single- and multi-key cache deletes, SetCache, advances of 1 s..5 min, cache outage (all commands / only DEL failing), recovery and both extremes of the TTL jitter: reads return the database's current row or not-found (stale only while a failed delete of that key is pending), no database query while the cache fails, placeholder honoured, stored TTL exact for the jitter draw and within +-5%; every background DEL must match a pending retry at +1 s, +5 s, +1 min, +5 min, +1 h after the previous attempt and none may follow the first success (full ladder driven for 0..5 failing retries). CachedConn: histories of QueryRow / QueryRowIndex / Exec (insert, update, delete, failing statement) / DelCache / SetCache: exact rows, query counts, index entry and primary entry TTL (index expiry + 5 s). Stampede: 2-3 concurrent readers, at most one database query at a time",
    "note": "Redis is miniredis (trusted) reached over real TCP (each command an atomic step); an outage is a server answering with an error; the per-address breaker's draw is pinned so that it never sheds here (C01/C12 cover it); failed deletes through CachedConn are exercised at the cache layer, where the cleaner wheel can be owned",
}
CHECKS["C04"] = {
    "technique": "bounded-exhaustive enumeration of requests and configurations against the real gates, plus explicit-state BFS over call/store/outage/time histories of the real RPC authenticator; tokens and signatures are built by hand (crypto/hmac, RSA) so the reference verdict never goes through the code under test; the jwt clock, the security package's clock and the 5-minute cache run on the virtual clock",
    "text": "JWT gate: 5 alg headers x 4 signing keys x 4 exp x 3 nbf x 4 claim sets x 7 Authorization forms = 6720 tokens, each after every history of 0..2 prior requests that move the parser's per-secret counters, with and without a previous secret: handler runs iff HMAC-signed under the current (or configured previous) secret with valid time claims, context carries exactly the non-registered claims, otherwise 401; verdict independent of the history. Signature gate: 6 methods x strict/lenient x 5 clock offsets around the tolerance x 13 single-field tamperings (incl. foreign key pair, unknown fingerprint, X-Request-Uri): strict GET/POST/PUT/DELETE admitted iff untampered and within tolerance, else 403. Composed by engine.bindRoutes from WithJwt/WithJwtTransition/WithSignature: 3 x 5 configurations x 3 methods x 5 token qualities x 4 signature qualities (401 before 403; strict without keys refused at bind time). RPC: every history up to depth 4 (thorough 6) of calls with 6 metadata shapes, stored-token changes, store outage/recovery and advances of 1 and 6 minutes, strict and lenient; unary and stream interceptors on 48 cases",
    "note": "a token without the Bearer scheme and a non-numeric exp are only checked for panic-freedom and history-independence (the statement does not say which way they go); RSA/HMAC/SHA primitives are trusted; body encryption (type=1, cryptohandler) is outside the statement's iff and not exercised",
}
CHECKS["C12"] = {
    "technique": "explicit-state model checking by differential history search: BFS over command histories (canonical state = full keyspace dump with TTLs of a reference miniredis driven by raw commands through go-redis's generic Do) where every step calls the real wrapper / sharded store method through reflection, in plain and Ctx form, on twin miniredis servers with pinned clock and seed, and compares the converted reply and the whole keyspace; plus enumeration of outcome kinds for the per-address breaker with its draw pinned",
    "text": "alphabet: 241 invocations of 100 wrapper methods (strings, counters, expiry, bitmaps, hashes, lists, sets, hyperloglog, sorted sets incl. by-score/limit/reverse forms, scan family, Lua eval/evalsha/scriptload, geo, ping, a 5-command pipeline, blocking pops on a non-empty list through a blocking node) with arguments chosen to separate start/stop, min/max, page/size, sign and int/float conversions, absent keys and wrong-typed keys; every history of depth 2 (thorough: 3 within budget) from the empty and from a 13-key populated state for redis.Redis plain+Ctx, depth 1 for the cluster-typed wrapper; the sharded store for 5 weight vectors (1, 2, 3, 5 shards incl. a starved shard) over its 197-invocation alphabet (70 methods: every single-key command it offers plus multi-key Del), servers on fixed ports so that key placement is reproducible, where the union of the shards' keyspaces must equal the single reference server. Nil policy pinned per method (Get/GetSet swallow, all others redis.Nil). Breaker: 60 redis.Nil outcomes and 60 cancelled contexts never make it shed, 60 command failures do",
    "note": "Redis semantics are miniredis's (trusted; it lacks GEOHASH, so GeoHash is not exercised); blocking pops on an empty list (real seconds) and the lock/script-cache helpers are not in the alphabet; connection-level failures are represented by a server answering with an error, which the breaker treats identically (any error other than nil/redis.Nil/context.Canceled)",
}

# ---- additions made while strengthening the checks against independently seeded changes ----
_ADD = {
 "C01": "; the REST status classification is repeated after one request of every kind on another route (independence from other requests); concurrent first use of one registry name (one instance per name, every outcome recorded in it); canonical states include the breakers' real rolling windows",
 "C02": "; thorough tier: preemption bound 4; sequential independence (a quick second request after any first request, same or fresh chain); RPC independence (a quick call during a slow/timed-out first call, two concurrent calls)",
 "C03": "; every table is also registered in reverse order (all permutations of 3-route tables at the thorough tier); all 28 single/paired registrations of the seven supported methods on one pattern, requested with each method and with TRACE",
 "C04": "; bodies of undeclared length (ContentLength -1) and the handler must read the intact body; RPC tokens that are a proper prefix or an extension of the stored one; thorough tier: JWT histories of up to 4 prior requests, RPC depth 8",
 "C05": "; thorough tier adds every JSON value of nesting depth <= 2 over 10 atoms (~570 documents); conf key spellings at 13 container positions (slices/maps nested up to three levels); the httpc->httpx round trip includes optional/default/options members sent with zero, default and other values",
 "C06": "; primary keys beyond 10^6 and 2^53; concurrent QueryRowIndex readers (leader and single-flight followers) before and after a write, with no entry left under a key no write invalidates; canonical states include what the Redis servers really hold",
 "C07": "; first-cancel-wins oracle (a cancel that returned before any other was called decides) with sequential double cancels in mappers and reducers; reducers that give up early with more values pending than the collector holds; 150 programs",
 "C08": "; caller clocks one hour behind / ahead of the process clock; a fresh limiter object over the same Redis state as an operation; runs of denied requests with the per-address breaker at its most sensitive (denied is not a failure); three concurrent callers on both limiters, incl. discovering an outage concurrently; canonical states include what Redis really holds",
 "C09": "; composite overload-episode operation and 600 ms steps in the shedder search; the REST shedding middleware and the RPC shedding interceptor (alone and inside the crash interceptor) report every admitted request exactly once on every path (statuses, implicit status, nothing, panic), also after an earlier 503 / panic",
 "C11": "; TransactCtx with a context that is live, already done, cancelled inside the body, or past its deadline; unmapped result columns holding an integer, NULL or bytes; thorough tier: three statements",
 "C12": "; a mixed pipeline (nil, failing and succeeding commands) with per-command results; every command x {run of redis.Nil, run of cancelled contexts, run of failures} on a fresh breaker; every Ctx method of wrapper and sharded store with an already cancelled context (error = context.Canceled, keyspace untouched)",
 "C13": "; rings with custom replica counts 150, 199 and 333 (virtual-node counts replicas*weight/100); canonical states include the real ring",
 "C14": "; narrow-alphabet forced-pick search (picks, completions, 600 ms steps; depth 8/6); concurrent pick/completion schedule scenarios for 1 and 2 connections with data-race-directed scheduling points (in-flight = picks - completions)",
 "C15": "; a second watched prefix; a reader polling Values() while events are delivered (schedule search; lib/discov itself is instrumented); canonical states include the registry's cached views",
 "C16": "; stat.Metrics (the periodical executor with its own container): every history of tasks, drops, minute ticks, explicit flushes and idle periods up to depth 6 (thorough 8): every task and drop reported exactly once",
 "C17": "; bounded-cache concurrent scenarios on different keys (hit vs evicting take/set/delete): stored keys == LRU slots, size <= limit, nothing lost; canonical states include the real map, LRU list and wheel index",
 "C18": "; TimeoutLimit with a barging third party (return at 20/40/70 ms of a 100 ms timeout); pool histories (get/put/time steps, limits 1-3, with and without max age) against a plain model; singleflight late-caller oracle",
 "C19": "; reopen (process restart on the existing current file) as an operation; size and daily rules with the delimiters + , _ . ; the logger's own bookkeeping (believed size, next backup name, rotation mark) is part of the canonical state; 54 configurations",
 "C20": "; identifier alphabet extended with the non-ASCII letters e-acute and a CJK character (rune-aware title reference, results must be valid UTF-8); thorough tier length <= 6",
}
_ADD2 = {
 "C02": "; handler programs calling WriteHeader with an out-of-range status (net/http panics)",
 "C04": "; two route groups on one engine with their own signature keys (same / different fingerprint labels, both binding orders) and jwt secrets: each route admits exactly its own group's credentials",
 "C05": "; defaulted slice kinds; after the caller scribbles over a result a repeated call must return the same as before (no shared defaults, no aliasing of the document)",
 "C06": "; deletes naming k1 use the context form with a request-scoped context cancelled right after the call (background retries must not depend on it)",
 "C07": "; a reducer whose single result is the nil value",
 "C08": "; recovery racing with a late failure (two callers whose Eval failed, Redis coming back, the monitor finding it): the limiter is back on Redis after a few monitor periods on every schedule",
 "C10": "; callbacks still running when later ticks fire their tasks, and a timer set meanwhile (schedule search with race-directed points): each key fires exactly once with its own value",
 "C11": "; destinations with a field tagged db:\"-\" (plain, embedded, slice; partial mode)",
 "C12": "; multi-key delete with each shard failing in turn and four key orders (healthy-shard keys removed and counted, error reported)",
 "C14": "; the clock advancing by 2 s while completions (ok / Unavailable) are being processed concurrently",
 "C17": "; a fetch that panics (the panic reaches the caller, nothing is cached, the next take fetches afresh)",
 "C19": "; two size-triggered rotations in quick succession with compression on, file-system operations being scheduling points (compression of one backup against the clean-up after the next rotation): nothing within maxBackups is removed, no record lost",
}
for _k, _v in _ADD2.items():
    _ADD[_k] = _ADD.get(_k, "") + _v
_ADD3 = {
 "C01": "; sqlx transactions: function error x roll-back / commit error x panic on Transact and TransactCtx (a failed roll-back never turns a failed transaction into a benign one)",
 "C02": "; handlers panicking with http.ErrAbortHandler, an error value and a runtime error",
 "C03": "; the entry point services use: up to three routes spread over one or two AddRoutes groups bound by engine.bindRoutes into the real router, a rejected route (duplicate, duplicate after cleaning, relative path, unsupported method) at every position: start-up fails iff some route must be rejected, otherwise every route is served by its own handler",
 "C05": "; integers in [2^63, 2^64) are part of the JSON=YAML comparison",
 "C07": "; worker settings 0 and -1 (raised to one worker) on MapReduce, MapReduceVoid, MapReduceChan and ForEach",
 "C08": "; aligned windows in time zones whose offset is not a multiple of the period, east and west of UTC",
 "C09": "; sub-millisecond time steps (latencies are recorded rounded up to the millisecond)",
 "C11": "; destination slices that already hold an element",
 "C13": "; after every membership step a lookup whose key's own String method panics (recovered by the caller) must leave the ring's lock free",
 "C14": "; every completion error: all seventeen gRPC codes, no error and a status-less error at three spacings - the score moves towards 0 exactly for DeadlineExceeded, Internal, Unavailable, DataLoss, Unimplemented and never down otherwise",
 "C15": "; the scripted etcd keeps a revision log and a watch opened from revision r is first fed the logged changes >= r; a publisher registering between a subscriber's (or a reload's) snapshot read and the start of its watch must still be delivered",
 "C16": "; two adders x three tasks against a bulk size of two (adds arriving while a full batch is in transit to the flusher)",
 "C17": "; delete-and-repopulate as one step (the new entry has its own life time)",
 "C19": "; the empty delimiter; every write's buffer is overwritten by the caller as soon as Write has returned (io.Writer: the buffer must not be retained); directory states in which the .gz of the next backup cannot be produced (both rules, first or second rotation, close or restart afterwards): the rotated records stay readable",
}
for _k, _v in _ADD3.items():
    _ADD[_k] = _ADD.get(_k, "") + _v
_ADD4 = {
 "C01": "; calls whose predicate rejects a nil error (DoWithAcceptable / DoWithFallbackAcceptable)",
 "C04": "; a second application on the same RPC authenticator (its token, and the first application's token presented in its name)",
 "C05": "; further kinds ([]*int, []*string, map[int]string, map[string]any), tags (,string with options= / range=, env= set and unset) and documents (containers written inside a string, numeric map keys, NaN/Inf, bare numbers for ,string fields); defaults of slice fields of different element types sharing one default text, in every order (differential); empty strings in form members of the client->server round trip (known finding)",
 "C08": "; a 600 ms time step (caller clocks with a sub-second part)",
 "C11": "; every row-shape case through four entry points: connection, prepared statement, transaction session, statement prepared inside a transaction",
 "C12": "; a pipeline with a command the server refuses on arrival between two valid ones",
 "C13": "; pointer-to-struct nodes (a fresh instance with equal content per call); the ring map holds no position that is not on the sorted key list",
 "C15": "; the second watched service is named svc.v2 (its keys are not under svc/)",
 "C16": "; two full batches in transit at once while a long time passes with only a tick or two delivered: the flusher may not retire with a batch waiting",
 "C17": "; narrow deep histories (three keys, re-sets, the time steps around the expiry window; depth 6, thorough 8); a second Set / Del+Set / Take racing the ticks through the expiry of the first Set (schedule search; known finding for the Set landing between the tick and the asynchronous expiry)",
 "C18": "; more concurrent Returns than outstanding borrows on Limit (exactly the borrowed number succeed, none waits, the limit still admits n)",
 "C19": "; the log file's path spelled dir/./app.log and dir//app.log",
 "C20": "; templates with non-ASCII text around the two words, including letters whose upper-case form has another UTF-8 length",
}
_ADD4["C11"] += "; untagged destinations with more result columns than fields"
_ADD4["C15"] += "; a key that expires and is registered again with another value (a later life); a second subscriber joining while a watch event is being delivered (schedule search; known finding)"
_ADD4["C16"] += "; two adders each cutting a batch of their own and then waiting: each Wait covers the waiter's own task"
_ADD5 = {
 "C01": "; a protected function panicking with a nil value",
 "C02": "; for every Timeout value the http.Server settings the engine derives from it are compared with the guard's deadline (the timeout response must still be writable; known finding)",
 "C03": "; requests served at the same time (schedule search with data-race-directed points): each gets the answer it gets on its own, in particular its own Allow list",
 "C04": "; path tamperings a router would consider equivalent (trailing slash, //, /./, /x/../) and an unclean path signed as sent",
 "C05": "; pointer-to-map / pointer-to-slice kinds; env= holding a duration text; numerals that are decimal only in appearance; the same struct read through unmarshalers of different tag keys in every order (differential); config loading of embedded (required / optional) members and optional=Dep members under every key spelling, and of map-typed members whose data keys must arrive as written (known finding)",
 "C06": "; a node whose Redis is of cluster type (multi-key deletes and their retries key by key)",
 "C08": "; requests stamped one second earlier than the latest one processed (stragglers among concurrent callers)",
 "C10": "; removed entries (tombstones) are part of the canonical state in the single-key scenarios (depth-bounded for 3 and 4 slots)",
 "C11": "; bodies panicking with a runtime error, an error value, a nil error value",
 "C13": "; two and three lookups at the same time (schedule search): each returns what it returns on its own",
 "C14": "; concurrent failing completions on a backend whose score is at the bottom of the scale",
 "C15": "; the first subscriber of another prefix attaching while a reload is under way (schedule search)",
 "C18": "; ResourceManager.Close with every subset of three closers failing: all are closed exactly once, the error is reported",
 "C19": "; retention as configured through logx.Config (Setup -> newFileWriter): for every KeepDays x MaxBackups x Rotation x Compress the writer judges a directory of pre-existing backups as the configuration says",
 "C20": "; the -style flag's way through config.NewConfig (third virtual package): the template reaches the formatter byte for byte, only a blank one is refused",
}
_ADD6 = {
 "C02": "; handlers panicking with a nil value; handlers held open: every request is then either inside a handler or answered 503 - nobody waits inside the MaxConns guard; the RPC crash interceptor and the timeout interceptor each on their own with handlers panicking with a string, an error, a runtime error, a nil value (Internal, at once)",
 "C05": "; inherit: the nested level absent / a value / null / empty x the enclosing level x optional x JSON and YAML",
 "C09": "; arrivals and completions on different goroutines (schedule search): the in-flight count is back at zero and never negative",
 "C14": "; a 61 s step (longer than the statistics interval) with calls still open",
 "C18": "; a shared function that panics, followed by later calls with the same key (Do, DoEx, ResourceManager.Get): each executes afresh",
 "C19": "; a foreign file sharing the prefix together with a backup limit",
}
_ADD7 = {
 "C01": "; REST handlers that panic (string, error, http.ErrAbortHandler; before writing anything, after a 200/404/500 header, after body bytes): the panic reaches the caller unchanged and each such request is one failure in the breaker's window, judged request by request against the (total-5) > 1.5 x successes rule",
 "C02": "; handlers setting two values under one header key (both reach the client, in order)",
 "C03": "; tables registered in two instalments on one router with every request served after each instalment: each answer equals that of a router built with exactly those routes that has served nothing before (routing depends on the routes registered at the time of the request only)",
 "C04": "; RPC calls carrying both metadata keys with exactly one value empty",
 "C10": "; callbacks that panic: every subset of three tasks due in one tick panics, every key (of that tick and of later ticks, on 2 and 5 slots) is still handed to the execute function exactly once",
 "C11": "; bodies returning the package's own sentinel errors (ErrNotFound, a wrapped ErrNotFound, sql.ErrTxDone, context.Canceled): rolled back and handed back like any other error",
 "C12": "; BITPOS/BITCOUNT with end = -1 for bit 0 and 1 on an all-ones value, a mixed value and an absent key (an explicit end is not the same command as no end)",
 "C07": "; a context that is never done given before or after the worker bound (each option leaves the other alone); a reducer that writes its value and panics afterwards (the panic must reach the caller; known finding)",
 "C09": "; the clock moving on between two reads inside one Add (clock reads as environment choices, one deviation per step): an add is attributed to any bucket between the one current when it began and when it returned, nothing older than the window is seen afterwards",
 "C14": "; in-flight count back at zero after a completion with every gRPC code",
 "C16": "; the SQL bulk inserter: the row that completes a batch of maxBulkRows flushes it without a tick, no statement carries more rows, every row sent exactly once in order after Flush",
 "C18": "; OnceGuard against its sequential specification (a Taken() that starts after a successful Take reports true whatever losing Takes are under way; Taken never goes back to false)",
 "C19": "; a foreign file whose name sorts below every backup date under the daily rule",
 "C17": "; caches with an expiry of one second (shorter than the wheel tick after jitter): right after every Set, with no tick since, the key reads the value just set",
 "C13": "; membership changes of different nodes running at the same time as each other and as lookups (schedule search with data-race-directed points): every lookup returns what some membership reachable by a subset of the changes assigns, the final ring equals the sequentially built one",
}
for _k, _v in _ADD7.items():
    _ADD[_k] = _ADD.get(_k, "") + _v
for _k, _v in _ADD6.items():
    _ADD[_k] = _ADD.get(_k, "") + _v
for _k, _v in _ADD5.items():
    _ADD[_k] = _ADD.get(_k, "") + _v
for _k, _v in _ADD4.items():
    _ADD[_k] = _ADD.get(_k, "") + _v
for _k, _v in _ADD.items():
    CHECKS[_k]["text"] += _v
for _k in ("C03", "C09", "C13"):
    CHECKS[_k]["technique"] += "; plus preemption-bounded schedule search (bound 2, thorough 3, happens-before pruning) of the concurrent scenarios on the instrumented real code"
for _k in ("C01", "C02", "C03", "C06", "C07", "C08", "C09", "C10", "C13", "C14", "C15", "C16", "C17", "C18", "C19"):
    CHECKS[_k]["technique"] += "; plain memory accesses of the code under test are announced by the instrumenter, unordered conflicting accesses (vector clocks) become scheduling points and the scenario is explored again, so that racy interleavings are executed and judged by the same oracles"
