CHECKS["C18"] = {
    "technique": "stateless model checking: preemption-bounded DFS over goroutine schedules of the real syncx primitives under a controlled scheduler, linearizability-style oracle per execution",
    "text": "every interleaving (iteratively up to the completed preemption bound) of 2-3 goroutines x 1-2 operations on each primitive is executed on the instrumented real code and checked against the primitive's sequential contract",
    "note": "scheduling points only at sync/atomic/channel/time operations (sequential consistency); bounds: threads, ops per thread, preemption bound as reported in evidence",
}
CHECKS["C07"] = {
    "technique": "stateless model checking: preemption-bounded DFS (with happens-before state caching) over all goroutine schedules of closed MapReduce programs on the real lib/mr code",
    "text": "134+ closed programs (entry point x items x workers x per-item mapper behaviour x reducer behaviour x context) are executed under every goroutine interleaving up to the reported preemption bound; each execution is checked for exactly-once processing, worker bound, the exact result (or the allowed set when several disturbances race), that the call returns, and that no goroutine created by the call is left at quiescence",
    "note": "scheduler is sequentially consistent; select non-default ready cases and rendezvous partner choice count as deviations; HB caching assumes all cross-thread communication goes through instrumented primitives or vrt.Obs (harness observations are noted)",
}
CHECKS["C10"] = {
    "technique": "explicit-state model checking: BFS over operation histories of the real TimingWheel (in-package, fake ticker, run-to-quiescence after each op) against a reference map key->(fire tick,value); states deduplicated on model state + the wheel's slot contents",
    "text": "every history of Set/Move/Remove/tick/Drain/Stop/invalid-argument calls over 1-2 keys up to the reported depth, for 1..4 (thorough 1..5) slots and delays up to 3 revolutions, is replayed on a fresh real wheel; every transition is compared with the reference model (exactly-once firing in the right tick with the latest value, no firing otherwise)",
    "note": "default schedule only (the wheel is single-goroutine by design; callbacks are awaited by quiescence); delays are multiples of the interval plus two half-interval values",
}
CHECKS["C09"] = {
    "technique": "explicit-state model checking: BFS over Add/Reduce/time-advance histories of the real RollingWindow and over cpu/allow/pass/fail/time histories of the real adaptive shedder on a virtual clock, against list-of-timestamped-adds reference models; plus preemption-bounded schedule search for concurrent adders",
    "text": "every history up to the reported depth (window sizes 1..4/5, both ignore-current settings, sub-bucket/multi-bucket/multi-window gaps) is replayed on fresh real objects; after every step a reduction must see exactly the per-bucket sums/counts the reference computes; for the shedder every rejection must satisfy the two necessary conditions of the statement, and in-flight/smoothed in-flight/capacity estimate must equal the reference after every step",
    "note": "time is the instrumenter's virtual clock (timex rewritten); CPU reading injected through the package variable systemOverloadChecker; shedder rejection is checked as a necessary condition only (the statement has no liveness clause)",
}
CHECKS["C01"] = {
    "technique": "explicit-state model checking: BFS over call/time-advance histories of the real breaker (virtual clock, the drop draw owned as an alphabet symbol) against a reference list of timestamped outcomes; preemption-bounded schedule search for concurrent callers; exhaustive enumeration of status/code/error classes through the real integrations",
    "text": "every history of Do/DoWithAcceptable/DoWithFallback*/Allow+Accept/Reject/panic calls (direct and through the named registry, incl. NoBreakerFor), time advances of 125 ms..25 s and draw answers {0, 0.5, 1-2^-53} up to the reported depth is replayed on fresh real breakers; each call must be rejected iff drop>0 and draw<drop for drop=max(0,(total-5-1.5*accepts)/(total+1)) over the reference's trailing 40 buckets, rejected calls must not run the request, admitted calls must add exactly one outcome, and the breaker's own window must equal the reference after every step; the exact drop ratio is checked for 0..200 consecutive failures; all HTTP statuses / 17 gRPC codes / sql error classes are pushed through the real handler, interceptors and sqlx connection",
    "note": "time and the PRNG are owned through the instrumenter (timex, math/rand source); redis.acceptable is exercised in the C12 check (needs miniredis); the probabilistic clause is replaced by the exact drop-ratio formula",
}
CHECKS["C16"] = {
    "technique": "stateless model checking: preemption-bounded DFS (HB state caching) over goroutine schedules of adders, a virtual-clock ticker thread, Flush/Wait callers and the real background flusher of the periodical/bulk/chunk executors",
    "text": "13 closed programs (bulk max 2/3 with 1-3 adders, explicit Flush, chunk byte limits, Wait as barrier, idle-quit followed by a late Add, plain periodical executor with a recording container) are run under every interleaving up to the reported preemption bound; oracle: every added task executed exactly once, in-batch order consistent with the real-time order of Add calls, batch size/byte limits, Wait returns only after batches of earlier tasks finished, no deadlock",
    "note": "ticks come from the instrumented virtual clock (timex.NewTicker rewritten), idle-quit uses virtual time; one genuine defect is listed in known_findings.json (Wait vs a batch in transit on the commander channel)",
}
CHECKS["C17"] = {
    "technique": "explicit-state model checking: BFS over Set/SetWithExpire/Get/Del/Take/tick histories of the real collection.Cache (real 300-slot timing wheel on the virtual 1 s ticker, jitter draw owned) against a reference LRU + expiry window; preemption-bounded schedule search for concurrent Take callers",
    "text": "for limits 0/1/2 x expiries 3 s/10 s x wheel phases 0/150/295/299 every history up to the reported depth over 3 keys (incl. expiries of 2/200/310 s so that re-setting crosses the wheel wrap) is replayed on a fresh real cache; after every step: size <= limit, LRU order equals the reference, Get equals the last Set unless deleted/evicted/expired, entries present before 95% and gone after 105% (+1 tick) of the expiry; 2-3 concurrent Take callers (with racing Set/Del): fetch never runs twice at the same time, results come from a fetch, cached only on success",
    "note": "inside the 95..105% window the model adopts the implementation's answer (the statement allows either); a Set racing the asynchronous expiry callback of the same key is outside the statement's quantifier",
}
