#!/bin/bash
# usage: seed_round.sh <worktree-name e.g. c13b> <ID> <seed-name>   — confirm, run check, store, print verdict
WT=/tmp/seed/$1; ID=$2; NAME=$3
/verif/tools/try_seed.sh $WT $ID $NAME 2>&1 | tail -22 | cut -c1-300
