#!/usr/bin/env python3
"""Regenerates /verif/MANIFEST.json from the table below (kept in one place so the
manifest is valid at all times)."""
import json, os
V = os.path.dirname(os.path.dirname(os.path.abspath(__file__)))
props = [json.loads(l) for l in open(os.path.join(V, 'properties.jsonl'))]
ids = [p['id'] for p in props]

# id -> (technique, level text, level note, design ref)
CHECKS = {}
NA = {}
exec(open(os.path.join(V, 'tools', 'checks_table.py')).read())

checks = []
for i in ids:
    if i in CHECKS:
        c = CHECKS[i]
        checks.append({
            "property_id": i,
            "quick_cmd": f"bin/vcheck {i} quick",
            "thorough_cmd": f"bin/vcheck {i} thorough",
            "evidence_file": f"/verif/evidence/{i}.json",
            "replay_cmd_template": f"bin/vcheck {i} --replay {{path}}",
            "engine": "vrt",
            "level_claimed": {"category": "model_checking", "text": c["text"], "design_ref": c.get("ref", "DESIGN.md §3 " + i)},
            "level_note": c["note"],
            "technique": c["technique"],
        })
na = [{"property_id": i, "reason": NA.get(i, "check not built yet in this session; see DESIGN.md §3 for the planned design")} for i in ids if i not in CHECKS]
m = {
    "version": 1,
    "setup_cmd": "sh /verif/bin_setup.sh",
    "hooks": {
        "guard": "verif",
        "enable": "no in-repo hooks: bin/vcheck instruments /repo's working tree at check time (go/ast source rewrite of go/chan/select/sync/atomic/time/context/rand into the runtime /verif/engine/vrt) and builds it with `go test -c -overlay <generated overlay.json> -vet=off`",
        "baseline_off_cmd": "cd /repo && GOFLAGS=-mod=mod go test -vet=off -count=1 -timeout 25m ./...",
        "source_commits": [],
        "add_only": True,
    },
    "engines": [{"name": "vrt", "path": "/verif/engine", "serves_properties": sorted(CHECKS), "kind_free_text": "hand-written stateless model checker for Go: source instrumenter + controlled cooperative scheduler with virtual time; deviation-bounded DFS over schedules, BFS over operation histories with reference models, bounded-exhaustive input enumeration; all on the real code"}],
    "checks": checks,
    "not_applicable": na,
    "notes": "See DESIGN.md. Exit codes of bin/vcheck: 0 property held on everything explored (or only KNOWN-FINDING lines), 1 VIOLATION, 2 infrastructure error (never a VIOLATION line).",
}
json.dump(m, open(os.path.join(V, 'MANIFEST.json'), 'w'), indent=1, ensure_ascii=False)
print("wrote MANIFEST.json with", len(checks), "checks,", len(na), "not_applicable")
