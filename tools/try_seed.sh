#!/bin/bash
# usage: try_seed.sh <worktree> <PROPERTY-ID> <name> [tier]
# Confirms a seeded change (existing tests pass, demo fails with / passes without), runs the
# /verif check against it on /repo and stores it under /verif/seeded/<name>/.
set -u
export GOFLAGS=-mod=mod GOPROXY=off GOSUMDB=off GOTOOLCHAIN=local
WT=$1; ID=$2; NAME=$3; TIER=${4:-quick}
OUT=/verif/seeded/$NAME
mkdir -p $OUT
cd $WT || exit 2
git diff -- . ':(exclude)*zz_seed_demo_test.go' ':(exclude)SEED_NOTES.md' ':(exclude)seed.patch' > $OUT/patch.diff
DEMO=$(git status --porcelain | grep zz_seed_demo_test.go | awk '{print $2}')
cp $DEMO $OUT/ 2>/dev/null
cp SEED_NOTES.md $OUT/ 2>/dev/null
PKGS=$(git diff --name-only -- . ':(exclude)*zz_seed_demo_test.go' | grep '\.go$' | xargs -n1 dirname | sort -u | sed 's#^#./#')
DEMOPKG=./$(dirname $DEMO)
echo "== packages touched: $PKGS ; demo in $DEMOPKG"
echo "== existing tests with the change"
go test -vet=off -count=1 -skip 'Seed|seed' $PKGS $DEMOPKG 2>&1 | tail -5 | tee $OUT/existing_tests.txt
echo "== demo with the change (must FAIL)"
go test -vet=off -count=1 -run 'Seed|seed' $DEMOPKG 2>&1 | tail -4 | tee $OUT/demo_with_change.txt
git apply -R $OUT/patch.diff || { echo "cannot revert patch in worktree"; exit 2; }
echo "== demo without the change (must PASS)"
go test -vet=off -count=1 -run 'Seed|seed' $DEMOPKG 2>&1 | tail -3 | tee $OUT/demo_without_change.txt
git apply $OUT/patch.diff
echo "== /verif check $ID $TIER against the change"
cd /repo && git apply $OUT/patch.diff || { echo "patch does not apply to /repo"; exit 2; }
cd /verif && timeout 1800 ./bin/vcheck $ID $TIER > $OUT/check_output.txt 2>&1; RC=$?
cd /repo && git checkout -- . && git status --short | head -3
echo "check exit code: $RC" | tee -a $OUT/check_output.txt
grep -A3 "^VIOLATION" $OUT/check_output.txt | head -12
tail -1 $OUT/check_output.txt
