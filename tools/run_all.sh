#!/bin/bash
# runs every registered check (quick by default) and prints one summary line each
TIER=${1:-quick}
cd /verif
for id in $(python3 -c "import json;print(' '.join(c['property_id'] for c in json.load(open('MANIFEST.json'))['checks']))"); do
  out=$(./bin/vcheck $id $TIER 2>&1); rc=$?
  echo "rc=$rc $(echo "$out" | tail -1 | cut -c1-220)"
  echo "$out" | grep -A3 "^VIOLATION\|INFRA" | head -12
done
